"""
C09 - L2CAP channel tables stay exact; closed identifiers are reusable.

Operation histories (plain data) are interpreted against the real stack:

* world: one central and 1..3 peripherals (full Devices on vlib.world.World, LE links or BR/EDR
  links), L2CAP servers on 1..3 PSMs per kind on every device, generated order-preserving HCI
  delays. Every operation (open LE credit-based / enhanced credit-based / classic, open to an
  unserved PSM, close and abort from either end, both ends closing the same channel, drain with
  unsent data, cut the link from either end, reconnect) is *started* as a task and followed by a generated amount of virtual
  time ("wait"): 0..34 ms leaves it in flight while the next operation (possibly on another
  link, possibly a link cut) is issued, -1 runs to quiescence where the invariants are checked.
* raw: one Device and a vlib.world.RawPeer that does the credit-based signalling by hand on
  CID 5 with its own CID choices (different from the CIDs Bumble allocates), re-uses CIDs after
  closing, refuses (no DCID / zero DCIDs / a partial acceptance), stays mute, and is cut off.
* rawcl: one Device and a peer that does the classic signalling (CID 1: Connection / Configure / Disconnection
  Request and Response) by hand over an LE link or a BR/EDR link, with its own CIDs (0x40 .. 0xFFFF): it opens
  (complete configuration, stalled configuration, close during configuration), answers the DUT's opens (accept,
  pending then accept, refuse with three result codes, pending then refuse, never, accept but never configure,
  reject the configuration, close during configuration), leaves the DUT's Disconnection Request unanswered,
  sends its own at the same moment, and is cut off. A directed family pairs every kind of pending operation with
  every way its channel or link can go away.
* directed families on the boundary of the identifier spaces: all 64 dynamic LE CIDs of one connection in use
  (second link idle; against the raw peer with asymmetric CIDs), requests at and one below exhaustion, re-use of
  the lowest / a middle / the highest CID; the signalling identifier (1..255) wrapping while the first request
  of the connection is still unanswered.
* directed families on the fault points: every kind of operation with the link cut t ms after its start (t sweeps
  its duration), opens issued t ms into a cut, and opens issued k single loop iterations into a cut (for one k the
  disconnection event is queued ahead of the open's first step).

The oracle compares the ChannelManager tables with the channels *reported open* by the channel
objects the harness has been handed (open results, server callbacks), a small history model
(what must be open / closed), and the completion of every started task. While operations are in
flight on some links, the links on which nothing was started since the last quiescence are checked
as well (their tables and channels must not move: independence).
"""

from __future__ import annotations

import asyncio
import collections

from hypothesis import strategies as st

from bumble import l2cap
from vlib import vloop, world

PROPERTY = 'C09'
LEVEL = 'exploration'
RULE = (
    'world: histories of open(le|enh x 1..5|classic, link, end, psm)/open-by-both-ends(link, gap)/open-to-unserved-psm/'
    'close(channel, end)/close-by-both-ends(channel, gap)/abort(channel, end)/disconnect-then-abort(channel, end, gap)/'
    'abort(channel with a pending disconnect)/abort-peer-end-then-disconnect-then-abort(channel, gap)/'
    'drain(channel, end, bytes)/cut(link | link of the last op, end)/reconnect(link)/step(k single loop iterations '
    'before the next operation) over 1 central + 1..3 '
    'peripherals (LE links, LE links also carrying classic channels, or BR/EDR links), 1..3 served PSMs per '
    'kind on every device, per-device order-preserving HCI delays; each op is started as a task and followed '
    'by a generated wait (0..34 ms = left in flight, -1 = run to quiescence, invariants checked; links without '
    'an operation since the last quiescence are checked also while others are busy). '
    'raw: histories of raw-peer open (own CID from a pool, LE credit-based or enhanced x n, duplicates, '
    'unserved PSM)/raw close/DUT open (answered with a pool CID, refused [3 result codes; enhanced: no DCID, zero DCIDs, '
    'first channel accepted], or never answered)/DUT close/DUT '
    'abort/cut(end)/reconnect against one Device. '
    'rawcl: histories of peer open (own CID from {0x40,0x41,0x55,0x100,0xFFFF}; configuration completed | stalled | '
    'closed during configuration)/peer open to an unserved PSM/peer close (of an open, a configuring or a '
    'DUT-closing channel)/DUT open answered ok | pending+ok | refused (3 codes) | pending+refused | never | accepted but '
    'never configured | configuration rejected | closed during configuration/DUT close answered | unanswered/DUT '
    'abort/crossing Disconnection Requests/cut(end)/reconnect, classic signalling by hand over an LE or a BR/EDR '
    'link; plus enumerated: {pending open: unanswered, unconfigured, configuration rejected; unanswered close; '
    'stalled inbound open} x {cut by either end, peer close, abort} x carrier, each followed by re-opens. '
    'enumerated boundary families (every shard runs them): fill_world = 2 transports x who opens (3) x which channel is '
    'closed at exhaustion (lowest/middle/highest CID) x who closes: 64 CIDs of one of two links in use, opens at '
    'exhaustion, into the last free CID, 3 asked with 2 free, the other link, cut, reconnect (36); fill_raw '
    '(6): the same against the raw peer; wrap_raw (4): first request of the connection unanswered, 254 further '
    'signalling identifiers, the request that meets identifier 1 again (le|enh x le|enh), cut. '
    'cutpoints (sharded): (transport, kind) in {le:le, le:enh, classic:cl, le+cl:cl, le+cl:le} x operation under cut '
    '{open x3, close, close-by-both, disconnect-then-abort, drain 300} x cut t ms after its start (t = 0..34; quick: '
    '0, 1, 3, 6, 10, 15) x cutting end x 2 HCI delay profiles, second link idle, then reconnect and re-open; the same with '
    'the cut first and an open (one end / both ends) issued t ms into it (thorough only); races (sharded): cut, '
    'k = 0..9 (quick 0..5) '
    'single loop iterations, open by either end, 5 (transport, kind) pairs, no delays - for one k the disconnection '
    'event and the first step of the open are queued together (thorough: also t = 0..15 ms x k = 1, 2 with delays). '
    'non-trivial = an open after a close/refusal/abort on the '
    'same connection, or operations in flight on two links at once, or a link cut with an operation pending, '
    'or an abort of a channel whose disconnect is pending, or (raw, rawcl) a CID re-used after close; '
    'distinct by (configuration, operation sequence).'
)
ASSUMPTIONS = [
    'family open_giveup (LE credit-based opens whose caller gives up through task.cancel() or an enclosing asyncio.wait_for): the '
    'abandoned call may end any way it likes; once everything has settled neither side may list a channel that is not open, both '
    'sides list the same number of channels, and after any number of abandoned opens (also more than the 64 dynamic CIDs) a fresh '
    'open succeeds. Enhanced credit-based and classic opens are not abandoned by this family yet',
    'hang = task still pending after 1900 virtual seconds of quiescence (Bumble has no L2CAP signalling timeout)',
    'operations are only issued on links whose two ends are alive when the operation starts (a cut may be in flight); '
    'alive = the application has not been handed a disconnection event for its Connection yet - the event may already '
    'be queued in the loop, ahead of the first step of the operation (a schedule no application can exclude)',
    'channel.abort() is a local teardown: the other end legitimately stays open (an "orphan"); while an orphan '
    'exists on a link, credit-based opens on that link may be refused (source CID already allocated) and a '
    'close of the orphan may stay pending until the link goes away or abort() is called on the closing end',
    'a drain on an open channel whose peer never returns credits may stay pending while channel and link live',
    'receivers install no sink, so no credits are returned: unsent data stays unsent until close/cut',
    'exhaustion of the 64 LE dynamic CIDs is a legitimate refusal',
    'a request for n channels when fewer than n of the 64 identifiers are free is a legitimate refusal (it must leave '
    'nothing behind); with n or more free the open must succeed',
    'after channel.abort() the channel is not a channel any more: it must report closed and be absent from the tables, '
    'whatever it was doing (open, or waiting for the answer to its own Disconnection Request)',
    'rawcl: the peer never re-uses a CID it still holds (duplicate source CIDs of a classic peer are not judged); a '
    'configuration the peer never completes or rejects leaves the open legitimately pending while channel and '
    'link live (Bumble has no configuration timeout); a Disconnection Request the peer never answers likewise',
    'rawcl, LE carrier: classic signalling runs on CID 1 of the LE link, as in the world variant with transport le+cl',
    'a partially accepted enhanced request may fail as a whole or yield exactly the accepted channel',
    'an open whose signalling identifier (1..255, cyclic per connection) is still awaited by an unanswered request of '
    'the same connection may be refused locally ("too many concurrent connection requests"); it must leave nothing '
    'behind and must not disturb the unanswered request',
    'a peer does not answer a command that carries the illegal signalling identifier 0',
]
SHRINK_KEYS = ('ops',)

QUIESCE = 1900.0
LE_PSMS = [0x80, 0x81, 0x82]
CL_PSMS = [0x1001, 0x1003, 0x1005]
LE_UNSERVED = 0xF0
CL_UNSERVED = 0x10F1
WAITS = [-1, -1, -1, -1, 0, 0, 1, 2, 3, 5, 8, 13, 21, 34]
LE_CIDS = 0x7F - 0x40 + 1

LeState = l2cap.LeCreditBasedChannel.State
ClState = l2cap.ClassicChannel.State


def le_spec(psm):
    return l2cap.LeCreditBasedChannelSpec(psm=psm, max_credits=2, mtu=256, mps=32)


def report(obj) -> str:
    """What the channel object itself reports: 'open' | 'closed' | 'limbo' (in transition)."""
    if isinstance(obj, l2cap.LeCreditBasedChannel):
        if obj.state == LeState.CONNECTED:
            return 'open'
        if obj.state in (LeState.CONNECTING, LeState.DISCONNECTING):
            return 'limbo'
        return 'closed'
    if obj.state == ClState.OPEN:
        return 'open'
    if obj.state == ClState.CLOSED:
        return 'closed'
    return 'limbo'


def is_le(obj) -> bool:
    return isinstance(obj, l2cap.LeCreditBasedChannel)


def exc_name(exc) -> str:
    if isinstance(exc, l2cap.L2capError):
        return f'L2capError:{exc.error_name or exc.error_code}'
    if isinstance(exc, asyncio.CancelledError):
        return 'CancelledError'
    text = str(exc)[:60]
    return f'{type(exc).__name__}:{text}' if text else type(exc).__name__


class _Stop(Exception):
    """Case ended early (a violation was recorded)."""


# ---------------------------------------------------------------------------
# world variant
# ---------------------------------------------------------------------------
class Link:
    def __init__(self, idx):
        self.idx = idx
        self.epoch = 0
        self.conns = [None, None]
        self.alive = [False, False]
        self.cut_started = False
        self.abort_seen = False  # an abort() left (or may have left) an orphan end on this connection
        self.dirty = False  # an operation was started on this link since the last quiescence
        self.history = set()  # 'close' | 'refusal' | 'abort' seen on this connection (for labels)

    @property
    def up(self):
        return self.alive[0] and self.alive[1]


class End:
    """One end of a channel: a Bumble channel object on one device."""

    def __init__(self, obj, link, epoch, side):
        self.obj = obj
        self.link = link
        self.epoch = epoch
        self.side = side
        self.chan = None
        self.aborted = False
        self.abort_done = False  # the abort() call has returned
        self.close_started = False


class Chan:
    """A logical channel (client end + server end)."""

    def __init__(self, kind, link, epoch):
        self.kind = kind
        self.link = link
        self.epoch = epoch
        self.ends = [None, None]
        self.expect_open = False
        self.close_ok = False
        self.racy = False  # closed (by the peer or the link) before the open was reported to the opener

    def other(self, side):
        return self.ends[1 - side]


class Op:
    def __init__(self, step, what, task, link, side, **kw):
        self.step = step
        self.what = what
        self.task = task
        self.link = link
        self.epoch = link.epoch if link is not None else 0
        self.side = side
        self.processed = False
        self.__dict__.update(kw)


def world_ops(max_ops):
    link = st.integers(0, 2)
    side = st.integers(0, 1)
    wait = st.sampled_from(WAITS)
    kind = st.sampled_from(['le', 'le', 'enh', 'cl'])
    sel = st.integers(0, 5)
    # n (enhanced only): up to 5 channels per request, the most one request may carry
    open_op = st.tuples(st.just('open'), kind, link, side, st.integers(0, 2), st.sampled_from([1, 2, 2, 3, 3, 4, 5]), wait)
    op = st.one_of(
        open_op,
        open_op,
        open_op,
        open_op,
        st.tuples(st.just('refuse'), kind, link, side, wait),
        st.tuples(st.just('close'), sel, side, wait),
        st.tuples(st.just('close'), sel, side, wait),
        st.tuples(st.just('close'), sel, side, wait),
        st.tuples(st.just('abort'), sel, side, wait),
        # both ends close the same channel, the second `gap` ms after the first
        st.tuples(st.just('close_both'), sel, side, st.sampled_from([0, 0, 1, 2, 3, 5]), wait),
        st.tuples(st.just('abort'), sel, side, wait),
        # disconnect() and, `gap` ms later, abort() of the SAME end: the abort must release the close waiter
        st.tuples(st.just('close_abort'), sel, side, st.sampled_from([0, 0, 1, 2, 3, 5]), wait),
        # abort() of an end whose disconnect() is still pending (e.g. the unanswered close of an orphan)
        st.tuples(st.just('abort_closing'), sel, side, wait),
        # abort() of the peer's end, then disconnect() of this end (never answered), then abort() of this end
        st.tuples(st.just('orphan_close_abort'), sel, side, st.sampled_from([0, 1, 3, 8]), wait),
        st.tuples(st.just('drain'), sel, side, st.sampled_from([8, 40, 300]), wait),
        # both ends of one link open at (nearly) the same time: crossed requests, the two ends allocate differently
        st.tuples(st.just('open_both'), kind, link, side, st.integers(0, 2), st.integers(1, 3),
                  st.sampled_from([0, 0, 1, 2, 3]), wait),
        # link -1 = the link of the operation started last
        st.tuples(st.just('cut'), st.sampled_from([-1, -1, 0, 1, 2]), side, wait),
        st.tuples(st.just('reconnect'), link),
        # pure scheduling: the next operation is issued after this many single iterations of the loop
        st.tuples(st.just('step'), st.integers(1, 6)),
    )
    return st.tuples(open_op, st.lists(op, min_size=3, max_size=max_ops - 1)).map(lambda t: [t[0]] + t[1])


def world_cases(max_ops):
    delays = st.lists(st.sampled_from([0, 1, 2, 3, 5]), max_size=4)
    return st.fixed_dictionaries(
        {
            'transport': st.sampled_from(['le', 'le', 'le+cl', 'classic']),
            'nper': st.integers(1, 3),
            'npsm': st.integers(1, 3),
            'delays': st.lists(delays, min_size=4, max_size=4),
            'ops': world_ops(max_ops),
        }
    )


def _plain(x):
    if isinstance(x, (list, tuple)):
        return [_plain(v) for v in x]
    return x


def run_world_case(ctx, case) -> None:
    transport = case['transport']
    nper = int(case['nper'])
    npsm = int(case['npsm'])
    delays = [list(d) for d in case['delays']]
    ops = [_plain(o) for o in case['ops']]
    loop = vloop.new_loop()
    loop.max_iterations = 400_000
    labels = set()
    flags = {'nontrivial': False}
    cur = {'step': -1}
    evq: collections.deque = collections.deque()
    links = [Link(i) for i in range(nper)]
    conn_map: dict = {}  # id(Connection) -> (link, epoch, side)
    ends: list[End] = []
    chans: list[Chan] = []
    pending: list[Op] = []
    st_ = {}

    def fail(sig, what):
        c = {'kind': 'world', 'transport': transport, 'nper': nper, 'npsm': npsm, 'delays': delays,
             'ops': ops[: cur['step'] + 1]}
        ctx.fail(sig, what, c)
        raise _Stop()

    def run_loop(duration):
        cur['runs'] = cur.get('runs', 0) + 1  # the harness regains control between two runs of the loop
        loop.run_for(duration)

    def node_of(link, side):
        return 0 if side == 0 else link.idx + 1

    def manager(node):
        return st_['w'][node].device.l2cap_channel_manager

    # -- set-up ----------------------------------------------------------------
    def on_server_channel(node, ch):
        evq.append(('server', node, ch))

    async def connect(link):
        w = st_['w']
        if transport == 'classic':
            cc, cp = await w.connect_classic(0, link.idx + 1)
        else:
            cc, cp = await w.connect_le(0, link.idx + 1)
        link.epoch += 1
        link.conns = [cc, cp]
        link.alive = [True, True]
        link.cut_started = False
        link.abort_seen = False
        link.history = set()
        for side, c in enumerate((cc, cp)):
            conn_map[id(c)] = (link, link.epoch, side, c)
            c.on('disconnection', lambda reason, link=link, epoch=link.epoch, side=side: evq.append(('down', link, epoch, side)))

    async def setup():
        n = 1 + nper
        w = world.World(n, delays=[delays[i % len(delays)] for i in range(n)], classic=(transport == 'classic'))
        st_['w'] = w
        await w.power_on()
        for i, node in enumerate(w.nodes):
            for k in range(npsm):
                if transport != 'classic':
                    node.device.create_l2cap_server(le_spec(LE_PSMS[k]), handler=lambda ch, i=i: on_server_channel(i, ch))
                if transport != 'le':
                    node.device.create_l2cap_server(
                        l2cap.ClassicChannelSpec(psm=CL_PSMS[k]), handler=lambda ch, i=i: on_server_channel(i, ch)
                    )
        for link in links:
            await connect(link)

    # -- event processing --------------------------------------------------------
    def orphan_on(link, peer_side) -> bool:
        for e in ends:
            if e.link is link and e.epoch == link.epoch and e.side == peer_side and is_le(e.obj):
                if report(e.obj) == 'closed':
                    continue
                partner = e.chan.other(e.side) if e.chan else None
                if partner is None or report(partner.obj) != 'open':
                    return True
        return False

    def cids_in_use(link, side) -> int:
        m = manager(node_of(link, side))
        return len(m.channels.get(link.conns[side].handle, {}))

    def handle_event(ev):
        if ev[0] == 'down':
            _, link, epoch, side = ev
            if link.epoch == epoch:
                link.alive[side] = False
                for o in pending:
                    # the disconnection reached this end during the very first run of the loop after the open was
                    # issued: disconnection event and first step of the open were queued together, in either order
                    if (o.what == 'open' and o.link is link and o.epoch == epoch and o.side == side
                            and o.run == cur.get('runs', 0) - 1):
                        labels.add('open_queued_with_disconnection')
            return
        if ev[0] == 'server':
            _, node, ch = ev
            info = conn_map.get(id(ch.connection))
            if info is None:
                fail('model/server_channel_on_unknown_connection', 'a server callback delivered a channel of a connection the harness never saw')
            link, epoch, side, _c = info
            e = End(ch, link, epoch, side)
            c = Chan('cl' if not is_le(ch) else 'le?', link, epoch)
            c.ends[side] = e
            e.chan = c
            ends.append(e)
            chans.append(c)
            return
        op = ev[1]
        op.processed = True
        if op in pending:
            pending.remove(op)
        task = op.task
        exc = None
        if task.cancelled():
            exc = asyncio.CancelledError()
        elif task.exception() is not None:
            exc = task.exception()
        link = op.link
        same_epoch = link is not None and link.epoch == op.epoch
        if op.what == 'open':
            if exc is None:
                result = task.result()
                objs = result if isinstance(result, list) else [result]
                if op.kind == 'enh' and len(objs) != op.n:
                    fail('open/enh_wrong_count', f'enhanced open of {op.n} channels returned {len(objs)}')
                for obj in objs:
                    e = End(obj, link, op.epoch, op.side)
                    ends.append(e)
                    # the server end: created by the peer's server callback on this connection
                    match = None
                    for s in ends:
                        if (s.link is link and s.epoch == op.epoch and s.side == 1 - op.side and s.chan is not None
                                and s.chan.ends[op.side] is None and is_le(s.obj) == is_le(obj)
                                and s.obj.source_cid == obj.destination_cid
                                and s.obj.destination_cid == obj.source_cid):
                            match = s
                    if match is None:
                        if same_epoch and link.up and not link.cut_started:
                            fail('model/server_end_not_found', f'{op.kind} open succeeded but the peer created no channel with the matching CID pair')
                        c = Chan(op.kind, link, op.epoch)
                        chans.append(c)
                    else:
                        c = match.chan
                        c.kind = op.kind
                    c.ends[op.side] = e
                    e.chan = c
                    c.expect_open = same_epoch and link.up and not link.cut_started
                    if report(obj) != 'open' or (match is not None and (match.close_started or match.aborted)):
                        c.racy = True
                        labels.add('closed_before_open_returned')
                    if report(obj) == 'open' and obj.source_cid != obj.destination_cid:
                        labels.add('asym_cids')
                labels.add(f'open_ok:{op.kind}')
                if op.kind != 'cl' and same_epoch and link.up:
                    if op.in_use + op.n == LE_CIDS:
                        # the request needed every identifier that was still free (boundary of the CID space)
                        labels.add('open_into_last_free_cids')
                    if max(cids_in_use(link, 0), cids_in_use(link, 1)) >= LE_CIDS:
                        labels.add('cid_space_full')
            else:
                excused = None
                if not same_epoch or not link.up or link.cut_started:
                    excused = 'link_cut'
                elif op.kind != 'cl' and (op.orphan_seen or orphan_on(link, 1 - op.side)):
                    excused = 'orphan_at_peer'
                elif op.kind != 'cl' and max(cids_in_use(link, 0), cids_in_use(link, 1)) + op.n > LE_CIDS:
                    excused = 'cid_exhaustion'
                if excused is None:
                    hist = '+'.join(sorted(op.history)) or 'fresh'
                    fail(f'open_failed/{op.kind}/{exc_name(exc)}',
                         f'{op.kind} open to a served PSM on a live link failed with {exc!r} (earlier on this connection: {hist}; '
                         f'{op.others_in_flight} operation(s) in flight on other links)')
                labels.add(f'open_excused:{excused}')
        elif op.what == 'refuse':
            if exc is None:
                fail(f'refuse/succeeded/{op.kind}', 'an open to a PSM nobody serves succeeded')
            if same_epoch:
                link.history.add('refusal')
            labels.add('refused')
        elif op.what == 'close':
            if exc is None:
                op.end.chan.close_ok = True
                labels.add('close_ok')
            if same_epoch:
                link.history.add('close')
        elif op.what == 'abort':
            if exc is not None:
                fail(f'abort_raises/{op.end.chan.kind}/{exc_name(exc)}', f'channel.abort() raised {exc!r}')
            op.end.abort_done = True
            if same_epoch:
                link.history.add('abort')
        elif op.what == 'drain':
            labels.add('drain_done')
        elif op.what == 'cut':
            pass

    def reap():
        while evq:
            handle_event(evq.popleft())

    # -- invariants at quiescence --------------------------------------------------
    def situation(e: End) -> str:
        if not (e.link.epoch == e.epoch and e.link.up):
            return 'after_link_down'
        if e.chan and e.chan.racy:
            return 'closed_before_open_returned'
        if e.aborted:
            return 'after_abort'
        if e.chan and any(x is not None and x.close_started for x in e.chan.ends):
            return 'after_close'
        return 'other'

    def is_orphan(e: End) -> bool:
        partner = e.chan.other(e.side) if e.chan else None
        return partner is None or report(partner.obj) != 'open'

    def kind_of(e: End) -> str:
        if e.chan and e.chan.kind != 'le?':
            return e.chan.kind
        return 'le' if is_le(e.obj) else 'cl'

    def check_quiescent(clean_only=False):
        """Invariants at quiescence. With clean_only (called while operations are in flight): only the
        links on which nothing was started since the last quiescence - their tables must not move."""
        if clean_only:
            def fail_(sig, what):
                fail('independence/' + sig, what + ' [link with no operation since the last quiescence, '
                     'while operations are in flight on another link]')
        else:
            fail_ = fail
        # (a) links: a started cut must have brought both ends down
        for link in links:
            if not clean_only and link.cut_started and (link.alive[0] or link.alive[1]):
                fail('link/cut_incomplete', 'a link disconnection was started but an end never reported the disconnection')
        # (b) waiters
        for op in list(pending):
            if op.task.done() or clean_only:
                continue
            link = op.link
            link_up = link is not None and link.epoch == op.epoch and link.up
            if op.what in ('open', 'refuse'):
                fail(f'waiter/open_pending/{op.kind}/{"live" if link_up else "link_down"}',
                     f'{op.kind} open still pending at quiescence ({"link alive" if link_up else "its link is gone"})')
            if op.what == 'close':
                e = op.end
                other = e.chan.other(e.side)
                if e.aborted:
                    fail(f'waiter/close_pending/{kind_of(e)}/after_own_abort',
                         f'channel.disconnect() still pending at quiescence although abort() was called on the same channel '
                         f'afterwards (channel reports {report(e.obj)}, link {"alive" if link_up else "gone"})')
                if link_up and (other is None or other.aborted):
                    labels.add('close_of_orphan_pending')
                    continue
                both = other is not None and other.close_started
                sit = 'link_down' if not link_up else ('collision' if both else 'live')
                fail(f'waiter/close_pending/{kind_of(e)}/{sit}',
                     f'channel.disconnect() still pending at quiescence ({sit}; channel reports {report(e.obj)})')
            if op.what == 'drain':
                e = op.end
                if link_up and report(e.obj) == 'open':
                    labels.add('drain_pending_on_open_channel')
                    continue
                sit = 'link_down' if not link_up else 'channel_closed'
                fail(f'waiter/drain_pending/{sit}', f'drain() still pending at quiescence after {sit} (channel reports {report(e.obj)})')
            if op.what in ('cut', 'abort'):
                fail(f'waiter/{op.what}_pending', f'{op.what} did not finish')
        # (c) reported state against the history
        for c in chans:
            link = c.link
            if clean_only and link.dirty:
                continue
            link_up = link.epoch == c.epoch and link.up
            for e in c.ends:
                if e is None:
                    continue
                r = report(e.obj)
                if not link_up:
                    if r == 'open':
                        fail_(f'state/open_on_dead_link/{kind_of(e)}', 'a channel still reports open after its link went away')
                    continue
                touched = any(x is not None and (x.aborted or x.close_started) for x in c.ends)
                if e.abort_done and r != 'closed':
                    # abort() is the local teardown: whatever the channel was doing (open, or waiting for the answer
                    # to its own Disconnection Request), it is not a channel any more
                    fail_(f'state/not_closed_after_abort/{kind_of(e)}',
                          f'abort() was called on a channel, it still reports {e.obj.state.name}')
                if c.close_ok and r == 'open':
                    fail_(f'state/open_after_close/{kind_of(e)}', 'a disconnect() of the channel completed but an end still reports open')
                if c.expect_open and not touched and None not in c.ends and r != 'open':
                    fail_(f'state/not_open/{kind_of(e)}', f'a successfully opened, untouched channel on a live link reports {e.obj.state.name}')
        # (d) tables
        w = st_['w']
        for node in range(1 + nper):
            m = manager(node)
            live = {}
            for link in links:
                side = 0 if node == 0 else 1
                if (node == 0 or link.idx + 1 == node) and link.alive[side]:
                    live[link.conns[side].handle] = (link, side)
            for name in ('channels', 'le_coc_channels', 'pending_credit_based_connections'):
                for h, entries in getattr(m, name).items():
                    if h not in live and entries and not clean_only:
                        fail(f'tables/dead_link_entry/{name}', f'{name} still holds {len(entries)} entr(y/ies) for a connection that is gone')
            for h, (link, side) in live.items():
                if clean_only and link.dirty:
                    continue
                mine = [e for e in ends if e.link is link and e.epoch == link.epoch and e.side == side]
                by_obj = {id(e.obj): e for e in mine}
                for name in ('channels', 'le_coc_channels'):
                    table = getattr(m, name).get(h, {})
                    seen = set()
                    for cid, obj in table.items():
                        e = by_obj.get(id(obj))
                        if e is None:
                            fail_(f'tables/unknown_entry/{name}/{"le" if is_le(obj) else "cl"}',
                                 f'{name} holds a channel (state {obj.state.name}) that was never reported to the application as open')
                        seen.add(id(obj))
                        r = report(obj)
                        if r == 'closed' or e.abort_done:
                            fail_(f'tables/stale_entry/{name}/{kind_of(e)}/{situation(e)}',
                                 f'{name} still holds a channel that reports {obj.state.name}'
                                 + (' after abort() was called on it' if e.abort_done else ''))
                        want = obj.source_cid if name == 'channels' else obj.destination_cid
                        if cid != want:
                            fail_(f'tables/key_mismatch/{name}/{kind_of(e)}',
                                 f'{name} files a channel under CID {cid}, but its {"source" if name == "channels" else "destination"} CID is {want}')
                    for e in mine:
                        if name == 'le_coc_channels' and (not is_le(e.obj) or is_orphan(e)):
                            # an orphan's remote CID may legitimately be re-used by the peer for a new channel
                            continue
                        if report(e.obj) == 'open' and id(e.obj) not in seen:
                            fail_(f'tables/missing_entry/{name}/{kind_of(e)}', f'an open channel is missing from {name}')
                # CIDs in use unique per connection
                local = [e.obj.source_cid for e in mine if report(e.obj) == 'open']
                if len(local) != len(set(local)):
                    fail_('cid/duplicate_local', f'two open channels of one connection share a local CID: {sorted(local)}')
                remote = [e.obj.destination_cid for e in mine if report(e.obj) == 'open' and is_le(e.obj) and not is_orphan(e)]
                if len(remote) != len(set(remote)):
                    fail_('cid/duplicate_remote', f'two open credit-based channels of one connection share a remote CID: {sorted(remote)}')
            # (e) pending-request tables
            if not clean_only and not any(not op.task.done() and op.what in ('open', 'refuse') for op in pending):
                if m.le_coc_requests:
                    fail('pending/le_coc_requests', f'le_coc_requests holds {len(m.le_coc_requests)} request(s) while no open is pending')
                if any(v for v in m.pending_credit_based_connections.values()):
                    fail('pending/pending_credit_based_connections', 'pending_credit_based_connections not empty while no open is pending')
        del w

    # -- operations ------------------------------------------------------------------
    def usable(idx):
        if idx < 0:
            link = cur.get('last_link')
            return link if link is not None and link.up else None
        ups = [link for link in links if link.up]
        return ups[idx % len(ups)] if ups else None

    def pick_end(sel, side, want_le=False):
        cands = []
        for c in chans:
            e = c.ends[side]
            if e is None or not (c.link.epoch == c.epoch and c.link.up):
                continue
            if want_le and not is_le(e.obj):
                continue
            if report(e.obj) == 'open' and not e.close_started and not e.aborted:
                cands.append(e)
        if not cands:
            return None
        return cands[sel % len(cands)]

    def start(step, what, coro, link, side, **kw):
        task = loop.create_task(coro)
        cur['last_link'] = link
        link.dirty = True
        op = Op(step, what, task, link, side, run=cur.get('runs', 0), **kw)
        pending.append(op)
        task.add_done_callback(lambda _t, op=op: evq.append(('done', op)))
        return op

    def in_flight_elsewhere(link):
        return sum(1 for op in pending if not op.task.done() and op.link is not None and op.link is not link)

    def in_flight_on(link):
        return sum(1 for op in pending if not op.task.done() and op.link is link and op.what != 'cut')

    def do_op(step, op):
        what = op[0]
        if what == 'step':
            # pure scheduling: let the loop run op[1] single iterations (no virtual time passes), then go on at once
            for _ in range(op[1]):
                run_loop(0)
                reap()
            return 0
        if what == 'open_both':
            kind, lk, first, psm_i, n, gap, wait = op[1:]
            if do_op(step, ['open', kind, lk, first, psm_i, n, 0]) < 0:
                return -1
            link = cur['last_link']
            run_loop(gap / 1000.0)
            reap()
            if link.up:
                do_op(step, ['open', kind, links.index(link), 1 - first, psm_i, n, 0])
            return wait
        if what in ('open', 'refuse'):
            kind = op[1]
            if transport == 'classic':
                kind = 'cl'
            elif transport == 'le' and kind == 'cl':
                kind = 'le'
            link = usable(op[2])
            if link is None:
                labels.add('noop')
                return -1
            side = op[3]
            conn = link.conns[side]
            if what == 'open':
                psm_i, n, wait = op[4] % npsm, op[5], op[6]
                if kind != 'enh':
                    n = 1
            else:
                psm_i, n, wait = None, 1, op[4]
            if kind == 'cl':
                psm = CL_PSMS[psm_i] if what == 'open' else CL_UNSERVED
                coro = conn.create_l2cap_channel(l2cap.ClassicChannelSpec(psm=psm))
            else:
                psm = LE_PSMS[psm_i] if what == 'open' else LE_UNSERVED
                if kind == 'le':
                    coro = conn.create_l2cap_channel(le_spec(psm))
                else:
                    coro = conn.device.l2cap_channel_manager.create_enhanced_credit_based_channels(conn, le_spec(psm), n)
            others = in_flight_elsewhere(link)
            if others:
                labels.add('concurrent_two_links')
                flags['nontrivial'] = True
            if what == 'open':
                for h in link.history:
                    labels.add(f'reopen_after_{h}')
                    flags['nontrivial'] = True
                labels.add(f'kind:{kind}')
                if kind == 'cl' and transport == 'le+cl':
                    labels.add('classic_over_le')
                labels.add('open_by_central' if side == 0 else 'open_by_peripheral')
                if kind == 'enh':
                    labels.add(f'enh_n:{n}')
                if kind != 'cl' and any(o is not link and o.up and max(cids_in_use(o, 0), cids_in_use(o, 1)) >= LE_CIDS
                                        for o in links):
                    labels.add('open_while_other_link_full')
                if any(o.link is link and o.epoch == link.epoch and o.what == 'open' and o.side != side and not o.task.done()
                       for o in pending):
                    labels.add('crossed_opens_same_link')
            start(step, what, coro, link, side, kind=kind, n=n, history=set(link.history), others_in_flight=others,
                  orphan_seen=(kind != 'cl' and orphan_on(link, 1 - side)),
                  in_use=max(cids_in_use(link, 0), cids_in_use(link, 1)))
            return wait
        if what == 'close_both':
            sel, side, gap, wait = op[1], op[2], op[3], op[4]
            e = pick_end(sel, side)
            if e is None or e.chan.other(side) is None or report(e.chan.other(side).obj) != 'open':
                labels.add('noop')
                return -1
            other = e.chan.other(side)
            for k, x in enumerate((e, other)):
                if k == 1:
                    run_loop(gap / 1000.0)
                    reap()
                    if report(x.obj) != 'open' or x.close_started or x.aborted:
                        labels.add('close_both_too_late')
                        return wait
                    labels.add('close_collision')
                x.close_started = True
                start(step, 'close', x.obj.disconnect(), x.link, x.side, end=x)
            return wait
        if what in ('close_abort', 'abort_closing', 'orphan_close_abort'):
            sel, side, wait = op[1], op[2], op[-1]
            if what == 'abort_closing':
                cands = [o.end for o in pending
                         if o.what == 'close' and not o.task.done() and o.side == side and not o.end.aborted
                         and o.link.epoch == o.epoch and o.link.up]
                e = cands[sel % len(cands)] if cands else None
            else:
                e = pick_end(sel, side)
            if what == 'orphan_close_abort' and e is not None:
                other = e.chan.other(side)
                if other is None or report(other.obj) != 'open' or other.aborted or other.close_started:
                    e = None
            if e is None:
                labels.add('noop')
                return -1
            link = e.link
            if in_flight_elsewhere(link):
                labels.add('concurrent_two_links')
                flags['nontrivial'] = True

            def abort_end(x):
                x.aborted = True
                link.abort_seen = True
                for o in pending:
                    if o.link is link and o.what == 'open' and not o.task.done():
                        o.orphan_seen = True

                async def do_abort2(obj=x.obj):
                    obj.abort()

                labels.add('abort')
                start(step, 'abort', do_abort2(), link, x.side, end=x)

            if what == 'orphan_close_abort':
                # the peer's end is torn down locally first: this end's Disconnection Request will never be answered
                abort_end(e.chan.other(side))
                run_loop(0.008)
                reap()
                if not (link.up and report(e.obj) == 'open'):
                    return wait
            if what == 'abort_closing':
                close_op = next(o for o in pending if o.what == 'close' and o.end is e)
            else:
                e.close_started = True
                labels.add('close_by_central' if side == 0 else 'close_by_peripheral')
                close_op = start(step, 'close', e.obj.disconnect(), link, side, end=e)
                run_loop(op[3] / 1000.0)
                reap()
            if not close_op.task.done():
                labels.add('abort_while_closing')
                flags['nontrivial'] = True
                other = e.chan.other(e.side)
                if other is None or other.aborted or report(other.obj) != 'open':
                    labels.add('abort_while_closing_orphan')
            else:
                labels.add('close_abort_too_late')
            abort_end(e)
            return wait
        if what in ('close', 'abort', 'drain'):
            sel, side = op[1], op[2]
            wait = op[-1]
            e = pick_end(sel, side, want_le=(what == 'drain'))
            if e is None:
                labels.add('noop')
                return -1
            link = e.link
            if in_flight_elsewhere(link):
                labels.add('concurrent_two_links')
                flags['nontrivial'] = True
            if what == 'close':
                e.close_started = True
                other = e.chan.other(e.side)
                if other is not None and other.close_started and not other.aborted:
                    labels.add('close_collision')
                labels.add('close_by_central' if side == 0 else 'close_by_peripheral')
                start(step, 'close', e.obj.disconnect(), link, side, end=e)
            elif what == 'abort':
                e.aborted = True
                link.abort_seen = True
                for o in pending:
                    if o.link is link and o.what == 'open' and not o.task.done():
                        o.orphan_seen = True

                async def do_abort(obj=e.obj):
                    obj.abort()

                labels.add('abort')
                start(step, 'abort', do_abort(), link, side, end=e)
            else:
                size = op[3]

                async def do_drain(obj=e.obj, size=size):
                    obj.write(bytes(size))
                    await obj.drain()

                labels.add('drain_unsent' if size > 64 else 'drain_small')
                start(step, 'drain', do_drain(), link, side, end=e)
            return wait
        if what == 'cut':
            link = usable(op[1])
            if link is None:
                labels.add('noop')
                return -1
            side, wait = op[2], op[3]
            if in_flight_on(link):
                labels.add('cut_with_pending_op')
                flags['nontrivial'] = True
                for o in pending:
                    if o.link is link and o.what not in ('cut', 'abort') and not o.task.done():
                        labels.add(f'cut_during:{o.what}:{o.kind if o.what in ("open", "refuse") else kind_of(o.end)}')
            if any(report(e.obj) == 'open' for e in ends if e.link is link and e.epoch == link.epoch):
                labels.add('cut_with_open_channels')
            labels.add('cut_by_central' if side == 0 else 'cut_by_peripheral')
            link.cut_started = True
            start(step, 'cut', link.conns[side].disconnect(), link, side)
            return wait
        if what == 'reconnect':
            downs = [link for link in links if not (link.alive[0] or link.alive[1])
                     and not any(not o.task.done() for o in pending if o.link is link and o.what == 'cut')]
            if not downs:
                labels.add('noop')
                return -1
            link = downs[op[1] % len(downs)]
            try:
                loop.complete(connect(link), horizon=120.0)
            except (vloop.Stalled, vloop.HorizonExceeded, vloop.BudgetExceeded) as e:
                fail(f'link/reconnect_failed/{type(e).__name__}', 'could not re-establish a link after its disconnection')
            except _Stop:
                raise
            except Exception as e:  # noqa: BLE001
                fail(f'link/reconnect_failed/{type(e).__name__}', f'could not re-establish a link after its disconnection: {e!r}')
            labels.add('reconnect')
            link.dirty = True
            return -1
        raise ValueError(what)

    # -- main ---------------------------------------------------------------------
    try:
        try:
            loop.complete(setup(), horizon=600.0)
        except (vloop.Stalled, vloop.HorizonExceeded) as e:
            from vlib.runner import HarnessError

            raise HarnessError(f'C09 world set-up did not complete: {type(e).__name__}') from e
        labels.add(f'links:{nper}')
        labels.add(f'transport:{transport}')
        if any(any(d) for d in delays[: 1 + nper]):
            labels.add('delayed')
        try:
            reap()
            for step, op in enumerate(ops):
                cur['step'] = step
                wait = do_op(step, op)
                if wait < 0:
                    run_loop(QUIESCE)
                    if loop.budget_hit:
                        labels.add('iteration_budget_hit')
                        break
                    reap()
                    check_quiescent()
                    for link in links:
                        link.dirty = False
                else:
                    run_loop(wait / 1000.0)
                    if loop.budget_hit:
                        labels.add('iteration_budget_hit')
                        break
                    reap()
                    if any(link.dirty for link in links) and any(not link.dirty and link.up for link in links):
                        labels.add('independence_checked')
                        check_quiescent(clean_only=True)
            else:
                run_loop(QUIESCE)
                if not loop.budget_hit:
                    reap()
                    check_quiescent()
        except _Stop:
            labels.add('violation')
        ctx.case(('w', transport, nper, npsm, delays[: 1 + nper], ops), flags['nontrivial'], labels,
                 sample={'world': [transport, nper, npsm, delays[: 1 + nper], ops[:10]]})
    finally:
        loop.shutdown()


# ---------------------------------------------------------------------------
# raw-peer variant
# ---------------------------------------------------------------------------
POOL = [0x40, 0x41, 0x42, 0x55, 0x7F]
RES_LE_OK = l2cap.L2CAP_LE_Credit_Based_Connection_Response.Result.CONNECTION_SUCCESSFUL
RES_ENH_OK = l2cap.L2CAP_Credit_Based_Connection_Response.Result.ALL_CONNECTIONS_SUCCESSFUL


def raw_ops(max_ops):
    cidx = st.integers(0, len(POOL) - 1)
    psm = st.integers(0, 2)
    sel = st.integers(0, 5)
    op = st.one_of(
        st.tuples(st.just('ropen'), cidx, psm),
        st.tuples(st.just('ropen'), cidx, psm),
        st.tuples(st.just('ropen_enh'), st.lists(cidx, min_size=1, max_size=3, unique=True), psm),
        st.tuples(st.just('rrefuse'), cidx),
        st.tuples(st.just('rclose'), sel),
        st.tuples(st.just('rclose'), sel),
        st.tuples(st.just('dopen'), st.sampled_from(['le', 'le', 'enh']), st.integers(1, 5), cidx),
        # refused by the peer: result code / DCID list shape (none, zeros, partial), channels asked for
        st.tuples(st.just('dopen_refused'), st.just('le'), st.integers(0, 2), st.just(1)),
        st.tuples(st.just('dopen_refused'), st.just('enh'), st.just(0), st.integers(1, 5)),
        st.tuples(st.just('dopen_refused'), st.just('enh'), st.just(1), st.integers(1, 5)),
        st.tuples(st.just('dopen_refused'), st.just('enh'), st.just(2), st.integers(1, 5)),
        st.tuples(st.just('dopen'), st.sampled_from(['le', 'le', 'enh']), st.integers(1, 5), cidx),
        st.tuples(st.just('dopen_mute'), st.sampled_from(['le', 'enh'])),
        st.tuples(st.just('dclose'), sel),
        st.tuples(st.just('dabort'), sel),
        st.tuples(st.just('cut'), st.integers(0, 1)),
        st.just(('reconnect',)),
    )
    return st.fixed_dictionaries({'npsm': st.integers(1, 3), 'ops': st.lists(op, min_size=2, max_size=max_ops)})


def run_raw_case(ctx, case) -> None:
    npsm = int(case['npsm'])
    ops = [_plain(o) for o in case['ops']]
    loop = vloop.new_loop()
    loop.max_iterations = 400_000
    labels = set()
    flags = {'nontrivial': False}
    cur = {'step': -1}
    S: dict = {'alive': False, 'mode': 'answer', 'next_cidx': 0, 'ident': 0}
    model: list[dict] = []  # open channels: raw (peer CID), dut (DUT CID), obj (DUT object or None)
    server_objs: list = []
    pending: list = []  # (what, task)
    used_cids: set = set()  # raw CIDs that were used and closed on this connection (for the re-use label)
    inbox: list = []

    def fail(sig, what):
        ctx.fail(sig, what, {'kind': 'raw', 'npsm': npsm, 'ops': ops[: cur['step'] + 1]})
        raise _Stop()

    def ident():
        S['ident'] = S['ident'] % 255 + 1
        return S['ident']

    def raw_cids():
        return {c['raw'] for c in model}

    def free_pool_cid(start):
        for k in range(len(POOL)):
            cid = POOL[(start + k) % len(POOL)]
            if cid not in raw_cids():
                return cid
        for cid in range(0x43, 0x7F):
            if cid not in raw_cids():
                return cid
        return None

    def on_raw_pdu(handle, cid, payload):
        if cid != l2cap.L2CAP_LE_SIGNALING_CID:
            return
        try:
            frame = l2cap.L2CAP_Control_Frame.from_bytes(bytes(payload))
        except Exception:  # noqa: BLE001
            return
        peer = S['peer']
        if frame.identifier == 0:
            return  # 0x00 is not a signalling identifier: a conforming peer does not answer such a command
        if isinstance(frame, (l2cap.L2CAP_LE_Credit_Based_Connection_Request, l2cap.L2CAP_Credit_Based_Connection_Request,
                              l2cap.L2CAP_Disconnection_Request)):
            if frame.identifier < S.get('dut_ident', 0):
                labels.add('dut_identifier_wrapped')
            S['dut_ident'] = frame.identifier
        if isinstance(frame, l2cap.L2CAP_LE_Credit_Based_Connection_Request):
            if S['mode'] == 'mute':
                return
            if S['mode'] == 'refuse':
                R = l2cap.L2CAP_LE_Credit_Based_Connection_Response.Result
                result = [R.CONNECTION_REFUSED_LE_PSM_NOT_SUPPORTED, R.CONNECTION_REFUSED_NO_RESOURCES_AVAILABLE,
                          R.CONNECTION_REFUSED_INSUFFICIENT_AUTHENTICATION][S.get('shape', 0) % 3]
                peer.send(5, bytes(l2cap.L2CAP_LE_Credit_Based_Connection_Response(
                    identifier=frame.identifier, destination_cid=0, mtu=23, mps=23, initial_credits=0, result=result)))
                return
            cid_ = free_pool_cid(S['next_cidx'])
            model.append({'raw': cid_, 'dut': frame.source_cid, 'obj': None, 'by': 'dut'})
            peer.send(5, bytes(l2cap.L2CAP_LE_Credit_Based_Connection_Response(
                identifier=frame.identifier, destination_cid=cid_, mtu=64, mps=32, initial_credits=2, result=RES_LE_OK)))
        elif isinstance(frame, l2cap.L2CAP_Credit_Based_Connection_Request):
            if S['mode'] == 'mute':
                return
            if S['mode'] == 'refuse':
                R = l2cap.L2CAP_Credit_Based_Connection_Response.Result
                shape = S.get('shape', 0) % 3
                if shape == 0:  # no DCID listed at all (what Bumble's own responder sends)
                    dcids, result = [], R.ALL_CONNECTIONS_REFUSED_SPSM_NOT_SUPPORTED
                elif shape == 1:  # one zero DCID per requested channel
                    dcids, result = [0] * len(frame.source_cid), R.ALL_CONNECTIONS_REFUSED_INSUFFICIENT_AUTHENTICATION
                else:  # partial: the first channel gets a DCID, the others are refused
                    first = free_pool_cid(0)
                    dcids = [first] + [0] * (len(frame.source_cid) - 1)
                    result = R.SOME_CONNECTIONS_REFUSED_INSUFFICIENT_RESOURCES_AVAILABLE
                    S['partial'] = (first, frame.source_cid[0])
                peer.send(5, bytes(l2cap.L2CAP_Credit_Based_Connection_Response(
                    identifier=frame.identifier, destination_cid=dcids, mtu=64, mps=64, initial_credits=2 if shape == 2 else 0,
                    result=result)))
                return
            dcids = []
            for k, scid in enumerate(frame.source_cid):
                cid_ = free_pool_cid(S['next_cidx'] + k)
                model.append({'raw': cid_, 'dut': scid, 'obj': None, 'by': 'dut'})
                dcids.append(cid_)
            peer.send(5, bytes(l2cap.L2CAP_Credit_Based_Connection_Response(
                identifier=frame.identifier, destination_cid=dcids, mtu=64, mps=64, initial_credits=2, result=RES_ENH_OK)))
        elif isinstance(frame, l2cap.L2CAP_Disconnection_Request):
            # DUT closes: destination = our CID, source = its CID
            for c in list(model):
                if c['raw'] == frame.destination_cid and c['dut'] == frame.source_cid:
                    model.remove(c)
                    used_cids.add(c['raw'])
            peer.send(5, bytes(l2cap.L2CAP_Disconnection_Response(
                identifier=frame.identifier, destination_cid=frame.destination_cid, source_cid=frame.source_cid)))
        else:
            inbox.append(frame)

    async def connect():
        peer = S['peer']
        dev = S['w'][0].device
        conn = await peer.connect_to(dev)
        S['conn'] = conn
        S['alive'] = True
        S['ident'] = 0
        S['dut_ident'] = 0
        S['refused_before'] = False
        used_cids.clear()
        conn.on('disconnection', lambda reason: S.update(alive=False))

    async def setup():
        w = world.World(1)
        S['w'] = w
        await w.power_on()
        peer = world.RawPeer(w, 9)
        S['peer'] = peer
        await peer.start()
        peer.host.on('l2cap_pdu', on_raw_pdu)
        for k in range(npsm):
            w[0].device.create_l2cap_server(le_spec(LE_PSMS[k]), handler=server_objs.append)
        await connect()

    def quiesce():
        loop.run_for(QUIESCE)

    def take_response(cls, identifier):
        for f in list(inbox):
            if isinstance(f, cls) and f.identifier == identifier:
                inbox.remove(f)
                return f
        return None

    def dut_obj_for(dut_cid):
        conn = S['conn']
        for obj in server_objs:
            if obj.connection is conn and obj.source_cid == dut_cid and report(obj) != 'closed':
                return obj
        return None

    def check():
        m = S['w'][0].device.l2cap_channel_manager
        conn = S['conn']
        # waiters
        for what, task in list(pending):
            if task.done():
                pending.remove((what, task))
                continue
            if what == 'dopen_mute' and S['alive']:
                continue
            fail(f'waiter/{what}_pending/{"live" if S["alive"] else "link_down"}',
                 f'DUT {what} still pending at quiescence ({"link alive" if S["alive"] else "link is gone"})')
        h = conn.handle
        if not S['alive']:
            for name in ('channels', 'le_coc_channels', 'pending_credit_based_connections'):
                for hh, entries in getattr(m, name).items():
                    if entries:
                        fail(f'tables/dead_link_entry/{name}', f'{name} still holds {len(entries)} entr(y/ies) for a connection that is gone')
            for c in model:
                if c['obj'] is not None and report(c['obj']) == 'open':
                    fail('state/open_on_dead_link/le', 'a channel still reports open after its link went away')
        else:
            mute_pending = any(w_ == 'dopen_mute' and not t.done() for w_, t in pending)
            want_local = sorted(c['dut'] for c in model)
            want_remote = sorted(c['raw'] for c in model)
            if len(set(want_local)) != len(want_local):
                fail('cid/duplicate_local', f'DUT uses one local CID for two open channels: {want_local}')
            if len(set(want_remote)) != len(want_remote):
                fail('cid/duplicate_remote', f'DUT accepted two open channels with one remote CID: {want_remote}')
            have_local = sorted(cid for cid, o in m.channels.get(h, {}).items() if not (mute_pending and report(o) != 'open'))
            have_remote = sorted(m.le_coc_channels.get(h, {}))
            if have_local != want_local:
                extra = set(have_local) - set(want_local)
                sig = 'tables/stale_entry/channels' if extra else 'tables/missing_entry/channels'
                fail(f'{sig}/raw', f'channels has local CIDs {[hex(x) for x in have_local]}, open channels have {[hex(x) for x in want_local]}')
            if have_remote != want_remote:
                extra = set(have_remote) - set(want_remote)
                table = m.le_coc_channels.get(h, {})
                if any(cid != o.destination_cid for cid, o in table.items()):
                    fail('tables/key_mismatch/le_coc_channels/raw',
                         f'le_coc_channels keys {[hex(x) for x in have_remote]} but the open channels\' peer CIDs are {[hex(x) for x in want_remote]}')
                sig = 'tables/stale_entry/le_coc_channels' if extra else 'tables/missing_entry/le_coc_channels'
                fail(f'{sig}/raw', f'le_coc_channels has peer CIDs {[hex(x) for x in have_remote]}, open channels have {[hex(x) for x in want_remote]}')
            for name in ('channels', 'le_coc_channels', 'pending_credit_based_connections'):
                for hh, entries in getattr(m, name).items():
                    if hh != h and entries:
                        fail(f'tables/dead_link_entry/{name}', f'{name} still holds entries for a connection that is gone')
        if not any(not t.done() for _w, t in pending):
            if m.le_coc_requests:
                fail('pending/le_coc_requests', f'le_coc_requests holds {len(m.le_coc_requests)} request(s) while no open is pending')
            if any(v for v in m.pending_credit_based_connections.values()):
                fail('pending/pending_credit_based_connections', 'pending_credit_based_connections not empty while no open is pending')

    def do_op(op):
        what = op[0]
        peer = S['peer']
        if what == 'reconnect':
            if S['alive']:
                labels.add('noop')
                return
            model.clear()
            try:
                loop.complete(connect(), horizon=120.0)
            except (vloop.Stalled, vloop.HorizonExceeded, vloop.BudgetExceeded) as e:
                fail(f'link/reconnect_failed/{type(e).__name__}', 'could not re-establish the link')
            labels.add('reconnect')
            return
        if not S['alive']:
            labels.add('noop')
            return
        conn = S['conn']
        dev = S['w'][0].device
        if what in ('ropen', 'rrefuse'):
            # pool index; directed cases: -1 = the first CID the peer has free, >= 0x40 = that CID literally
            cid = free_pool_cid(0) if op[1] < 0 else (POOL[op[1]] if op[1] < len(POOL) else op[1])
            psm = LE_PSMS[op[2] % npsm] if what == 'ropen' else LE_UNSERVED
            dup = cid in raw_cids()
            i = ident()
            if what == 'ropen' and not dup and cid in used_cids:
                labels.add('raw_cid_reuse')
                flags['nontrivial'] = True
            peer.send(5, bytes(l2cap.L2CAP_LE_Credit_Based_Connection_Request(
                identifier=i, le_psm=psm, source_cid=cid, mtu=64, mps=32, initial_credits=2)))
            quiesce()
            rsp = take_response(l2cap.L2CAP_LE_Credit_Based_Connection_Response, i)
            if rsp is None:
                fail(f'raw/no_response/{what}', 'no LE Credit Based Connection Response to the peer\'s request')
            if what == 'rrefuse':
                if rsp.result == RES_LE_OK:
                    fail('refuse/succeeded/le', 'a request for a PSM nobody serves was accepted')
                labels.add('refused')
            elif dup:
                labels.add('raw_duplicate_cid')
                if rsp.result == RES_LE_OK:
                    model.append({'raw': cid, 'dut': rsp.destination_cid, 'obj': dut_obj_for(rsp.destination_cid), 'by': 'raw'})
            else:
                if rsp.result != RES_LE_OK and len(model) >= LE_CIDS:
                    labels.add('open_excused:cid_exhaustion')
                    labels.add('raw_refused_at_exhaustion')
                    return
                if rsp.result != RES_LE_OK:
                    fail(f'open_failed/raw_le/{l2cap.L2CAP_LE_Credit_Based_Connection_Response.Result(rsp.result).name}',
                         f'peer request with free source CID 0x{cid:02X} to a served PSM refused '
                         f'({"CID used before on this connection" if cid in used_cids else "fresh CID"})')
                if rsp.destination_cid in {c['dut'] for c in model}:
                    fail('cid/duplicate_local', f'DUT allocated local CID 0x{rsp.destination_cid:02X} which is already in use')
                model.append({'raw': cid, 'dut': rsp.destination_cid, 'obj': dut_obj_for(rsp.destination_cid), 'by': 'raw'})
                labels.add('raw_open_ok')
                if len(model) == LE_CIDS:
                    labels.add('open_into_last_free_cids')
                    labels.add('cid_space_full')
            return
        if what == 'ropen_enh':
            cids = [POOL[k] for k in op[1]]
            psm = LE_PSMS[op[2] % npsm]
            dup = any(c in raw_cids() for c in cids)
            i = ident()
            if not dup and any(c in used_cids for c in cids):
                labels.add('raw_cid_reuse')
                flags['nontrivial'] = True
            peer.send(5, bytes(l2cap.L2CAP_Credit_Based_Connection_Request(
                identifier=i, spsm=psm, mtu=64, mps=64, initial_credits=2, source_cid=cids)))
            quiesce()
            rsp = take_response(l2cap.L2CAP_Credit_Based_Connection_Response, i)
            if rsp is None:
                fail('raw/no_response/ropen_enh', 'no Credit Based Connection Response to the peer\'s request')
            if dup:
                labels.add('raw_duplicate_cid')
                if rsp.result == RES_ENH_OK:
                    for scid, dcid in zip(cids, rsp.destination_cid):
                        model.append({'raw': scid, 'dut': dcid, 'obj': dut_obj_for(dcid), 'by': 'raw'})
                return
            if rsp.result != RES_ENH_OK and len(model) + len(cids) > LE_CIDS:
                labels.add('open_excused:cid_exhaustion')
                return
            if rsp.result != RES_ENH_OK or len(rsp.destination_cid) != len(cids):
                fail(f'open_failed/raw_enh/{l2cap.L2CAP_Credit_Based_Connection_Response.Result(rsp.result).name}',
                     f'peer enhanced request with free source CIDs {[hex(c) for c in cids]} to a served PSM refused')
            for scid, dcid in zip(cids, rsp.destination_cid):
                if dcid in {c['dut'] for c in model}:
                    fail('cid/duplicate_local', f'DUT allocated local CID 0x{dcid:02X} which is already in use')
                model.append({'raw': scid, 'dut': dcid, 'obj': dut_obj_for(dcid), 'by': 'raw'})
            labels.add('raw_open_enh_ok')
            return
        if what == 'rclose':
            if not model:
                labels.add('noop')
                return
            c = model[op[1] % len(model)]
            i = ident()
            peer.send(5, bytes(l2cap.L2CAP_Disconnection_Request(identifier=i, destination_cid=c['dut'], source_cid=c['raw'])))
            quiesce()
            rsp = take_response(l2cap.L2CAP_Disconnection_Response, i)
            if rsp is None:
                fail('raw/no_response/rclose', 'no Disconnection Response to the peer\'s request for an open channel')
            model.remove(c)
            used_cids.add(c['raw'])
            labels.add('raw_close')
            return
        if what in ('dopen', 'dopen_refused', 'dopen_mute'):
            kind = op[1]
            n = op[2] if (what == 'dopen' and kind == 'enh') else 1
            if what == 'dopen_refused':
                # ('dopen_refused', kind[, shape, n]): shape of the refusal (result code, DCID list), channels asked for
                S['shape'] = op[2] if len(op) > 2 else 0
                S['partial'] = None
                if kind == 'enh' and len(op) > 3:
                    n = op[3]
            S['mode'] = {'dopen': 'answer', 'dopen_refused': 'refuse', 'dopen_mute': 'mute'}[what]
            S['next_cidx'] = op[3] if what == 'dopen' else 0
            if kind == 'le':
                coro = conn.create_l2cap_channel(le_spec(LE_PSMS[0]))
            else:
                coro = dev.l2cap_channel_manager.create_enhanced_credit_based_channels(conn, le_spec(LE_PSMS[0]), n)
            if used_cids:
                flags['nontrivial'] = True
                labels.add('dut_reopen_after_close')
            if S.get('refused_before') and what == 'dopen':
                flags['nontrivial'] = True
                labels.add('dut_reopen_after_refusal')
            before = len(model)
            task = loop.create_task(coro)
            quiesce()
            S['mode'] = 'answer'
            if what == 'dopen_mute':
                pending.append((what, task))
                labels.add('dut_open_unanswered')
                return
            if not task.done():
                fail(f'waiter/{what}_pending/live', 'DUT open still pending although the peer answered')
            exc = asyncio.CancelledError() if task.cancelled() else task.exception()
            if what == 'dopen_refused':
                partial = S.get('partial') if kind == 'enh' else None
                labels.add(f'refusal_shape:{kind}:{S["shape"] % 3}')
                if exc is None and partial is not None:
                    # partial acceptance: the statement leaves open whether the open as a whole fails; what the DUT
                    # reports open must be exactly the accepted channel, and it is then a channel like any other
                    objs = task.result()
                    opened = [o for o in objs if report(o) == 'open']
                    if [(o.destination_cid, o.source_cid) for o in opened] != [partial]:
                        fail('refuse/partial_wrong_channels', f'peer accepted 1 of {n} channels, DUT reports {len(opened)} open')
                    model.append({'raw': partial[0], 'dut': partial[1], 'obj': opened[0], 'by': 'dut'})
                    labels.add('partial_accepted_by_dut')
                    return
                if exc is None:
                    fail('refuse/succeeded/dut', 'DUT open succeeded although the peer refused it')
                labels.add('refused')
                S['refused_before'] = True  # a refusal is history too: the next DUT open is an open after a refusal
                return
            if (exc is not None and len(model) - before == 0 and 'too many concurrent connection requests' in str(exc)
                    and any(w_ == 'dopen_mute' and not t.done() for w_, t in pending)):
                # the signalling identifier this request would carry is still awaited by an unanswered request
                labels.add('open_excused:identifier_awaited')
                return
            if exc is not None and len(model) - before == 0 and before + n > LE_CIDS:
                # the DUT has not enough free identifiers left: a legitimate local refusal, nothing was sent
                labels.add('open_excused:cid_exhaustion')
                return
            if exc is not None:
                del model[before:]
                fail(f'open_failed/dut_{kind}/{exc_name(exc)}', f'DUT {kind} open accepted by the peer failed with {exc!r}')
            result = task.result()
            objs = result if isinstance(result, list) else [result]
            for obj in objs:
                for c in model[before:]:
                    if c['dut'] == obj.source_cid:
                        c['obj'] = obj
            labels.add(f'dut_open_ok:{kind}')
            if kind == 'enh':
                labels.add(f'enh_n:{n}')
            if len(model) == LE_CIDS:
                labels.add('open_into_last_free_cids')
                labels.add('cid_space_full')
            return
        if what in ('dclose', 'dabort'):
            cands = [c for c in model if c['obj'] is not None and report(c['obj']) == 'open']
            if not cands:
                labels.add('noop')
                return
            c = cands[op[1] % len(cands)]
            if what == 'dclose':
                task = loop.create_task(c['obj'].disconnect())
                pending.append(('dclose', task))
                quiesce()
                labels.add('dut_close')
            else:
                try:
                    c['obj'].abort()
                except Exception as e:  # noqa: BLE001
                    fail(f'abort_raises/le/{exc_name(e)}', f'channel.abort() raised {e!r}')
                if report(c['obj']) != 'closed':
                    fail('state/not_closed_after_abort/le', f'abort() was called on a channel, it still reports {c["obj"].state.name}')
                # the raw peer drops its end as well (its own policy), so the CID pair is free again
                model.remove(c)
                used_cids.add(c['raw'])
                quiesce()
                labels.add('dut_abort')
            return
        if what == 'cut':
            if any(w_ == 'dopen_mute' and not t.done() for w_, t in pending):
                labels.add('cut_with_pending_op')
                flags['nontrivial'] = True
            if model:
                labels.add('cut_with_open_channels')
            if op[1] == 0:
                task = loop.create_task(conn.disconnect())
                pending.append(('cut', task))
                labels.add('cut_by_dut')
            else:
                from bumble import hci

                loop.create_task(peer.host.send_command(hci.HCI_Disconnect_Command(connection_handle=peer.handle, reason=0x13)))
                labels.add('cut_by_peer')
            quiesce()
            if S['alive']:
                fail('link/cut_incomplete', 'the DUT never reported the disconnection')
            model_objs = [c['obj'] for c in model if c['obj'] is not None]
            model.clear()
            for obj in model_objs:
                if report(obj) == 'open':
                    fail('state/open_on_dead_link/le', 'a channel still reports open after its link went away')
            return
        raise ValueError(what)

    try:
        try:
            loop.complete(setup(), horizon=600.0)
        except (vloop.Stalled, vloop.HorizonExceeded) as e:
            from vlib.runner import HarnessError

            raise HarnessError(f'C09 raw set-up did not complete: {type(e).__name__}') from e
        labels.add('raw')
        try:
            for step, op in enumerate(ops):
                cur['step'] = step
                do_op(op)
                if loop.budget_hit:
                    labels.add('iteration_budget_hit')
                    break
                check()
        except _Stop:
            labels.add('violation')
        ctx.case(('r', npsm, ops), flags['nontrivial'], labels, sample={'raw': [npsm, ops[:10]]})
    finally:
        loop.shutdown()


# ---------------------------------------------------------------------------
# raw classic peer variant
# ---------------------------------------------------------------------------
CL_POOL = [0x40, 0x41, 0x55, 0x0100, 0xFFFF]
CRES = l2cap.L2CAP_Connection_Response.Result
CFGRES = l2cap.L2CAP_Configure_Response.Result
CL_REFUSALS = [CRES.CONNECTION_REFUSED_PSM_NOT_SUPPORTED, CRES.CONNECTION_REFUSED_SECURITY_BLOCK,
               CRES.CONNECTION_REFUSED_NO_RESOURCES_AVAILABLE]
DOPEN_ANSWERS = ['ok', 'pending_ok', 'refuse', 'pending_refuse', 'mute', 'config_mute', 'config_reject', 'close_in_config']
ROPEN_MODES = ['full', 'stall', 'close_in_config']
MTU_OPTION = l2cap.L2CAP_Control_Frame.encode_configuration_options(
    [(l2cap.L2CAP_Configure_Request.ParameterType.MTU, (672).to_bytes(2, 'little'))])


def rawcl_ops(max_ops):
    cidx = st.integers(0, len(CL_POOL) - 1)
    psm = st.integers(0, 2)
    sel = st.integers(0, 5)
    def ropen(mode):
        return st.tuples(st.just('ropen'), cidx, psm, st.just(mode))

    def dopen(answer):
        return st.tuples(st.just('dopen'), psm, st.just(answer), cidx, st.integers(0, 2))

    # weights by repetition; one alternative per peer behaviour (sampled_from inside a tuple is drawn very unevenly)
    op = st.one_of(
        ropen('full'), ropen('full'), ropen('full'), ropen('stall'), ropen('close_in_config'),
        st.tuples(st.just('rrefuse'), cidx),
        st.tuples(st.just('rclose'), sel), st.tuples(st.just('rclose'), sel), st.tuples(st.just('rclose'), sel),
        dopen('ok'), dopen('ok'), dopen('ok'),
        *[dopen(a) for a in DOPEN_ANSWERS[1:]],
        st.tuples(st.just('dclose'), sel, st.just('ok')), st.tuples(st.just('dclose'), sel, st.just('ok')),
        st.tuples(st.just('dclose'), sel, st.just('ok')), st.tuples(st.just('dclose'), sel, st.just('mute')),
        st.tuples(st.just('dabort'), sel), st.tuples(st.just('dabort'), sel),
        st.tuples(st.just('collide'), sel), st.tuples(st.just('collide'), sel),
        st.tuples(st.just('cut'), st.integers(0, 1)), st.tuples(st.just('cut'), st.integers(0, 1)),
        st.just(('reconnect',)),
    )
    return st.fixed_dictionaries({
        'carrier': st.sampled_from(['le', 'bredr']),
        'npsm': st.integers(1, 3),
        'ops': st.lists(op, min_size=2, max_size=max_ops),
    })


def run_rawcl_case(ctx, case) -> None:
    """One Device against a peer that does the BR/EDR-style signalling (CID 1: Connection / Configure /
    Disconnection) by hand, with its own CID choices, over an LE link or a BR/EDR link. The peer is a second
    node of the World whose own channel manager is cut off from the inbound PDUs (harness side only)."""
    carrier = case['carrier']
    npsm = int(case['npsm'])
    ops = [_plain(o) for o in case['ops']]
    loop = vloop.new_loop()
    loop.max_iterations = 400_000
    labels = set()
    flags = {'nontrivial': False}
    cur = {'step': -1, 'last': 'start'}
    S: dict = {'alive': False, 'ident': 0, 'answer': 'ok', 'dmode': 'ok', 'cidx': 0, 'code': 0, 'history': set()}
    model: list[dict] = []   # channels the peer holds or is setting up: raw, dut, by, st, cfg, want, obj, task
    ropens: dict = {}        # identifier -> entry of a peer request awaiting the Connection Response
    server_objs: list = []
    known_objs: list = []    # every DUT channel object the harness has been handed
    pending: list = []       # (what, task, entry)
    used_cids: set = set()
    inbox: list = []

    def fail(sig, what):
        ctx.fail(sig, what, {'kind': 'rawcl', 'carrier': carrier, 'npsm': npsm, 'ops': ops[: cur['step'] + 1]})
        raise _Stop()

    def ident():
        S['ident'] = S['ident'] % 255 + 1
        return S['ident']

    def raw_cids():
        return {c['raw'] for c in model if c['raw'] is not None}

    def free_pool_cid(start):
        for k in range(len(CL_POOL)):
            cid = CL_POOL[(start + k) % len(CL_POOL)]
            if cid not in raw_cids():
                return cid
        for cid in range(0x60, 0x1000):
            if cid not in raw_cids():
                return cid
        return None

    def send(frame):
        S['w'][1].host.send_l2cap_pdu(S['pconn'].handle, l2cap.L2CAP_SIGNALING_CID, bytes(frame))

    def forget(entry, why):
        if entry in model:
            model.remove(entry)
        entry['st'] = 'gone'
        if entry['raw'] is not None:
            used_cids.add(entry['raw'])
        S['history'].add(why)

    def on_peer_pdu(connection, cid, pdu):
        if cid != l2cap.L2CAP_SIGNALING_CID or connection is not S.get('pconn'):
            return
        try:
            frame = l2cap.L2CAP_Control_Frame.from_bytes(bytes(pdu))
        except Exception:  # noqa: BLE001
            return
        if frame.identifier == 0:
            return  # 0x00 is not a signalling identifier: a conforming peer does not answer such a command
        if isinstance(frame, l2cap.L2CAP_Connection_Request):  # the DUT opens
            answer = S['answer']
            if any(c['dut'] == frame.source_cid for c in model):
                inbox.append(('dup_local', frame.source_cid))
            entry = {'raw': None, 'dut': frame.source_cid, 'by': 'dut', 'st': 'connecting', 'cfg': 'mute', 'want': 'limbo',
                     'obj': None, 'task': None}
            S['dopen_entry'] = entry
            if answer == 'mute':
                model.append(entry)
                return
            if answer in ('pending_ok', 'pending_refuse'):
                send(l2cap.L2CAP_Connection_Response(identifier=frame.identifier, destination_cid=0,
                                                     source_cid=frame.source_cid, result=CRES.CONNECTION_PENDING, status=1))
            if answer in ('refuse', 'pending_refuse'):
                entry['st'] = 'gone'
                send(l2cap.L2CAP_Connection_Response(identifier=frame.identifier, destination_cid=0, source_cid=frame.source_cid,
                                                     result=CL_REFUSALS[S['code'] % len(CL_REFUSALS)], status=0))
                return
            entry['raw'] = free_pool_cid(S['cidx'])
            entry['st'] = 'config'
            entry['cfg'] = {'config_mute': 'mute', 'config_reject': 'reject'}.get(answer, 'ok')
            entry['want'] = 'open' if answer in ('ok', 'pending_ok') else 'limbo'
            model.append(entry)
            send(l2cap.L2CAP_Connection_Response(identifier=frame.identifier, destination_cid=entry['raw'],
                                                 source_cid=frame.source_cid, result=CRES.CONNECTION_SUCCESSFUL, status=0))
            if answer == 'close_in_config':
                i = ident()
                S['close_ident'] = i
                send(l2cap.L2CAP_Disconnection_Request(identifier=i, destination_cid=entry['dut'], source_cid=entry['raw']))
                forget(entry, 'close')
            elif answer != 'config_mute':
                send(l2cap.L2CAP_Configure_Request(identifier=ident(), destination_cid=entry['dut'], flags=0, options=MTU_OPTION))
        elif isinstance(frame, l2cap.L2CAP_Connection_Response):  # answer to a request of the peer
            entry = ropens.get(frame.identifier)
            inbox.append(frame)
            if entry is None or frame.result == CRES.CONNECTION_PENDING:
                return
            del ropens[frame.identifier]
            if frame.result != CRES.CONNECTION_SUCCESSFUL:
                forget(entry, 'refusal')
                return
            entry['dut'] = frame.destination_cid
            entry['st'] = 'config'
            if entry['mode'] == 'full':
                send(l2cap.L2CAP_Configure_Request(identifier=ident(), destination_cid=entry['dut'], flags=0, options=MTU_OPTION))
            elif entry['mode'] == 'close_in_config':
                i = ident()
                S['close_ident'] = i
                send(l2cap.L2CAP_Disconnection_Request(identifier=i, destination_cid=entry['dut'], source_cid=entry['raw']))
                forget(entry, 'close')
        elif isinstance(frame, l2cap.L2CAP_Configure_Request):
            entry = next((c for c in model if c['raw'] == frame.destination_cid), None)
            if entry is None or entry['cfg'] == 'mute':
                return
            if entry['cfg'] == 'ok':
                send(l2cap.L2CAP_Configure_Response(identifier=frame.identifier, source_cid=entry['dut'], flags=0,
                                                    result=CFGRES.SUCCESS, options=frame.options))
            else:
                send(l2cap.L2CAP_Configure_Response(identifier=frame.identifier, source_cid=entry['dut'], flags=0,
                                                    result=CFGRES.FAILURE_REJECTED, options=b''))
        elif isinstance(frame, l2cap.L2CAP_Disconnection_Request):  # the DUT closes: destination = our CID, source = its CID
            entry = next((c for c in model if c['raw'] == frame.destination_cid and c['dut'] == frame.source_cid), None)
            if entry is None:
                return
            if S['dmode'] == 'mute':
                entry['st'] = 'closing'
                return
            forget(entry, 'close')
            send(l2cap.L2CAP_Disconnection_Response(identifier=frame.identifier, destination_cid=frame.destination_cid,
                                                    source_cid=frame.source_cid))
        elif isinstance(frame, l2cap.L2CAP_Configure_Response):
            pass
        else:
            inbox.append(frame)

    def on_server_channel(ch):
        server_objs.append(ch)
        known_objs.append(ch)

    async def connect():
        w = S['w']
        if carrier == 'bredr':
            conn, pconn = await w.connect_classic(0, 1)
        else:
            conn, pconn = await w.connect_le(0, 1)
        S['conn'], S['pconn'] = conn, pconn
        S['alive'] = True
        S['ident'] = 0
        S['history'] = set()
        used_cids.clear()
        ropens.clear()
        conn.on('disconnection', lambda reason: S.update(alive=False))

    async def setup():
        w = world.World(2, classic=(carrier == 'bredr'))
        S['w'] = w
        await w.power_on()
        w[1].device.l2cap_channel_manager.on_pdu = on_peer_pdu  # the peer's own L2CAP never sees a PDU
        for k in range(npsm):
            w[0].device.create_l2cap_server(l2cap.ClassicChannelSpec(psm=CL_PSMS[k]), handler=on_server_channel)
        await connect()

    def quiesce():
        loop.run_for(QUIESCE)

    def take_response(cls, identifier):
        for f in list(inbox):
            if isinstance(f, cls) and f.identifier == identifier:
                inbox.remove(f)
                return f
        return None

    def server_obj_for(dut_cid):
        for obj in reversed(server_objs):
            if obj.connection is S['conn'] and obj.source_cid == dut_cid:
                return obj
        return None

    def check():
        m = S['w'][0].device.l2cap_channel_manager
        conn = S['conn']
        h = conn.handle
        last = cur['last']
        for f in list(inbox):
            if isinstance(f, tuple) and f[0] == 'dup_local':
                fail('cid/duplicate_local', f'DUT opened a channel with local CID 0x{f[1]:04X} which another channel of the connection still uses')
        # waiters: excused only while the channel they wait on exists and its link lives
        for item in list(pending):
            what, task, entry = item
            if task.done():
                pending.remove(item)
                continue
            if S['alive'] and entry is not None and entry in model and (
                    (what == 'dopen' and entry['st'] in ('connecting', 'config') and entry['want'] == 'limbo')
                    or (what == 'dclose' and entry['st'] == 'closing')):
                continue
            sit = 'link_down' if not S['alive'] else ('channel_gone' if (entry is None or entry not in model) else 'live')
            fail(f'waiter/{what}_pending/cl/{sit}', f'DUT classic {what} still pending at quiescence ({sit}, after {last})')
        if not S['alive']:
            for name in ('channels', 'le_coc_channels', 'pending_credit_based_connections'):
                for hh, entries in getattr(m, name).items():
                    if entries:
                        fail(f'tables/dead_link_entry/{name}', f'{name} still holds {len(entries)} entr(y/ies) for a connection that is gone')
            for obj in known_objs:
                if report(obj) == 'open':
                    fail('state/open_on_dead_link/cl', 'a channel still reports open after its link went away')
            return
        table = m.channels.get(h, {})
        allowed = {c['dut'] for c in model if c['dut'] is not None}
        required = {c['dut'] for c in model if c['st'] == 'open'}
        local = [c['dut'] for c in model if c['dut'] is not None]
        if len(local) != len(set(local)):
            fail('cid/duplicate_local', f'DUT uses one local CID for two channels: {[hex(x) for x in sorted(local)]}')
        for cid, obj in table.items():
            if cid != obj.source_cid:
                fail('tables/key_mismatch/channels/rawcl', f'channels files a channel under CID {cid}, but its source CID is {obj.source_cid}')
            if report(obj) == 'closed':
                fail(f'tables/stale_entry/channels/rawcl/after_{last}', f'channels still holds a channel that reports {obj.state.name}')
            if cid not in allowed:
                fail(f'tables/stale_entry/channels/rawcl/after_{last}',
                     f'channels holds local CID 0x{cid:04X} (state {obj.state.name}); the channels that exist have '
                     f'{[hex(x) for x in sorted(allowed)]}')
        for cid in required:
            if cid not in table:
                fail('tables/missing_entry/channels/rawcl', f'open channel with local CID 0x{cid:04X} is missing from channels')
        for c in model:
            if c['st'] == 'open' and (c['obj'] is None or report(c['obj']) != 'open'):
                state = c['obj'].state.name if c['obj'] is not None else 'no channel object'
                fail('state/not_open/rawcl', f'an opened, untouched channel reports {state}')
        live_objs = {id(c['obj']) for c in model if c['obj'] is not None}
        for obj in known_objs:
            if id(obj) not in live_objs and report(obj) == 'open':
                fail(f'state/open_after_close/rawcl/after_{last}', 'a channel that was closed, refused or aborted still reports open')
        if m.le_coc_channels.get(h):
            fail('tables/unknown_entry/le_coc_channels/rawcl', 'le_coc_channels holds an entry although only classic channels exist')
        for name in ('channels', 'le_coc_channels', 'pending_credit_based_connections'):
            for hh, entries in getattr(m, name).items():
                if hh != h and entries:
                    fail(f'tables/dead_link_entry/{name}', f'{name} still holds entries for a connection that is gone')

    def settle_opened(entry, who):
        """After the handshake of an open that both sides completed: the DUT's channel must be open."""
        if entry['obj'] is None:
            entry['obj'] = server_obj_for(entry['dut'])
            if entry['obj'] is None:
                fail('model/server_channel_not_delivered', 'the peer\'s accepted request produced no channel at the DUT\'s server')
        entry['st'] = 'open'
        labels.add(f'rawcl_{who}_open_ok')
        if entry['raw'] != entry['dut']:
            labels.add('rawcl_asym_cids')

    def do_op(op):
        what = op[0]
        cur['last'] = what
        if what == 'reconnect':
            if S['alive']:
                labels.add('noop')
                return
            model.clear()
            try:
                loop.complete(connect(), horizon=120.0)
            except (vloop.Stalled, vloop.HorizonExceeded, vloop.BudgetExceeded) as e:
                fail(f'link/reconnect_failed/{type(e).__name__}', 'could not re-establish the link')
            labels.add('reconnect')
            return
        if not S['alive']:
            labels.add('noop')
            return
        conn = S['conn']
        if what in ('ropen', 'rrefuse'):
            cid = free_pool_cid(op[1])  # never a CID the peer still uses (a duplicate is the peer's own fault)
            psm = CL_PSMS[op[2] % npsm] if what == 'ropen' else CL_UNSERVED
            mode = op[3] if what == 'ropen' else 'full'
            cur['last'] = f'{what}_{mode}' if what == 'ropen' else what
            i = ident()
            if what == 'ropen' and cid in used_cids:
                labels.add('rawcl_cid_reuse')
                flags['nontrivial'] = True
            if what == 'ropen' and S['history']:
                flags['nontrivial'] = True
                for hname in S['history']:
                    labels.add(f'rawcl_reopen_after_{hname}')
            entry = {'raw': cid, 'dut': None, 'by': 'raw', 'st': 'connecting', 'cfg': 'ok' if mode == 'full' else 'mute',
                     'want': 'open' if mode == 'full' else 'limbo', 'mode': mode, 'obj': None, 'task': None}
            model.append(entry)
            ropens[i] = entry
            seen = len(server_objs)
            send(l2cap.L2CAP_Connection_Request(identifier=i, psm=psm, source_cid=cid))
            quiesce()
            rsp = take_response(l2cap.L2CAP_Connection_Response, i)
            while rsp is not None and rsp.result == CRES.CONNECTION_PENDING:
                rsp = take_response(l2cap.L2CAP_Connection_Response, i)
            if rsp is None:
                forget(entry, 'refusal')
                fail(f'raw/no_response/cl_{what}', 'no Connection Response to the peer\'s Connection Request')
            if what == 'rrefuse':
                if rsp.result == CRES.CONNECTION_SUCCESSFUL:
                    fail('refuse/succeeded/cl', 'a Connection Request for a PSM nobody serves was accepted')
                if len(server_objs) != seen:
                    fail('refuse/server_called/cl', 'a refused Connection Request reached a server')
                labels.add('refused')
                return
            if rsp.result != CRES.CONNECTION_SUCCESSFUL:
                fail(f'open_failed/rawcl_peer/{CRES(rsp.result).name}',
                     f'peer Connection Request with free source CID 0x{cid:04X} to a served PSM refused '
                     f'(earlier on this connection: {"+".join(sorted(S["history"])) or "fresh"})')
            if mode == 'full':
                settle_opened(entry, 'peer')
            elif mode == 'stall':
                entry['obj'] = server_obj_for(entry['dut'])
                labels.add('rawcl_peer_open_stalled')
            else:
                if take_response(l2cap.L2CAP_Disconnection_Response, S['close_ident']) is None:
                    fail('raw/no_response/cl_close_in_config', 'no Disconnection Response for a channel closed during configuration')
                labels.add('rawcl_closed_in_config')
            return
        if what == 'rclose':
            cands = [c for c in model if c['raw'] is not None and c['dut'] is not None]
            if not cands:
                labels.add('noop')
                return
            c = cands[op[1] % len(cands)]
            cur['last'] = f'rclose_{c["st"]}'
            i = ident()
            send(l2cap.L2CAP_Disconnection_Request(identifier=i, destination_cid=c['dut'], source_cid=c['raw']))
            labels.add(f'rawcl_peer_close:{c["st"]}')
            forget(c, 'close')
            quiesce()
            if take_response(l2cap.L2CAP_Disconnection_Response, i) is None:
                fail('raw/no_response/cl_rclose', f'no Disconnection Response to the peer\'s request for a channel in state {c["st"]}')
            return
        if what == 'dopen':
            answer = op[2]
            cur['last'] = f'dopen_{answer}'
            S['answer'], S['cidx'], S['code'] = answer, op[3], op[4]
            S['dopen_entry'] = None
            if S['history']:
                flags['nontrivial'] = True
                for hname in S['history']:
                    labels.add(f'rawcl_reopen_after_{hname}')
            task = loop.create_task(conn.create_l2cap_channel(l2cap.ClassicChannelSpec(psm=CL_PSMS[op[1] % npsm])))
            quiesce()
            S['answer'] = 'ok'
            entry = S['dopen_entry']
            if entry is None:
                if not task.done():
                    fail('waiter/dopen_pending/cl/no_request', 'DUT classic open sent no Connection Request and is still pending')
                fail(f'open_failed/rawcl_dut/{exc_name(task.exception())}', 'DUT classic open failed before any request was sent')
            entry['task'] = task
            labels.add(f'rawcl_answer:{answer}')
            if answer in ('ok', 'pending_ok'):
                if not task.done():
                    fail('waiter/dopen_pending/cl/answered', 'DUT classic open still pending although the peer accepted and configured it')
                exc = asyncio.CancelledError() if task.cancelled() else task.exception()
                if exc is not None:
                    forget(entry, 'refusal')
                    fail(f'open_failed/rawcl_dut/{exc_name(exc)}',
                         f'DUT classic open accepted and configured by the peer failed with {exc!r} '
                         f'(earlier on this connection: {"+".join(sorted(S["history"])) or "fresh"})')
                entry['obj'] = task.result()
                known_objs.append(entry['obj'])
                if entry['obj'].source_cid != entry['dut'] or entry['obj'].destination_cid != entry['raw']:
                    fail('model/wrong_cids', 'the channel returned by the open does not carry the CID pair that was negotiated')
                settle_opened(entry, 'dut')
                return
            if answer in ('refuse', 'pending_refuse', 'close_in_config'):
                if not task.done():
                    fail(f'waiter/dopen_pending/cl/{answer}', f'DUT classic open still pending after the peer\'s {answer}')
                if not task.cancelled() and task.exception() is None:
                    fail(f'refuse/succeeded/cl_dut/{answer}', f'DUT classic open succeeded although the peer answered {answer}')
                if answer == 'close_in_config':
                    if take_response(l2cap.L2CAP_Disconnection_Response, S['close_ident']) is None:
                        fail('raw/no_response/cl_close_in_config', 'no Disconnection Response for a channel closed during configuration')
                    labels.add('rawcl_closed_in_config')
                else:
                    S['history'].add('refusal')
                    labels.add('refused')
                return
            # mute / config_mute / config_reject: pending is legitimate while channel and link exist
            pending.append(('dopen', task, entry))
            labels.add('rawcl_open_unanswered')
            return
        if what in ('dclose', 'collide'):
            cands = [c for c in model if c['st'] == 'open' and c['obj'] is not None and report(c['obj']) == 'open']
            if not cands:
                labels.add('noop')
                return
            c = cands[op[1] % len(cands)]
            S['dmode'] = op[2] if what == 'dclose' else 'ok'
            cur['last'] = f'dclose_{S["dmode"]}' if what == 'dclose' else what
            task = loop.create_task(c['obj'].disconnect())
            pending.append(('dclose', task, c))
            if what == 'collide':
                i = ident()
                send(l2cap.L2CAP_Disconnection_Request(identifier=i, destination_cid=c['dut'], source_cid=c['raw']))
                forget(c, 'close')
                labels.add('rawcl_collision')
            quiesce()
            S['dmode'] = 'ok'
            if what == 'collide':
                if take_response(l2cap.L2CAP_Disconnection_Response, i) is None:
                    fail('raw/no_response/cl_collide', 'no Disconnection Response to the peer\'s request that crossed the DUT\'s own')
            elif c['st'] == 'closing':
                labels.add('rawcl_close_unanswered')
            else:
                labels.add('rawcl_dut_close')
            return
        if what == 'dabort':
            cands = [c for c in model if c['obj'] is not None and c['st'] in ('open', 'closing', 'config')]
            if not cands:
                labels.add('noop')
                return
            c = cands[op[1] % len(cands)]
            cur['last'] = f'dabort_{c["st"]}'
            labels.add(f'rawcl_abort:{c["st"]}')
            try:
                c['obj'].abort()
            except Exception as e:  # noqa: BLE001
                fail(f'abort_raises/cl/{exc_name(e)}', f'channel.abort() raised {e!r}')
            forget(c, 'abort')  # the peer drops its end as well (its own policy)
            quiesce()
            if report(c['obj']) != 'closed':
                fail('state/not_closed_after_abort/cl', f'abort() was called on a channel, it still reports {c["obj"].state.name}')
            return
        if what == 'cut':
            if any(not t.done() for _w, t, _e in pending):
                labels.add('rawcl_cut_with_pending')
                labels.add('cut_with_pending_op')
                flags['nontrivial'] = True
            if model:
                labels.add('cut_with_open_channels')
            if op[1] == 0:
                task = loop.create_task(conn.disconnect())
                labels.add('cut_by_dut')
            else:
                task = loop.create_task(S['pconn'].disconnect())
                labels.add('cut_by_peer')
            quiesce()
            if S['alive']:
                fail('link/cut_incomplete', 'the DUT never reported the disconnection')
            if not task.done():
                fail('waiter/cut_pending', 'the link disconnection did not finish')
            for c in list(model):
                forget(c, 'cut')
            return
        raise ValueError(what)

    try:
        try:
            loop.complete(setup(), horizon=600.0)
        except (vloop.Stalled, vloop.HorizonExceeded) as e:
            from vlib.runner import HarnessError

            raise HarnessError(f'C09 raw classic set-up did not complete: {type(e).__name__}') from e
        labels.add('rawcl')
        labels.add(f'rawcl_carrier:{carrier}')
        try:
            for step, op in enumerate(ops):
                cur['step'] = step
                do_op(op)
                if loop.budget_hit:
                    labels.add('iteration_budget_hit')
                    break
                check()
        except _Stop:
            labels.add('violation')
        ctx.case(('rc', carrier, npsm, ops), flags['nontrivial'], labels, sample={'rawcl': [carrier, npsm, ops[:10]]})
    finally:
        loop.shutdown()


# ---------------------------------------------------------------------------
def fill_world_cases():
    """Directed: fill the 64 dynamic LE CIDs of one connection (second link idle), probe the boundary, free and re-use."""
    cases = []
    delay_sets = [[[], [], [], []], [[1], [2], [0, 3], []], [[0, 5], [1], [2, 2], []]]
    for transport in ('le', 'le+cl'):
        for pattern in (0, 1, 2):  # who opens: the central / alternating / the peripheral
            for ci in (0, 31, 63):  # which channel is closed first at exhaustion: lowest CID / middle / highest
                for cs in (0, 1):  # who closes it
                    def sd(j, pattern=pattern):
                        return (0, j % 2, 1)[pattern]
                    s = sd(ci + cs)
                    ops = []
                    if transport == 'le+cl':
                        # two classic channels take the two lowest identifiers of the shared table
                        ops += [['open', 'cl', 0, sd(0), 0, 1, -1], ['open', 'cl', 0, sd(1), 1, 1, -1]]
                    ops += [['open', 'enh', 0, sd(j), j % 3, 5, -1] for j in range(12)]
                    ops += [['open', 'le', 0, sd(j), j % 3, 1, -1] for j in range(2 if transport == 'le+cl' else 4)]
                    ops += [
                        ['open', 'le', 1, s, 0, 1, -1],        # the other link is not concerned: must succeed
                        ['open', 'le', 0, s, 0, 1, -1],        # full: refusal, nothing may be left behind
                        ['open', 'enh', 0, 1 - s, 1, 2, -1],   # full
                        ['refuse', 'le', 0, s, -1],
                        ['close', ci, cs, -1],
                        ['open', 'le', 0, 1 - s, 2, 1, -1],    # exactly one identifier free: must succeed
                        ['open', 'le', 0, s, 0, 1, -1],        # full again
                        ['close', (ci + 5) % 50, 1 - cs, -1],
                        ['close', (ci + 9) % 50, cs, -1],
                        ['open', 'enh', 0, s, 0, 3, -1],       # two free, three asked: refusal, the two stay free
                        ['open', 'enh', 0, s, 1, 2, -1],       # must succeed
                        ['cut', 0, cs, -1],
                        ['reconnect', 0],
                        ['open', 'enh', 0, s, 0, 5, -1],
                        ['open', 'le', 1, 1 - s, 0, 1, -1],
                    ]
                    cases.append({'kind': 'world', 'transport': transport, 'nper': 2, 'npsm': 3,
                                  'delays': delay_sets[len(cases) % 3], 'ops': ops})
    return cases


def cutpoint_world_cases(quick):
    """Directed: one operation of every kind is started, the link is cut t ms later by either end (t sweeps the whole
    duration of the operation under two HCI delay profiles), the link comes back and channels are opened again."""
    cases = []
    times = (0, 1, 3, 6, 10, 15) if quick else tuple(range(0, 35))
    for transport, kind in (('le', 'le'), ('le', 'enh'), ('classic', 'cl'), ('le+cl', 'cl'), ('le+cl', 'le')):
        for target in ('open', 'close', 'close_both', 'close_abort', 'drain', 'late_open', 'late_open_both'):
            if target == 'drain' and kind == 'cl':
                continue
            if quick and target.startswith('late_open'):
                continue  # thorough tier only; the quick tier has the single-iteration races instead
            for ti, t in enumerate(times):
                for cs in ((ti % 2,) if quick else (0, 1)):
                    s = (t + cs) % 2
                    if target.startswith('late_open'):
                        # the other way round: the cut is started first, the open is issued t ms into it - as long as
                        # the application has not been told of the disconnection it may issue operations
                        late = (['open', kind, 0, s, 2, 2, -1] if target == 'late_open'
                                else ['open_both', kind, 0, s, 2, 1, 0, -1])
                        mid = [['cut', 0, cs, t], late]
                    else:
                        op = {'open': ['open', kind, 0, s, 2, 3, t], 'close': ['close', 0, s, t],
                              'close_both': ['close_both', 0, s, 1, t], 'close_abort': ['close_abort', 0, s, 2, t],
                              'drain': ['drain', 0, s, 300, t]}[target]
                        mid = [op, ['cut', -1, cs, -1]]
                    ops = [['open', kind, 0, s, 0, 2, -1], ['open', kind, 0, 1 - s, 1, 1, -1]] + mid + [
                           ['reconnect', 0], ['open', kind, 0, 1 - s, 0, 2, -1],
                           ['close', 0, s, -1], ['open', kind, 0, s, 1, 1, -1]]
                    delays = [[1, 2], [2], [3, 1], []] if (t + len(cases)) % 2 else [[0, 3], [5], [1], []]
                    cases.append({'kind': 'world', 'transport': transport, 'nper': 2, 'npsm': 3, 'delays': delays, 'ops': ops})
    return cases


def race_world_cases(quick):
    """Directed: a link disconnection is started, the loop is advanced by k single iterations, then an open is issued by
    either end - for one k the disconnection event and the first step of the open are queued together."""
    cases = []
    pairs = (('le', 'le'), ('le', 'enh'), ('classic', 'cl'), ('le+cl', 'cl'), ('le+cl', 'le'))
    for transport, kind in pairs:
        for cs in (0, 1):
            for s in (0, 1):
                for k in range(6 if quick else 10):
                    ops = [['open', kind, 0, s, 0, 1, -1], ['cut', 0, cs, 0], ['step', k], ['open', kind, 0, s, 1, 2, -1],
                           ['reconnect', 0], ['open', kind, 0, s, 0, 1, -1]]
                    cases.append({'kind': 'world', 'transport': transport, 'nper': 1, 'npsm': 2,
                                  'delays': [[], [], [], []], 'ops': ops})
    if not quick:
        for transport, kind in pairs[:3]:
            for cs in (0, 1):
                for s in (0, 1):
                    for t in range(0, 16):
                        for k in (1, 2):
                            ops = [['open', kind, 0, s, 0, 1, -1], ['cut', 0, cs, t], ['step', k],
                                   ['open', kind, 0, s, 1, 2, -1], ['reconnect', 0], ['open', kind, 0, s, 0, 1, -1]]
                            cases.append({'kind': 'world', 'transport': transport, 'nper': 1, 'npsm': 2,
                                          'delays': [[0, 3], [5], [1], []], 'ops': ops})
    return cases


def fill_raw_cases():
    """Directed: the DUT fills its 64 identifiers against the raw peer (asymmetric CIDs), boundary probes, re-use."""
    cases = []
    for k in (0, 31, 63):
        for side in (0, 1):
            ops = [['dopen', 'enh', 5, j % 5] for j in range(12)] + [['dopen', 'le', 1, j] for j in range(4)]
            ops += [
                ['dopen', 'le', 1, 0],          # full: local refusal
                ['dopen', 'enh', 2, 0],         # full
                ['ropen', 0x80, 0],             # full: the peer asks with a CID of its own that is free
                ['rclose', k],
                ['ropen', -1, 1],               # one identifier free, the peer re-uses the CID it just closed
                ['dopen', 'le', 1, 1],          # full again
                ['dclose', k],
                ['dopen', 'le', 1, 2],          # must succeed
                ['rclose', (k + 7) % 60],
                ['dabort' if side else 'dclose', (k + 11) % 60],
                ['dopen', 'enh', 3, 0],         # two free, three asked
                ['dopen', 'enh', 2, 3],         # must succeed
                ['cut', side],
                ['reconnect'],
                ['dopen', 'enh', 5, 0],
                ['ropen', 0, 0],
            ]
            cases.append({'kind': 'raw', 'npsm': 1 + (k + side) % 3, 'ops': ops})
    return cases


def wrap_raw_cases():
    """Directed: the per-connection signalling identifier (1..255, cyclic) wraps while the very first request of the
    connection is still unanswered; the request that would re-use its identifier; then the link goes away."""
    cases = []
    for first in ('le', 'enh'):
        for second in ('le', 'enh'):
            ops = [['dopen_mute', first]]
            for i in range(127):  # 254 further identifiers: 2..255
                ops += [['dopen', 'le', 1, i % 5], ['dclose', 0]]
            ops += [['dopen', second, 2, 0],  # would carry identifier 1 again
                    ['dopen', second, 2, 1], ['cut', len(cases) % 2], ['reconnect'], ['dopen', 'le', 1, 0]]
            cases.append({'kind': 'raw', 'npsm': 1, 'ops': ops})
    return cases


def rawcl_waiter_cases():
    """Directed: every kind of pending classic operation x every way its channel or link goes away, then re-open."""
    cases = []
    pend_ops = {
        'dopen_mute': ['dopen', 1, 'mute', 2, 0], 'dopen_config_mute': ['dopen', 1, 'config_mute', 2, 0],
        'dopen_config_reject': ['dopen', 1, 'config_reject', 2, 0], 'dclose_mute': ['dclose', 1, 'mute'],
        'ropen_stall': ['ropen', 2, 1, 'stall'],
    }
    for carrier in ('le', 'bredr'):
        for pend, pend_op in pend_ops.items():
            for rel in ('cut0', 'cut1', 'rclose', 'dabort'):
                if rel == 'rclose' and pend == 'dopen_mute':
                    continue  # the peer has no channel it could close
                if rel == 'dabort' and pend.startswith('dopen'):
                    continue  # the application holds no channel object yet
                target = 1 if pend == 'dclose_mute' else 2
                ops = [['ropen', 1, 0, 'full'], ['dopen', 0, 'ok', 3, 0], pend_op]
                if rel.startswith('cut'):
                    ops += [['cut', int(rel[3])], ['reconnect']]
                else:
                    ops += [[rel, target]]
                ops += [['dopen', 0, 'ok', 0, 0], ['ropen', 0, 0, 'full'], ['rclose', 0], ['dclose', 0, 'ok'],
                        ['dopen', 2, 'ok', 1, 0]]
                cases.append({'kind': 'rawcl', 'carrier': carrier, 'npsm': 3, 'ops': ops})
    return cases


# ---------------------------------------------------------------------------
# family 'open_giveup': opens of LE credit-based channels whose CALLER gives up (task.cancel() after some loop
# iterations / ms, or an enclosing asyncio.wait_for), before, while or after the peer answers. Self-contained: two
# Devices, one LE link, one served PSM. Judged after each abandoned open has settled: no channel that is not open stays
# in either side's tables (an abandoned open is either never established, or open at both ends, or closed again at
# both ends), and at the end a fresh open succeeds - also after more abandoned opens than there are dynamic CIDs.
GIVEUP_PSM = 0x00B7


def open_giveup_cases():
    one = st.tuples(st.sampled_from(['cancel', 'cancel', 'wait_for']), st.integers(0, 8), st.sampled_from([0, 0, 1, 3, 20]))
    return st.fixed_dictionaries({
        'kind': st.just('open_giveup'),
        'delays': st.sampled_from([[], [], [0, 1], [2], [0, 0, 5]]),
        'opens': st.lists(one, min_size=1, max_size=6),
        # the whole list again and again (more abandoned opens than the 64 dynamic LE CIDs)
        'repeat': st.sampled_from([1, 1, 2, 14, 30, 70, 70]),
        'initiator': st.sampled_from([0, 1]),
    })


def _coc_tables(device, handle):
    m = device.l2cap_channel_manager
    out = []
    for cid, ch in list(m.channels.get(handle, {}).items()):
        if isinstance(ch, l2cap.LeCreditBasedChannel):
            out.append((cid, ch.state.name))
    return out, [(cid, ch.state.name) for cid, ch in m.le_coc_channels.get(handle, {}).items()]


def run_open_giveup_case(ctx, case) -> None:
    plain = {k: ([list(x) for x in v] if k == 'opens' else (list(v) if isinstance(v, (list, tuple)) else v)) for k, v in case.items()}
    loop = vloop.new_loop()
    labels = {'open_giveup'}
    failures = []

    async def body():
        w = world.World(2, delays=list(case.get('delays') or []) or None)
        await w.power_on()
        conn_c, conn_p = await w.connect_le(0, 1)
        ini = int(case['initiator'])
        dev_i, dev_a = w[ini].device, w[1 - ini].device
        conn_i = conn_c if ini == 0 else conn_p
        conn_a = conn_p if ini == 0 else conn_c
        accepted = []
        dev_a.create_l2cap_server(spec=l2cap.LeCreditBasedChannelSpec(psm=GIVEUP_PSM), handler=accepted.append)
        spec = l2cap.LeCreditBasedChannelSpec(psm=GIVEUP_PSM)
        n = 0
        for _ in range(int(case['repeat'])):
            for how, hops, ms in case['opens']:
                n += 1

                async def opener():
                    if how == 'wait_for':
                        return await asyncio.wait_for(conn_i.create_l2cap_channel(spec=spec), ms / 1000.0 + 1e-9)
                    return await conn_i.create_l2cap_channel(spec=spec)

                task = loop.create_task(opener())
                if how == 'cancel':
                    for _h in range(int(hops)):
                        await asyncio.sleep(0)
                    if ms:
                        await asyncio.sleep(ms / 1000.0)
                    task.cancel()
                got = None
                try:
                    got = await task
                    labels.add('open_giveup:answered_first')
                except (asyncio.CancelledError, asyncio.TimeoutError, TimeoutError):
                    labels.add('open_giveup:given_up')
                except Exception as e:  # noqa: BLE001 - an error ending of the abandoned call itself is its own business
                    labels.add(f'open_giveup:raised:{type(e).__name__}')
                await asyncio.sleep(1.0)
                if got is not None:  # the caller did get its channel: close it the ordinary way
                    try:
                        await asyncio.wait_for(got.disconnect(), 10.0)
                    except Exception as e:  # noqa: BLE001
                        failures.append((f'open_giveup/close_raises/{type(e).__name__}', f'closing channel {n} raised {e!r}'))
                        return
                    await asyncio.sleep(0.5)
                for side, dev, conn in (('initiator', dev_i, conn_i), ('acceptor', dev_a, conn_a)):
                    by_source, by_destination = _coc_tables(dev, conn.handle)
                    left = [x for x in by_source if x[1] != 'CONNECTED'] + [x for x in by_destination if x[1] != 'CONNECTED']
                    if left:
                        failures.append((f'open_giveup/not_open_channel_listed/{side}',
                                         f'after open {n} ({how}, {hops} iterations, {ms} ms) was given up and everything settled, the '
                                         f'{side}\'s tables list {left}'))
                        return
                i_open = len(_coc_tables(dev_i, conn_i.handle)[0])
                a_open = len(_coc_tables(dev_a, conn_a.handle)[0])
                if i_open != a_open:
                    failures.append(('open_giveup/tables_disagree',
                                     f'after open {n} ({how}, {hops} iterations, {ms} ms) was given up and everything settled, the initiator '
                                     f'lists {i_open} channel(s), the acceptor {a_open}'))
                    return
        if n > 64:
            labels.add('open_giveup:more_than_64')
        # identifiers of what was given up can be used again: a fresh open succeeds
        try:
            ch = await asyncio.wait_for(conn_i.create_l2cap_channel(spec=spec), 10.0)
        except Exception as e:  # noqa: BLE001
            failures.append((f'open_giveup/open_afterwards_fails/{type(e).__name__}',
                             f'after {n} abandoned open(s) a new create_l2cap_channel() raised {e!r}'))
            return
        if ch.state.name != 'CONNECTED':
            failures.append(('open_giveup/open_afterwards_fails/state', f'new channel is {ch.state.name}'))

    try:
        try:
            loop.complete(body(), horizon=3000.0)
        except (vloop.Stalled, vloop.HorizonExceeded, vloop.BudgetExceeded) as e:
            failures.append((f'open_giveup/hang/{type(e).__name__}', f'the history did not finish ({type(e).__name__})'))
    finally:
        loop.shutdown()
    for sig, what in failures[:1]:
        ctx.fail(sig, what, plain)
    ctx.case(('open_giveup', plain), True, labels, sample={'open_giveup': plain})


def run(ctx) -> None:
    vloop.selftest()
    max_ops = ctx.pick(15, 40)
    # directed families first; every shard runs them (they are small and their labels have floors)
    for c in fill_world_cases():
        run_world_case(ctx, c)
        ctx.label('family:fill_world')
    for i, c in enumerate(cutpoint_world_cases(ctx.quick) + race_world_cases(ctx.quick)):
        if i % ctx.nshards == ctx.shard:
            run_world_case(ctx, c)
            ctx.label('family:cutpoints')
    for c in fill_raw_cases():
        run_raw_case(ctx, c)
        ctx.label('family:fill_raw')
    for c in wrap_raw_cases():
        run_raw_case(ctx, c)
        ctx.label('family:wrap_raw')
    for c in rawcl_waiter_cases():
        run_rawcl_case(ctx, c)
        ctx.label('family:rawcl_waiters')
    ctx.hyp('open_giveup', lambda c: run_open_giveup_case(ctx, c), open_giveup_cases(), max_examples=ctx.n(60, 2400))
    for label in ('open_giveup', 'open_giveup:given_up', 'open_giveup:more_than_64'):
        ctx.floor(label, 5)
    ctx.hyp('world', lambda c: run_world_case(ctx, c), world_cases(max_ops), max_examples=ctx.n(1100, 36000))
    ctx.hyp('raw', lambda c: run_raw_case(ctx, c), raw_ops(max_ops), max_examples=ctx.n(450, 12000))
    ctx.hyp('rawcl', lambda c: run_rawcl_case(ctx, dict(c, kind='rawcl')), rawcl_ops(max_ops), max_examples=ctx.n(400, 10000))
    for label in (
        'reopen_after_close', 'reopen_after_refusal', 'reopen_after_abort', 'concurrent_two_links',
        'cut_with_pending_op', 'cut_by_central', 'cut_by_peripheral', 'close_by_central', 'close_by_peripheral',
        'kind:le', 'kind:enh', 'kind:cl', 'transport:classic', 'links:2', 'links:3', 'drain_unsent', 'reconnect',
        'raw_cid_reuse', 'dut_open_unanswered', 'abort', 'close_collision', 'independence_checked',
        'closed_before_open_returned',
        # extension: abort of a channel whose disconnect() is pending; crossed opens / asymmetric CID pairs; request sizes
        'abort_while_closing', 'abort_while_closing_orphan', 'crossed_opens_same_link', 'asym_cids', 'enh_n:4', 'enh_n:5',
        'refusal_shape:enh:0', 'refusal_shape:enh:1', 'refusal_shape:enh:2', 'dut_reopen_after_refusal',
        # extension: raw classic peer
        'rawcl_carrier:le', 'rawcl_carrier:bredr', 'rawcl_dut_open_ok', 'rawcl_peer_open_ok', 'rawcl_asym_cids',
        'rawcl_answer:pending_ok', 'rawcl_answer:refuse', 'rawcl_answer:pending_refuse', 'rawcl_answer:mute',
        'rawcl_answer:config_mute', 'rawcl_answer:config_reject', 'rawcl_closed_in_config', 'rawcl_peer_open_stalled',
        'rawcl_close_unanswered', 'rawcl_collision', 'rawcl_cid_reuse', 'rawcl_reopen_after_close',
        'rawcl_reopen_after_refusal', 'rawcl_reopen_after_abort', 'rawcl_cut_with_pending', 'rawcl_peer_close:config',
    ):
        ctx.floor(label, 10)
    # the directed waiter family reaches each of these exactly twice (once per carrier)
    for label in ('rawcl_peer_close:closing', 'rawcl_abort:closing', 'rawcl_abort:config'):
        ctx.floor(label, 2)
    # extension: boundary of the identifier space (directed families: one label per case)
    if ctx.nshards == 1:  # the cut-point family is sharded in the thorough tier
        for label in ('cut_during:open:le', 'cut_during:open:enh', 'cut_during:open:cl', 'cut_during:close:le',
                      'cut_during:close:enh', 'cut_during:close:cl', 'cut_during:drain:le', 'open_queued_with_disconnection'):
            ctx.floor(label, 5)
    ctx.floor('dut_identifier_wrapped', 4)
    ctx.floor('open_excused:identifier_awaited', 1)
    for label in ('cid_space_full', 'open_excused:cid_exhaustion', 'open_into_last_free_cids', 'open_while_other_link_full',
                  'raw_refused_at_exhaustion'):
        ctx.floor(label, 5)


def replay(ctx, case) -> None:
    if case['kind'] == 'world':
        run_world_case(ctx, case)
    elif case['kind'] == 'raw':
        run_raw_case(ctx, case)
    elif case['kind'] == 'rawcl':
        run_rawcl_case(ctx, case)
    elif case['kind'] == 'open_giveup':
        run_open_giveup_case(ctx, case)
    else:
        raise ValueError(case['kind'])
