"""
C01 - HCI packets survive serialise/parse unchanged, for every packet class.

Every class registered in HCI_Command.command_classes / HCI_Event.event_classes /
HCI_LE_Meta_Event.subevent_classes (+ every sync command's return-parameter class inside a
Command Complete event) is enumerated at run time; field values are drawn by the spec-driven
generator (vlib/specgen.py) together with a reference wire encoding computed by the harness.
ACL / SCO / ISO data packets, vendor events and unregistered codes have their own strategies.

Extension: the two vendor modules shipped with Bumble (bumble.vendor.android.hci, bumble.vendor.zephyr.hci)
are imported, so their commands / return parameters are part of the enumerated registries and the Android
vendor-event factory is installed; Command Complete events for opcodes without a return-parameter class;
enum-typed fields given as plain integers; exhaustive sweeps of the 8-bit code spaces; a harness-side
reference for the fields whose codec is an opaque callable; repeated groups filled to the packet capacity.
"""

from __future__ import annotations

import dataclasses
import enum
import struct

from hypothesis import strategies as st

from bumble import hci
# Vendor packet classes register themselves (decorators, vendor-event factory) when imported: import
# them before any registry is read.
import bumble.vendor.android.hci as android_hci
import bumble.vendor.zephyr.hci as zephyr_hci  # noqa: F401  (registers two commands)
from vlib import specgen
from vlib.runner import HarnessError

PROPERTY = 'C01'
LEVEL = 'exploration'
RULE = (
    'registry enumerated at run time (every registered command, event, LE sub-event class, every '
    'return-parameter class, data packets, vendor events, unregistered codes); per class field values '
    'drawn boundary-biased with a harness-side reference encoding; oracle = fields->bytes equals '
    'reference, bytes->fields equals generated, fresh object rebuilt from parsed fields re-serialises '
    'to the same bytes. non-trivial = packet has >=1 field byte and not all field bytes are zero; '
    'distinct by (class, wire bytes). Extension: bumble.vendor.android/zephyr are imported (their commands and '
    'return parameters are enumerated like the others; LE_Get_Vendor_Capabilities return parameters in every '
    'released layout version and as a status-only error answer; Bluetooth Quality Report vendor sub-event '
    'through the installed vendor factory; vendor events no factory claims, incl. the empty one); Command '
    'Complete for unknown / asynchronous-command / zero opcodes (generic return parameters preserved); every '
    'packet with enum-typed fields is also built with plain integers in their place; all unregistered 8-bit '
    'event and sub-event codes and a stratified (quick) / complete (thorough) sweep of the unregistered 16-bit '
    'opcodes; harness-side reference values for CodingFormat and fixed-type address fields (opaque specs); '
    'repeated groups filled up to the capacity of the packet.'
)
ASSUMPTIONS = [
    'well-formed = header length equals body length, repeated groups carry their exact item count, '
    'fixed-size byte fields may be given short (documented zero padding)',
    'ISO Packet_Status_Flag is the Core-spec 2-bit field (bits 14-15 of the SDU-length word)',
    'Command Complete with status != SUCCESS carries the status byte only',
    'values are sampled (boundary-biased); only the class registry is enumerated exhaustively',
    'late registration (Hypothesis): a vendor command with typed return parameters and an event class are registered with the public '
    'decorators AFTER 0..4 packets with their opcode / event code were parsed as generic packets (what importing a vendor module '
    'late does); afterwards command, event and Command Complete must round-trip as the registered classes. '
    'the vendor modules shipped in bumble/vendor are part of "every packet Bumble can build": they register '
    'classes and a vendor-event factory by the same decorators, at import time',
    'LE_Get_Vendor_Capabilities return parameters are well-formed in the released layouts (9, 15, 16, 21, 25 '
    'bytes = v0.55 / v0.95 / v0.96 / v0.98 / v1.03, each a prefix of the field list; the class documents '
    '"parse until there are no more bytes") and as a status-only answer with status != SUCCESS; for the '
    'shorter layouts only the signalled fields and bytes(parsed) == received bytes are judged',
    'a Bluetooth Quality Report with a report id outside the ids the factory names (1-4, 7-9) may come back '
    'either as the report class or as a generic vendor event (bytes preserved in both cases)',
    'a vendor event is well-formed with any parameters, including none; one that starts with the Quality '
    'Report sub-event code is only generated with all fixed fields present',
    'an enum-typed field accepts the plain integer of the same value (the dataclass annotations say int and '
    'Bumble\'s own callers pass integer constants)',
]

CMD, EVT, LE, CC = 'command', 'event', 'le_subevent', 'command_complete'


def header(kind, code, body: bytes) -> bytes:
    if kind == CMD:
        return struct.pack('<BHB', 0x01, code, len(body))
    if kind == EVT:
        return bytes([0x04, code, len(body)])
    if kind == LE:
        return bytes([0x04, 0x3E, len(body) + 1, code])
    raise ValueError(kind)


SPECIAL = {}


def special(cls):
    def deco(fn):
        SPECIAL[cls] = fn
        return fn

    return deco


@special(hci.HCI_LE_Set_Extended_Scan_Parameters_Command)
@st.composite
def _ext_scan(draw):
    phys = draw(st.integers(0, 7))
    n = bin(phys).count('1')
    v = {
        'own_address_type': draw(specgen.uint(1)),
        'scanning_filter_policy': draw(specgen.uint(1)),
        'scanning_phys': phys,
        'scan_types': [draw(specgen.uint(1)) for _ in range(n)],
        'scan_intervals': [draw(specgen.uint(2)) for _ in range(n)],
        'scan_windows': [draw(specgen.uint(2)) for _ in range(n)],
    }
    wire = bytes([v['own_address_type'], v['scanning_filter_policy'], phys])
    for i in range(n):
        wire += bytes([v['scan_types'][i]]) + v['scan_intervals'][i].to_bytes(2, 'little') + v['scan_windows'][i].to_bytes(2, 'little')
    return v, wire, v


_ECC_LISTS = [
    'scan_intervals', 'scan_windows', 'connection_interval_mins', 'connection_interval_maxs',
    'max_latencies', 'supervision_timeouts', 'min_ce_lengths', 'max_ce_lengths',
]


@special(hci.HCI_LE_Extended_Create_Connection_Command)
@st.composite
def _ext_create(draw):
    phys = draw(st.integers(0, 7))
    n = bin(phys).count('1')
    pat = draw(specgen.uint(1))
    raw = draw(specgen.nbytes_exact(6))
    v = {
        'initiator_filter_policy': draw(specgen.uint(1)),
        'own_address_type': draw(specgen.uint(1)),
        'peer_address_type': pat,
        'peer_address': hci.Address(raw, hci.AddressType(pat)),
        'initiating_phys': phys,
    }
    for name in _ECC_LISTS:
        v[name] = [draw(specgen.uint(2)) for _ in range(n)]
    wire = bytes([v['initiator_filter_policy'], v['own_address_type'], pat]) + raw + bytes([phys])
    for i in range(n):
        for name in _ECC_LISTS:
            wire += v[name][i].to_bytes(2, 'little')
    return v, wire, v


def decode_special(cls, body: bytes):
    if cls is hci.HCI_LE_Set_Extended_Scan_Parameters_Command:
        n = bin(body[2]).count('1')
        v = {'own_address_type': body[0], 'scanning_filter_policy': body[1], 'scanning_phys': body[2],
             'scan_types': [], 'scan_intervals': [], 'scan_windows': []}
        for i in range(n):
            o = 3 + 5 * i
            v['scan_types'].append(body[o])
            v['scan_intervals'].append(int.from_bytes(body[o + 1 : o + 3], 'little'))
            v['scan_windows'].append(int.from_bytes(body[o + 3 : o + 5], 'little'))
        return v
    if cls is hci.HCI_LE_Extended_Create_Connection_Command:
        n = bin(body[9]).count('1')
        v = {'initiator_filter_policy': body[0], 'own_address_type': body[1], 'peer_address_type': body[2],
             'peer_address': hci.Address(body[3:9], hci.AddressType(body[2])), 'initiating_phys': body[9]}
        for name in _ECC_LISTS:
            v[name] = []
        o = 10
        for _ in range(n):
            for name in _ECC_LISTS:
                v[name].append(int.from_bytes(body[o : o + 2], 'little'))
                o += 2
        return v
    raise KeyError(cls)


def names_of(cls):
    if cls in SPECIAL:
        if cls is hci.HCI_LE_Set_Extended_Scan_Parameters_Command:
            return ['own_address_type', 'scanning_filter_policy', 'scanning_phys', 'scan_types', 'scan_intervals', 'scan_windows']
        return ['initiator_filter_policy', 'own_address_type', 'peer_address_type', 'peer_address', 'initiating_phys'] + _ECC_LISTS
    return list(specgen.flat_names(cls.fields))


def has_custom_codec(cls, base) -> bool:
    """A class whose wire rules the field list alone does not express."""
    for attr in ('from_parameters', 'parameters', '__bytes__'):
        for k in cls.__mro__:
            if k is base or k in (hci.HCI_Event, hci.HCI_Extended_Event, hci.HCI_LE_Meta_Event, hci.HCI_Command,
                                  hci.HCI_SyncCommand, hci.HCI_AsyncCommand, hci.HCI_Packet, object):
                break
            if attr in k.__dict__:
                return True
    return False


# ---------------------------------------------------------------------------
# the oracle, from a full packet + expected values
# ---------------------------------------------------------------------------
def check_packet(ctx, kind, cls, packet: bytes, values: dict, expected: dict, case) -> bool:
    name = cls.__name__
    # clause 1: fields -> bytes equals the reference encoding
    try:
        built = bytes(cls(**values))
    except Exception as e:
        ctx.fail(f'encode_raises/{name}/{type(e).__name__}', f'building {name} from in-range field values raised {e!r}', case)
        return False
    if built != packet:
        ctx.fail(f'encode/{name}', f'{name} serialises to {built.hex()} but the wire format is {packet.hex()}', case)
        return False
    # clause 2: bytes -> fields
    try:
        parsed = hci.HCI_Packet.from_bytes(packet)
    except Exception as e:
        ctx.fail(f'decode_raises/{name}/{type(e).__name__}', f'parsing a well-formed {name} raised {e!r}', case)
        return False
    if type(parsed) is not cls:
        ctx.fail(f'decode_class/{name}', f'parsed as {type(parsed).__name__}', case)
        return False
    bad = specgen.diff_fields(parsed, expected)
    if bad:
        ctx.fail(f'decode_fields/{name}', f'fields {bad} differ after parsing {packet.hex()}', case)
        return False
    # clause 3: parsed packet re-serialises to the same bytes (cached and cache-defeated)
    try:
        again = bytes(parsed)
        rebuilt = bytes(cls(**{n: getattr(parsed, n) for n in names_of(cls)}))
    except Exception as e:
        ctx.fail(f'reencode_raises/{name}/{type(e).__name__}', f're-serialising a parsed {name} raised {e!r}', case)
        return False
    if again != packet or rebuilt != packet:
        ctx.fail(f'reencode/{name}', f'parsed {name} re-serialises to {rebuilt.hex()} instead of {packet.hex()}', case)
        return False
    # clause 5 (extension): the same field values with every enum member replaced by its plain integer
    # (the form Bumble's own callers use: reason=HCI_REMOTE_USER_TERMINATED_CONNECTION_ERROR, status=0, ...)
    # build the same bytes
    plain, changed = plain_ints(values)
    if changed:
        ctx.label('plain_int_enum')
        try:
            built_plain = bytes(cls(**plain))
        except Exception as e:
            ctx.fail(f'encode_plain_int_raises/{name}/{type(e).__name__}',
                     f'building {name} with plain integers in its enum-typed fields raised {e!r}', case)
            return False
        if built_plain != packet:
            ctx.fail(f'encode_plain_int/{name}',
                     f'{name} built with plain integers in its enum-typed fields serialises to {built_plain.hex()} instead of {packet.hex()}', case)
            return False
    return True


def plain_ints(v):
    """(v with every enum member replaced by the int of the same value, whether anything was replaced).
    Descends into lists, dicts of constructor arguments and HCI_Object dataclasses (return parameters,
    nested report structures); Address, CodingFormat and other value objects are left alone."""
    if isinstance(v, enum.Enum) and isinstance(v, int):
        return int(v), True
    if isinstance(v, dict):
        out, changed = {}, False
        for k, x in v.items():
            out[k], c = plain_ints(x)
            changed |= c
        return out, changed
    if isinstance(v, list):
        pairs = [plain_ints(x) for x in v]
        return [p[0] for p in pairs], any(p[1] for p in pairs)
    if isinstance(v, hci.HCI_Object) and dataclasses.is_dataclass(v):
        kw, changed = plain_ints({f.name: getattr(v, f.name) for f in dataclasses.fields(v) if f.init})
        return (type(v)(**kw), True) if changed else (v, False)
    return v, False


def nontrivial(wire: bytes) -> bool:
    return len(wire) > 0 and any(wire)


# ---------------------------------------------------------------------------
def run_registry(ctx, kind, registry, per_class):
    covered = 0
    for code in sorted(registry):
        cls = registry[code]
        if kind == EVT and cls in (hci.HCI_Command_Complete_Event, hci.HCI_Vendor_Event, hci.HCI_LE_Meta_Event):
            covered += 1  # dedicated strategies below
            continue
        if cls in SPECIAL:
            strat = SPECIAL[cls]()
        else:
            base = {CMD: hci.HCI_Command, EVT: hci.HCI_Event, LE: hci.HCI_LE_Meta_Event}[kind]
            if has_custom_codec(cls, base):
                raise HarnessError(f'{cls.__name__} has its own codec and no dedicated strategy')
            try:
                budget = 255 - (1 if kind == LE else 0)
                strat = specgen.fields_strategy(cls.fields, budget)
                kinds = [specgen.classify(s)[0] for s in _specs(cls.fields)]
            except specgen.UnknownSpec as e:
                raise HarnessError(f'{cls.__name__}: unknown field spec {e}')
            for k in kinds:
                ctx.labels['spec:' + k] += 0  # make the key exist

        def one(drawn, cls=cls, code=code):
            values, wire, expected = drawn
            packet = header(kind, code, wire) + wire
            case = {'kind': 'packet', 'packet': packet}
            ok = check_packet(ctx, kind, cls, packet, values, expected, case)
            labels = [kind]
            if cls not in SPECIAL:
                labels += ['spec:' + specgen.classify(s)[0] for s in _specs(cls.fields)]
                if ok:
                    labels += check_opaque_reference(ctx, cls, packet, len(packet) - len(wire), case)
            if is_vendor(cls):
                labels.append('vendor_' + kind)
            ctx.case((cls.__name__, wire), nontrivial(wire), set(labels), sample={'class': cls.__name__, 'packet': packet.hex()})

        try:
            ctx.hyp(f'{kind}/{cls.__name__}', one, strat, max_examples=per_class)
        except specgen.UnknownSpec as e:
            raise HarnessError(f'{cls.__name__}: {e}')
        covered += 1
    return covered


def _specs(fields):
    for f in fields:
        if isinstance(f, list):
            for _, s in f:
                yield s
        else:
            yield f[1]


def run_command_complete(ctx, per_class):
    n = 0
    for code in sorted(hci.HCI_Command.command_classes):
        cmd = hci.HCI_Command.command_classes[code]
        rp = getattr(cmd, 'return_parameters_class', None)
        if rp is None or not issubclass(cmd, hci.HCI_SyncCommand):
            continue
        n += 1
        if has_custom_return_codec(cmd, rp):
            if cmd not in SPECIAL_CC:
                raise HarnessError(f'{cmd.__name__} parses its return parameters with its own code and has no dedicated strategy')
            SPECIAL_CC[cmd](ctx, per_class * 4)
            continue
        status_first = issubclass(rp, hci.HCI_StatusReturnParameters)
        try:
            if status_first:
                body = specgen.fields_strategy(rp.fields[1:], 251, prefix=b'\x00')
            else:
                body = specgen.fields_strategy(rp.fields, 252)
        except specgen.UnknownSpec as e:
            raise HarnessError(f'{rp.__name__}: {e}')
        strat = st.tuples(specgen.uint(1), st.sampled_from([0, 0, 0, 1, 0x0C, 0x12, 0xFF]), body)

        def one(drawn, cmd=cmd, rp=rp, code=code, status_first=status_first):
            ncmd, status, (values, wire, expected) = drawn
            labels = {CC}
            if is_vendor(cmd):
                labels.add('vendor_cc')
            if status_first:
                if status == 0:
                    rp_in = rp(status=hci.HCI_ErrorCode(0), **values)
                    rp_exp = rp(status=hci.HCI_ErrorCode(0), **expected)
                    rp_wire = b'\x00' + wire
                    labels.add('cc_success')
                else:
                    rp_in = rp_exp = hci.HCI_StatusReturnParameters(status=hci.HCI_ErrorCode(status))
                    rp_wire = bytes([status])
                    labels.add('cc_error_status')
            else:
                rp_in, rp_exp, rp_wire = rp(**values), rp(**expected), wire
                labels.add('cc_no_status')
            body_wire = bytes([ncmd]) + code.to_bytes(2, 'little') + rp_wire
            packet = header(EVT, hci.HCI_COMMAND_COMPLETE_EVENT, body_wire) + body_wire
            v = {'num_hci_command_packets': ncmd, 'command_opcode': code, 'return_parameters': rp_in}
            e = {'num_hci_command_packets': ncmd, 'command_opcode': code, 'return_parameters': rp_exp}
            case = {'kind': 'packet', 'packet': packet}
            ok = check_packet(ctx, CC, hci.HCI_Command_Complete_Event, packet, v, e, case)
            if ok:
                parsed = hci.HCI_Packet.from_bytes(packet)
                if type(parsed.return_parameters) is not type(rp_exp):
                    ctx.fail(
                        f'decode_class/return_parameters/{cmd.__name__}',
                        f'return parameters parsed as {type(parsed.return_parameters).__name__}, expected {type(rp_exp).__name__}',
                        case,
                    )
            ctx.case((cmd.__name__, 'cc', rp_wire, ncmd), nontrivial(rp_wire), labels,
                     sample={'command_complete_for': cmd.__name__, 'packet': packet.hex()})

        ctx.hyp(f'cc/{cmd.__name__}', one, strat, max_examples=per_class)
    return n


def run_unknown(ctx, n):
    known_ops = set(hci.HCI_Command.command_classes)
    known_evts = set(hci.HCI_Event.event_classes) | {0x3E, 0xFF}
    known_sub = set(hci.HCI_LE_Meta_Event.subevent_classes)
    params = st.one_of(st.just(b''), st.binary(max_size=8), st.binary(min_size=255, max_size=255), st.binary(max_size=255))

    def unk_cmd(d):
        op, p = d
        packet = header(CMD, op, p) + p
        case = {'kind': 'packet', 'packet': packet}
        ok = True
        try:
            parsed = hci.HCI_Packet.from_bytes(packet)
            if type(parsed) is not hci.HCI_Command or parsed.op_code != op or parsed.parameters != p:
                ctx.fail('unknown/command_not_generic', f'unknown opcode 0x{op:04x} not carried as a generic command with its parameters', case)
                ok = False
            elif bytes(parsed) != packet or bytes(hci.HCI_Command(parsed.parameters, op_code=parsed.op_code)) != packet:
                ctx.fail('unknown/command_reencode', 'generic command does not re-serialise to the same bytes', case)
        except Exception as e:
            ctx.fail(f'unknown/command_raises/{type(e).__name__}', f'unknown opcode 0x{op:04x}: {e!r}', case)
        ctx.case(('uc', op, p), len(p) > 0, {'unknown_opcode'}, sample={'unknown_command': packet.hex()})

    ops = st.integers(0, 0xFFFF).filter(lambda o: o not in known_ops)
    ctx.hyp('unknown/cmd', unk_cmd, st.tuples(st.one_of(ops, st.integers(0xFC00, 0xFFFF).filter(lambda o: o not in known_ops)), params), max_examples=n)

    def unk_evt(d):
        code, p = d
        packet = header(EVT, code, p) + p
        case = {'kind': 'packet', 'packet': packet}
        try:
            parsed = hci.HCI_Packet.from_bytes(packet)
            if type(parsed) is not hci.HCI_Event or parsed.event_code != code or parsed.parameters != p:
                ctx.fail('unknown/event_not_generic', f'unknown event code 0x{code:02x} not carried as a generic event with its parameters', case)
            elif bytes(parsed) != packet or bytes(hci.HCI_Event(parsed.parameters, event_code=parsed.event_code)) != packet:
                ctx.fail('unknown/event_reencode', 'generic event does not re-serialise to the same bytes', case)
        except Exception as e:
            ctx.fail(f'unknown/event_raises/{type(e).__name__}', f'unknown event 0x{code:02x}: {e!r}', case)
        ctx.case(('ue', code, p), len(p) > 0, {'unknown_event'}, sample={'unknown_event': packet.hex()})

    ctx.hyp('unknown/evt', unk_evt, st.tuples(st.integers(0, 0xFF).filter(lambda c: c not in known_evts), params), max_examples=n)

    def unk_sub(d):
        sub, p = d
        p = p[:254]
        body = bytes([sub]) + p
        packet = header(EVT, 0x3E, body) + body
        case = {'kind': 'packet', 'packet': packet}
        try:
            parsed = hci.HCI_Packet.from_bytes(packet)
            if type(parsed) is not hci.HCI_LE_Meta_Event or parsed.subevent_code != sub or parsed.parameters != body:
                ctx.fail('unknown/subevent_not_generic', f'unknown LE sub-event 0x{sub:02x} not carried as a generic LE meta event', case)
            elif bytes(parsed) != packet or bytes(hci.HCI_LE_Meta_Event(subevent_code=parsed.subevent_code, parameters=parsed.parameters)) != packet:
                ctx.fail('unknown/subevent_reencode', 'generic LE meta event does not re-serialise to the same bytes', case)
        except Exception as e:
            ctx.fail(f'unknown/subevent_raises/{type(e).__name__}', f'unknown sub-event 0x{sub:02x}: {e!r}', case)
        ctx.case(('us', sub, p), len(p) > 0, {'unknown_subevent'}, sample={'unknown_subevent': packet.hex()})

    ctx.hyp('unknown/sub', unk_sub, st.tuples(st.integers(0, 0xFF).filter(lambda c: c not in known_sub), params), max_examples=n)

    def vendor(p):
        packet = header(EVT, 0xFF, p) + p
        case = {'kind': 'packet', 'packet': packet, 'no_factories': True}
        saved = list(hci.HCI_Event.vendor_factories)
        hci.HCI_Event.vendor_factories.clear()
        try:
            parsed = hci.HCI_Packet.from_bytes(packet)
            if type(parsed) is not hci.HCI_Vendor_Event or parsed.data != p:
                ctx.fail('vendor/not_generic', 'vendor event parameters not preserved', case)
            elif bytes(parsed) != packet or bytes(hci.HCI_Vendor_Event(data=parsed.data)) != packet:
                ctx.fail('vendor/reencode', 'vendor event does not re-serialise to the same bytes', case)
        except Exception as e:
            ctx.fail(f'vendor/raises/{type(e).__name__}', repr(e), case)
        finally:
            hci.HCI_Event.vendor_factories[:] = saved
        ctx.case(('v', p), len(p) > 0, {'vendor_event'}, sample={'vendor_event': packet.hex()})

    ctx.hyp('vendor', vendor, params, max_examples=n)


def data_lengths(maxlen):
    return st.one_of(st.sampled_from([0, 1, 2, 27, 251, 255]), st.integers(0, 300), st.just(maxlen)).map(lambda n: min(n, maxlen))


def run_data(ctx, n):
    # --- ACL
    def acl(d):
        handle, pb, bc, data = d
        h = handle | pb << 12 | bc << 14
        packet = bytes([0x02]) + h.to_bytes(2, 'little') + len(data).to_bytes(2, 'little') + data
        case = {'kind': 'packet', 'packet': packet}
        try:
            built = bytes(hci.HCI_AclDataPacket(connection_handle=handle, pb_flag=pb, bc_flag=bc, data_total_length=len(data), data=data))
            p = hci.HCI_Packet.from_bytes(packet)
            got = (type(p).__name__, p.connection_handle, p.pb_flag, p.bc_flag, p.data_total_length, p.data)
            again = bytes(hci.HCI_AclDataPacket(connection_handle=p.connection_handle, pb_flag=p.pb_flag, bc_flag=p.bc_flag, data_total_length=p.data_total_length, data=p.data))
            if built != packet:
                ctx.fail('encode/HCI_AclDataPacket', f'{built[:8].hex()}.. != {packet[:8].hex()}..', case)
            elif got != ('HCI_AclDataPacket', handle, pb, bc, len(data), data):
                ctx.fail('decode_fields/HCI_AclDataPacket', f'{got[:5]}', case)
            elif again != packet or bytes(p) != packet:
                ctx.fail('reencode/HCI_AclDataPacket', 'differs', case)
        except Exception as e:
            ctx.fail(f'raises/HCI_AclDataPacket/{type(e).__name__}', repr(e), case)
        ctx.case(('acl', handle, pb, bc, data), handle != 0 or any(data), {'acl', f'acl_pb{pb}'}, sample={'acl': packet[:40].hex()})

    ctx.hyp(
        'acl', acl,
        st.tuples(st.one_of(st.sampled_from([0, 1, 0xEFF, 0xFFF]), st.integers(0, 0xFFF)), st.integers(0, 3), st.integers(0, 3),
                  st.one_of(data_lengths(1021), st.sampled_from([0xFFFF] if not ctx.quick else [4096])).flatmap(lambda k: st.binary(min_size=k, max_size=k))),
        max_examples=n,
    )

    # --- SCO
    def sco(d):
        handle, status, data = d
        h = handle | status << 12
        packet = bytes([0x03]) + h.to_bytes(2, 'little') + bytes([len(data)]) + data
        case = {'kind': 'packet', 'packet': packet}
        S = hci.HCI_SynchronousDataPacket
        try:
            built = bytes(S(connection_handle=handle, packet_status=S.Status(status), data_total_length=len(data), data=data))
            p = hci.HCI_Packet.from_bytes(packet)
            got = (type(p).__name__, p.connection_handle, int(p.packet_status), p.data_total_length, p.data)
            again = bytes(S(connection_handle=p.connection_handle, packet_status=p.packet_status, data_total_length=p.data_total_length, data=p.data))
            if built != packet:
                ctx.fail('encode/HCI_SynchronousDataPacket', f'{built[:8].hex()} != {packet[:8].hex()}', case)
            elif got != ('HCI_SynchronousDataPacket', handle, status, len(data), data):
                ctx.fail('decode_fields/HCI_SynchronousDataPacket', f'{got[:4]}', case)
            elif again != packet or bytes(p) != packet:
                ctx.fail('reencode/HCI_SynchronousDataPacket', 'differs', case)
        except Exception as e:
            ctx.fail(f'raises/HCI_SynchronousDataPacket/{type(e).__name__}', repr(e), case)
        ctx.case(('sco', handle, status, data), handle != 0 or any(data), {'sco', f'sco_status{status}'}, sample={'sco': packet[:40].hex()})

    ctx.hyp(
        'sco', sco,
        st.tuples(st.one_of(st.sampled_from([0, 0xFFF]), st.integers(0, 0xFFF)), st.integers(0, 3),
                  data_lengths(255).flatmap(lambda k: st.binary(min_size=k, max_size=k))),
        max_examples=n,
    )

    # --- ISO
    def iso(d):
        handle, pb, ts, seq, sdu_len, psf, data = d
        first = pb in (0b00, 0b10)
        if not first:
            ts = None
        body = b''
        if ts is not None:
            body += ts.to_bytes(4, 'little')
        if first:
            body += seq.to_bytes(2, 'little') + (sdu_len | psf << 14).to_bytes(2, 'little')
        body += data
        h = handle | pb << 12 | (1 << 14 if ts is not None else 0)
        packet = bytes([0x05]) + h.to_bytes(2, 'little') + len(body).to_bytes(2, 'little') + body
        case = {'kind': 'packet', 'packet': packet}
        I = hci.HCI_IsoDataPacket
        kw = dict(connection_handle=handle, data_total_length=len(body), iso_sdu_fragment=data, pb_flag=pb, time_stamp=ts)
        if first:
            kw.update(packet_sequence_number=seq, iso_sdu_length=sdu_len, packet_status_flag=psf)
        exp = (handle, len(body), data, pb, ts, seq if first else None, sdu_len if first else None, psf if first else None)
        try:
            built = bytes(I(**kw))
            if built != packet:
                ctx.fail('encode/HCI_IsoDataPacket', f'built {built[:16].hex()} wire {packet[:16].hex()}', case)
            else:
                p = hci.HCI_Packet.from_bytes(packet)
                got = (p.connection_handle, p.data_total_length, p.iso_sdu_fragment, p.pb_flag, p.time_stamp,
                       p.packet_sequence_number, p.iso_sdu_length, p.packet_status_flag)
                if type(p) is not I or got != exp or bool(p.ts_flag) != (ts is not None):
                    ctx.fail('decode_fields/HCI_IsoDataPacket', f'got {got[:2] + got[3:]} expected {exp[:2] + exp[3:]}', case)
                else:
                    again = bytes(I(connection_handle=p.connection_handle, data_total_length=p.data_total_length,
                                    iso_sdu_fragment=p.iso_sdu_fragment, pb_flag=p.pb_flag, time_stamp=p.time_stamp,
                                    packet_sequence_number=p.packet_sequence_number, iso_sdu_length=p.iso_sdu_length,
                                    packet_status_flag=p.packet_status_flag))
                    if again != packet or bytes(p) != packet:
                        ctx.fail('reencode/HCI_IsoDataPacket', f'{again[:16].hex()} != {packet[:16].hex()}', case)
        except Exception as e:
            ctx.fail(f'raises/HCI_IsoDataPacket/{type(e).__name__}', repr(e), case)
        labels = {'iso', f'iso_pb{pb}'}
        if ts is not None:
            labels.add('iso_ts')
        if first:
            labels.add(f'iso_psf{psf}')
        ctx.case(('iso', packet), True, labels, sample={'iso': packet[:40].hex()})

    ctx.hyp(
        'iso', iso,
        st.tuples(
            st.one_of(st.sampled_from([0, 0xEFF, 0xFFF]), st.integers(0, 0xFFF)), st.integers(0, 3),
            st.one_of(st.none(), specgen.uint(4)), specgen.uint(2),
            st.one_of(st.sampled_from([0, 1, 0xFFF]), st.integers(0, 0xFFF)), st.integers(0, 3),
            data_lengths(1021).flatmap(lambda k: st.binary(min_size=k, max_size=k)),
        ),
        max_examples=n,
    )


# ---------------------------------------------------------------------------
# extension: vendor modules, generic Command Complete, sweeps, opaque reference, full groups
# ---------------------------------------------------------------------------
def _le16(b: bytes) -> int:
    return int.from_bytes(b[:2], 'little')


def is_vendor(cls) -> bool:
    return cls.__module__.startswith('bumble.vendor')


def has_custom_return_codec(cmd, rp) -> bool:
    """Return parameters whose wire rules the field list alone does not express."""
    for k in cmd.__mro__:
        if k in (hci.HCI_SyncCommand, hci.HCI_Command, object):
            break
        if 'parse_return_parameters' in k.__dict__:
            return True
    for k in rp.__mro__:
        if k in (hci.HCI_StatusReturnParameters, hci.HCI_ReturnParameters, hci.HCI_Object, object):
            break
        if 'from_parameters' in k.__dict__ or '__bytes__' in k.__dict__:
            return True
    return False


# --- fields whose spec is an opaque callable: values from the harness, not from Bumble's parser
_RANDOM_ADDRESS_FIELDS = {
    (hci.HCI_LE_Set_Random_Address_Command, 'random_address'),
    (hci.HCI_LE_Set_Advertising_Set_Random_Address_Command, 'random_address'),
}


def check_opaque_reference(ctx, cls, packet: bytes, body_offset: int, case) -> list:
    labels = []
    fields = list(cls.fields)
    parsed = None
    for i, f in enumerate(fields):
        if isinstance(f, list):
            continue
        fname, spec = f
        kind, d = specgen.classify(spec)
        if kind != 'opaque':
            continue
        _, off = specgen.decode_fields(fields[:i], packet, body_offset)
        if parsed is None:
            parsed = hci.HCI_Packet.from_bytes(packet)
        got = getattr(parsed, fname)
        if getattr(d[0], '__self__', None) is hci.CodingFormat:
            raw = packet[off : off + 5]
            ref = (raw[0], _le16(raw[1:3]), _le16(raw[3:5]))
            have = (int(got.codec_id), got.company_id, got.vendor_specific_codec_id)
            if have != ref:
                ctx.fail(f'decode_reference/{cls.__name__}/CodingFormat',
                         f'{fname}: bytes {raw.hex()} mean (codec, company, vendor codec) = {ref}, parsed as {have}', case)
            elif bytes(hci.CodingFormat(hci.CodecID(ref[0]), ref[1], ref[2])) != raw:
                ctx.fail(f'encode_reference/{cls.__name__}/CodingFormat',
                         f'CodingFormat{ref} serialises to {bytes(hci.CodingFormat(hci.CodecID(ref[0]), ref[1], ref[2])).hex()}, the wire format is {raw.hex()}', case)
            labels.append('opaque_ref:CodingFormat')
        elif (cls, fname) in _RANDOM_ADDRESS_FIELDS:
            raw = packet[off : off + 6]
            if bytes(got) != raw or int(got.address_type) != int(hci.Address.RANDOM_DEVICE_ADDRESS):
                ctx.fail(f'decode_reference/{cls.__name__}/random_address',
                         f'{fname}: bytes {raw.hex()} parsed as {bytes(got).hex()} type {int(got.address_type)}', case)
            labels.append('opaque_ref:random_address')
        else:
            labels.append('opaque_unreferenced')
    return labels


# --- Command Complete for an opcode without a return-parameter class -------------------------
def judge_cc_generic(ctx, packet: bytes, case) -> bool:
    """unknown opcode, opcode of an asynchronous command, opcode 0: the return parameters are opaque to
    Bumble and must be preserved byte for byte in both directions."""
    E, G = hci.HCI_Command_Complete_Event, hci.HCI_GenericReturnParameters
    body = packet[3:]
    ncmd, op, rp = body[0], _le16(body[1:3]), body[3:]
    try:
        built = bytes(E(num_hci_command_packets=ncmd, command_opcode=op, return_parameters=G(data=rp)))
    except Exception as e:
        ctx.fail(f'cc_generic/encode_raises/{type(e).__name__}', f'building a Command Complete with generic return parameters raised {e!r}', case)
        return False
    if built != packet:
        ctx.fail('cc_generic/encode', f'serialises to {built.hex()} but the wire format is {packet.hex()}', case)
        return False
    try:
        parsed = hci.HCI_Packet.from_bytes(packet)
    except Exception as e:
        ctx.fail(f'cc_generic/decode_raises/{type(e).__name__}', f'Command Complete for opcode 0x{op:04x} (no return-parameter class): {e!r}', case)
        return False
    if type(parsed) is not E or parsed.num_hci_command_packets != ncmd or parsed.command_opcode != op:
        ctx.fail('cc_generic/decode_fields', f'parsed as {type(parsed).__name__} opcode {getattr(parsed, "command_opcode", None)}', case)
        return False
    try:
        kept = bytes(parsed.return_parameters)
    except Exception as e:
        ctx.fail(f'cc_generic/not_preserved/{type(e).__name__}', repr(e), case)
        return False
    if kept != rp:
        ctx.fail('cc_generic/not_preserved', f'return parameters {rp.hex()} of opcode 0x{op:04x} come back as {kept.hex()}', case)
        return False
    try:
        again = bytes(parsed)
        rebuilt = bytes(E(num_hci_command_packets=parsed.num_hci_command_packets, command_opcode=parsed.command_opcode,
                          return_parameters=parsed.return_parameters))
    except Exception as e:
        ctx.fail(f'cc_generic/reencode_raises/{type(e).__name__}', repr(e), case)
        return False
    if again != packet or rebuilt != packet:
        ctx.fail('cc_generic/reencode', f're-serialises to {rebuilt.hex()} instead of {packet.hex()}', case)
        return False
    return True


def cc_is_generic(op: int) -> bool:
    cmd = hci.HCI_Command.command_classes.get(op)
    return cmd is None or not issubclass(cmd, hci.HCI_SyncCommand)


def run_cc_generic(ctx, n):
    known = hci.HCI_Command.command_classes
    async_ops = sorted(op for op, c in known.items() if not issubclass(c, hci.HCI_SyncCommand))
    unknown = st.one_of(st.integers(1, 0xFFFF), st.integers(0xFC00, 0xFFFF),
                        st.sampled_from(sorted(known)).map(lambda o: o ^ 0x0200)).filter(lambda o: o not in known and o != 0)
    ops = st.one_of(st.tuples(st.just('nop'), st.just(0)), st.tuples(st.just('async'), st.sampled_from(async_ops)),
                    st.tuples(st.just('unknown'), unknown))
    rps = st.one_of(st.just(b''), st.sampled_from([b'\x00', b'\x01', b'\x0c']), st.binary(max_size=8),
                    st.binary(min_size=252, max_size=252), st.binary(max_size=252))

    def one(d):
        ncmd, (what, op), rp = d
        body = bytes([ncmd]) + op.to_bytes(2, 'little') + rp
        packet = header(EVT, hci.HCI_COMMAND_COMPLETE_EVENT, body) + body
        case = {'kind': 'packet', 'packet': packet}
        judge_cc_generic(ctx, packet, case)
        ctx.case(('ccg', op, ncmd, rp), True, {CC, 'cc_generic', 'cc_generic_' + what},
                 sample={'command_complete_generic': packet.hex()})

    ctx.hyp('cc/generic', one, st.tuples(specgen.uint(1), ops, rps), max_examples=n)


# --- Android LE_Get_Vendor_Capabilities: a versioned return-parameter structure --------------
VCAPS_LAYOUTS = (9, 15, 16, 21, 25)  # v0.55, v0.95, v0.96, v0.98, v1.03: each a prefix of the field list
VCAPS = android_hci.HCI_LE_Get_Vendor_Capabilities_Command


def judge_vcaps(ctx, packet: bytes, case) -> set:
    E = hci.HCI_Command_Complete_Event
    rp = VCAPS.return_parameters_class
    name = VCAPS.__name__
    body = packet[3:]
    ncmd, op, rpw = body[0], _le16(body[1:3]), body[3:]
    sizes = [specgen.min_size(spec) for _, spec in rp.fields]
    if len(rpw) == sum(sizes) and rpw[0] == 0:
        vals, _ = specgen.decode_fields(rp.fields, body, 3)
        v = {'num_hci_command_packets': ncmd, 'command_opcode': op, 'return_parameters': rp(**vals)}
        if check_packet(ctx, CC, E, packet, v, v, case):
            parsed = hci.HCI_Packet.from_bytes(packet)
            if type(parsed.return_parameters) is not rp:
                ctx.fail(f'decode_class/return_parameters/{name}',
                         f'return parameters parsed as {type(parsed.return_parameters).__name__}, expected {rp.__name__}', case)
        return {'vcaps_full'}
    # an older (shorter) layout, or the status-only answer of a controller that refuses the command:
    # judged in the receiving direction only
    labels = {'vcaps_status_only'} if len(rpw) == 1 else {'vcaps_short_layout'}
    try:
        parsed = hci.HCI_Packet.from_bytes(packet)
    except Exception as e:
        ctx.fail(f'decode_raises/return_parameters/{name}/{type(e).__name__}',
                 f'Command Complete carrying {len(rpw)} byte(s) of return parameters ({rpw.hex()}) raised {e!r}', case)
        return labels
    if type(parsed) is not E or parsed.num_hci_command_packets != ncmd or parsed.command_opcode != op:
        ctx.fail(f'decode_fields/{E.__name__}', f'parsed as {type(parsed).__name__}', case)
        return labels
    r = parsed.return_parameters
    off, bad = 0, []
    for (fname, spec), size in zip(rp.fields, sizes):
        if off + size > len(rpw):
            break
        ref, _ = specgen.decode_field(spec, rpw, off, False)
        if specgen.canon(getattr(r, fname, '<missing>')) != specgen.canon(ref):
            bad.append(fname)
        off += size
    if bad:
        ctx.fail(f'decode_fields/return_parameters/{name}', f'signalled fields {bad} differ after parsing {packet.hex()}', case)
        return labels
    try:
        again = bytes(parsed)
    except Exception as e:
        ctx.fail(f'reencode_raises/return_parameters/{name}/{type(e).__name__}', repr(e), case)
        return labels
    if again != packet:
        ctx.fail(f'reencode/return_parameters/{name}', f're-serialises to {again.hex()} instead of {packet.hex()}', case)
    return labels


def run_vcaps(ctx, n):
    rp = VCAPS.return_parameters_class
    if [specgen.classify(s)[0] for _, s in rp.fields[1:]] != ['uint'] * (len(rp.fields) - 1) or \
            sum(specgen.min_size(s) for _, s in rp.fields) != VCAPS_LAYOUTS[-1]:
        raise HarnessError('LE_Get_Vendor_Capabilities return parameters changed shape: revisit VCAPS_LAYOUTS')
    strat = st.tuples(specgen.uint(1), specgen.fields_strategy(rp.fields[1:], 251, prefix=b'\x00'),
                      st.sampled_from([0x01, 0x0C, 0x11, 0x12, 0xFF]))

    def one(d, layout):
        ncmd, (_values, wire, _expected), status = d
        rpw = bytes([status]) if layout == 1 else (b'\x00' + wire)[:layout]
        body = bytes([ncmd]) + VCAPS.op_code.to_bytes(2, 'little') + rpw
        packet = header(EVT, hci.HCI_COMMAND_COMPLETE_EVENT, body) + body
        case = {'kind': 'packet', 'packet': packet}
        labels = judge_vcaps(ctx, packet, case) | {CC, 'vendor_cc', f'vcaps_layout{layout}'}
        ctx.case((VCAPS.__name__, 'cc', rpw, ncmd), nontrivial(rpw), labels,
                 sample={'command_complete_for': VCAPS.__name__, 'packet': packet.hex()})

    # the layouts are enumerated (every shard runs all of them), the values are drawn
    for layout in VCAPS_LAYOUTS + (1,):
        ctx.hyp(f'cc/{VCAPS.__name__}/{layout}', lambda d, layout=layout: one(d, layout), strat,
                max_examples=max(8, n // (len(VCAPS_LAYOUTS) + 1)))


SPECIAL_CC = {VCAPS: run_vcaps}


# --- vendor events with the vendor-event factories installed ----------------------------------
BQR = android_hci.HCI_Bluetooth_Quality_Report_Event
BQR_SUBEVENT = android_hci.HCI_BLUETOOTH_QUALITY_REPORT_EVENT
BQR_IDS = (0x01, 0x02, 0x03, 0x04, 0x07, 0x08, 0x09)  # the report ids Bumble's factory names


def judge_vendor_event(ctx, packet: bytes, case) -> set:
    V = hci.HCI_Vendor_Event
    if not hci.HCI_Event.vendor_factories:
        raise HarnessError('no vendor-event factory is installed')
    body = packet[3:]
    if body[:1] == bytes([BQR_SUBEVENT]):
        fixed = sum(specgen.min_size(s) for _, s in BQR.fields)
        if len(body) - 1 < fixed:
            return {'vendor_bqr_short_not_judged'}  # not a well-formed report (replay of a shrunk case)
        values, _ = specgen.decode_fields(BQR.fields, body, 1)
        if body[1] in BQR_IDS:
            check_packet(ctx, 'vendor_subevent', BQR, packet, values, values, case)
            return {'vendor_bqr'}
        # a report id the factory does not name: the report class or a generic vendor event, bytes kept
        name = BQR.__name__
        try:
            built = bytes(BQR(**values))
        except Exception as e:
            ctx.fail(f'encode_raises/{name}/{type(e).__name__}', repr(e), case)
            return {'vendor_bqr_other_id'}
        if built != packet:
            ctx.fail(f'encode/{name}', f'{name} serialises to {built.hex()} but the wire format is {packet.hex()}', case)
            return {'vendor_bqr_other_id'}
        try:
            parsed = hci.HCI_Packet.from_bytes(packet)
            again = bytes(parsed)
        except Exception as e:
            ctx.fail(f'decode_raises/{name}/{type(e).__name__}', repr(e), case)
            return {'vendor_bqr_other_id'}
        if type(parsed) is BQR:
            bad = specgen.diff_fields(parsed, values)
            if bad:
                ctx.fail(f'decode_fields/{name}', f'fields {bad} differ after parsing {packet.hex()}', case)
        elif type(parsed) is not V or parsed.data != body:
            ctx.fail('vendor/declined_not_generic', f'parsed as {type(parsed).__name__}, parameters not preserved', case)
        if again != packet:
            ctx.fail(f'reencode/{name}', f're-serialises to {again.hex()} instead of {packet.hex()}', case)
        return {'vendor_bqr_other_id'}
    # no installed factory claims this event
    labels = {'vendor_declined'} | ({'vendor_declined_empty'} if not body else set())
    try:
        parsed = hci.HCI_Packet.from_bytes(packet)
    except Exception as e:
        ctx.fail(f'vendor/factory_raises/{type(e).__name__}',
                 f'a vendor event ({len(body)} parameter bytes) that no installed factory claims raised {e!r}', case)
        return labels
    try:
        if type(parsed) is not V or parsed.data != body:
            ctx.fail('vendor/declined_not_generic', f'parsed as {type(parsed).__name__}, parameters not preserved', case)
        elif bytes(parsed) != packet or bytes(V(data=parsed.data)) != packet:
            ctx.fail('vendor/declined_reencode', 'vendor event does not re-serialise to the same bytes', case)
    except Exception as e:
        ctx.fail(f'vendor/declined_raises/{type(e).__name__}', repr(e), case)
    return labels


def run_vendor_events(ctx, n):
    if BQR.fields[0][0] != 'quality_report_id' or specgen.classify(BQR.fields[0][1]) != ('uint', 1):
        raise HarnessError('Bluetooth Quality Report event changed shape')
    ids = st.one_of(st.sampled_from(BQR_IDS), st.sampled_from(BQR_IDS), st.sampled_from([0x00, 0x05, 0x06, 0x0A, 0xFF]))

    def bqr(d):
        report_id, (_values, wire, _expected) = d
        body = bytes([BQR_SUBEVENT, report_id]) + wire[1:]
        packet = header(EVT, hci.HCI_VENDOR_EVENT, body) + body
        case = {'kind': 'packet', 'packet': packet}
        labels = judge_vendor_event(ctx, packet, case)
        ctx.case(('bqr', body), True, labels | {'vendor_event_factory'}, sample={'class': BQR.__name__, 'packet': packet.hex()})

    ctx.hyp('vendor/bqr', bqr, st.tuples(ids, specgen.fields_strategy(BQR.fields, 254)), max_examples=n)

    params = st.one_of(st.just(b''), st.binary(max_size=8), st.binary(min_size=255, max_size=255), st.binary(max_size=255))

    def declined(p):
        if p[:1] == bytes([BQR_SUBEVENT]):
            p = bytes([BQR_SUBEVENT ^ 0x01]) + p[1:]
        packet = header(EVT, hci.HCI_VENDOR_EVENT, p) + p
        case = {'kind': 'packet', 'packet': packet}
        labels = judge_vendor_event(ctx, packet, case)
        ctx.case(('vd', p), len(p) > 0, labels | {'vendor_event_factory'}, sample={'vendor_event_declined': packet.hex()})

    ctx.hyp('vendor/declined', declined, params, max_examples=n)
    # directed: the shortest events, with and without the first byte of a Quality Report
    for p in (b'', b'\x00', bytes([BQR_SUBEVENT ^ 0x01]), bytes([BQR_SUBEVENT + 1, 0x01]), b'\xff' * 255):
        declined(p)


# --- every unregistered code of the 8-bit spaces; the 16-bit opcode space stratified / complete ---
def judge_unknown(ctx, what: str, code: int, p: bytes) -> None:
    if what == 'command':
        packet = header(CMD, code, p) + p
        make = lambda q: hci.HCI_Command(q.parameters, op_code=q.op_code)  # noqa: E731
        same = lambda q: type(q) is hci.HCI_Command and q.op_code == code and q.parameters == p  # noqa: E731
    elif what == 'event':
        packet = header(EVT, code, p) + p
        make = lambda q: hci.HCI_Event(q.parameters, event_code=q.event_code)  # noqa: E731
        same = lambda q: type(q) is hci.HCI_Event and q.event_code == code and q.parameters == p  # noqa: E731
    else:
        body = bytes([code]) + p
        packet = header(EVT, 0x3E, body) + body
        make = lambda q: hci.HCI_LE_Meta_Event(subevent_code=q.subevent_code, parameters=q.parameters)  # noqa: E731
        same = lambda q: type(q) is hci.HCI_LE_Meta_Event and q.subevent_code == code and q.parameters == body  # noqa: E731
    case = {'kind': 'packet', 'packet': packet}
    try:
        parsed = hci.HCI_Packet.from_bytes(packet)
        if not same(parsed):
            ctx.fail(f'unknown/{what}_not_generic', f'unknown code 0x{code:02x} not carried as a generic {what} with its parameters', case)
        elif bytes(parsed) != packet or bytes(make(parsed)) != packet:
            ctx.fail(f'unknown/{what}_reencode', f'generic {what} does not re-serialise to the same bytes', case)
    except Exception as e:
        ctx.fail(f'unknown/{what}_raises/{type(e).__name__}', f'unknown code 0x{code:02x}: {e!r}', case)


def run_sweeps(ctx):
    """Plain enumerations. The two 8-bit spaces are small: every shard runs them completely, so their
    floors hold per shard. The opcode space is stratified in the quick tier and complete (split over the
    shards) in the thorough tier."""
    long = bytes(range(1, 256))
    n_evt = n_sub = n_op = 0
    known_evts = set(hci.HCI_Event.event_classes) | {0x3E, 0xFF}
    for code in range(256):
        if code in known_evts:
            continue
        for p in (b'', b'\xa5', long):
            judge_unknown(ctx, 'event', code, p)
            ctx.case(('sweep_e', code, len(p)), len(p) > 0, {'sweep_event'})
            n_evt += 1
    for sub in range(256):
        if sub in hci.HCI_LE_Meta_Event.subevent_classes:
            continue
        for p in (b'', b'\xa5', long[:254]):
            judge_unknown(ctx, 'subevent', sub, p)
            ctx.case(('sweep_s', sub, len(p)), len(p) > 0, {'sweep_subevent'})
            n_sub += 1
    known_ops = hci.HCI_Command.command_classes
    edge = {0, 1, 2, 0x3FE, 0x3FF}
    for op in range(0x10000):
        if op in known_ops:
            continue
        if ctx.quick:
            if (op & 0x3FF) not in edge and op % 61:
                continue
        elif op % ctx.nshards != ctx.shard:
            continue
        p = (b'', b'\x5a', long)[op % 3]
        judge_unknown(ctx, 'command', op, p)
        ctx.case(('sweep_c', op), len(p) > 0, {'sweep_opcode'})
        n_op += 1
    return n_evt, n_sub, n_op


# --- repeated groups filled up to what the packet can hold -----------------------------------
@st.composite
def full_group_fields(draw, fields, budget: int = 255, prefix: bytes = b''):
    """specgen.fields_strategy with the item count of every repeated group taken from the top of its
    range: as many items as still fit (the other fields keep their minimum), one fewer, 128, 7."""
    values, expected, wire, counts = {}, {}, b'', []
    flat = list(fields)
    tail_need = [0] * (len(flat) + 1)
    for i in range(len(flat) - 1, -1, -1):
        tail_need[i] = tail_need[i + 1] + specgen.group_min_size(flat[i])
    for i, f in enumerate(flat):
        last = i == len(flat) - 1
        room = budget - len(wire) - tail_need[i + 1]
        if isinstance(f, list):
            sub_min = [specgen.min_size(s) for _, s in f]
            item_min = sum(sub_min)
            max_items = max(0, min(255, (room - 1) // max(1, item_min)))
            count = draw(st.sampled_from(sorted({max_items, max(0, max_items - 1), min(max_items, 128), min(max_items, 7)})))
            counts.append(count)
            for name, _ in f:
                values[name], expected[name] = [], []
            wire += bytes([count])
            for j in range(count):
                for k, (name, s) in enumerate(f):
                    reserve = tail_need[i + 1] + (count - j - 1) * item_min + sum(sub_min[k + 1 :])
                    if specgen.classify(s)[0] in ('var', 'nested'):
                        # keep variable-size items small so that the count, not one item, fills the packet
                        budget_here = min(budget - len(wire) - reserve, sub_min[k] + 2)
                    else:
                        budget_here = budget - len(wire) - reserve
                    v, w, e = draw(specgen.field_value(s, prefix + wire, budget_here, False))
                    values[name].append(v)
                    expected[name].append(e)
                    wire += w
            continue
        name, s = f
        if specgen.classify(s)[0] in ('var', 'rest', 'lpbytes'):
            room = min(room, specgen.min_size(s) + 2)
        v, w, e = draw(specgen.field_value(s, prefix + wire, room, last))
        values[name], expected[name] = v, e
        wire += w
    return values, wire, expected, counts


def _has_group(fields) -> bool:
    return any(isinstance(f, list) for f in fields)


def run_full_groups(ctx, n):
    classes = 0
    for kind, registry in ((CMD, hci.HCI_Command.command_classes), (EVT, hci.HCI_Event.event_classes),
                           (LE, hci.HCI_LE_Meta_Event.subevent_classes)):
        for code in sorted(registry):
            cls = registry[code]
            if cls in SPECIAL or not _has_group(cls.fields):
                continue
            classes += 1

            def one(drawn, kind=kind, cls=cls, code=code):
                values, wire, expected, counts = drawn
                packet = header(kind, code, wire) + wire
                case = {'kind': 'packet', 'packet': packet}
                check_packet(ctx, kind, cls, packet, values, expected, case)
                labels = {'full_group'} | ({'full_group_ge32'} if max(counts) >= 32 else set())
                ctx.case((cls.__name__, wire), nontrivial(wire), labels, sample={'class': cls.__name__, 'packet': packet.hex()})

            ctx.hyp(f'full/{cls.__name__}', one, full_group_fields(cls.fields, 255 - (1 if kind == LE else 0)), max_examples=n)
    for code in sorted(hci.HCI_Command.command_classes):
        cmd = hci.HCI_Command.command_classes[code]
        rp = getattr(cmd, 'return_parameters_class', None)
        if rp is None or not issubclass(cmd, hci.HCI_SyncCommand) or not _has_group(rp.fields) or has_custom_return_codec(cmd, rp):
            continue
        if not issubclass(rp, hci.HCI_StatusReturnParameters):
            raise HarnessError(f'{rp.__name__}: repeated group in return parameters without a status')
        classes += 1

        def one_rp(drawn, cmd=cmd, rp=rp, code=code):
            values, wire, expected, counts = drawn
            rp_wire = b'\x00' + wire
            body_wire = b'\x01' + code.to_bytes(2, 'little') + rp_wire
            packet = header(EVT, hci.HCI_COMMAND_COMPLETE_EVENT, body_wire) + body_wire
            v = {'num_hci_command_packets': 1, 'command_opcode': code, 'return_parameters': rp(status=hci.HCI_ErrorCode(0), **values)}
            e = {'num_hci_command_packets': 1, 'command_opcode': code, 'return_parameters': rp(status=hci.HCI_ErrorCode(0), **expected)}
            case = {'kind': 'packet', 'packet': packet}
            check_packet(ctx, CC, hci.HCI_Command_Complete_Event, packet, v, e, case)
            labels = {'full_group', 'full_group_cc'} | ({'full_group_ge32'} if max(counts) >= 32 else set())
            ctx.case((cmd.__name__, 'cc', rp_wire, 1), True, labels, sample={'command_complete_for': cmd.__name__, 'packet': packet.hex()})

        ctx.hyp(f'full/cc/{cmd.__name__}', one_rp, full_group_fields(rp.fields[1:], 251, prefix=b'\x00'), max_examples=n)
    return classes


# --- classes registered AFTER packets with their code were already parsed (a vendor module imported late, an
# application declaring its own vendor command/event with the public decorators) ---
def late_strategy():
    return st.fixed_dictionaries(
        {
            'kind': st.just('late'),
            'ocf': st.integers(0x300, 0x3FF),       # vendor OGF 0x3F, OCFs none of the shipped vendor modules use
            'event_code': st.sampled_from([0xE1, 0xE7, 0xF3, 0xFD]),  # unassigned event codes
            'early': st.lists(st.sampled_from(['cc', 'cc_error', 'command', 'status', 'event']), max_size=4),
            'status': st.sampled_from([0, 0, 1, 0x0C, 0xFF]),
            'a': st.sampled_from([0, 1, 0xFFFF, 0x8000]) | st.integers(0, 0xFFFF),
            'b': st.sampled_from([0, 0xFFFFFFFF, 0x80000000]) | st.integers(0, 0xFFFFFFFF),
            'c': st.sampled_from([-128, -1, 0, 127]) | st.integers(-128, 127),
            'tail': st.binary(max_size=12),
        }
    )


def run_late_case(ctx, case) -> None:
    op = hci.hci_vendor_command_op_code(case['ocf'])
    code = case['event_code']
    if op in hci.HCI_Command.command_classes or code in hci.HCI_Event.event_classes:
        raise HarnessError(f'late registration: opcode {op:#06x} / event code {code:#04x} is already registered')
    plain = {k: (list(v) if isinstance(v, list) else v) for k, v in case.items()}
    labels = {'late_registration'}
    saved_names = (dict(hci.HCI_Command.command_names), dict(hci.HCI_Event.event_names))

    def fail(sig, what):
        ctx.fail(sig, what, plain)

    # (a Command Complete with an error status carries the status only - as in the main family - so the typed one is a success)
    rp_body = b'\x00' + struct.pack('<HIb', case['a'], case['b'], case['c'])
    cc_raw = bytes([0x04, 0x0E, 3 + len(rp_body), 1]) + op.to_bytes(2, 'little') + rp_body
    cmd_raw = bytes([0x01]) + op.to_bytes(2, 'little') + bytes([3 + len(case['tail'])]) + struct.pack('<BH', case['a'] & 0xFF, case['a']) + case['tail']
    evt_raw = bytes([0x04, code, 5 + len(case['tail'])]) + struct.pack('<BI', case['status'], case['b']) + case['tail']
    try:
        # 1. before the registration: carried as generic packets, bytes preserved
        for what in case['early']:
            labels.add(f'late_early:{what}')
            if what in ('cc', 'cc_error'):
                raw = cc_raw if what == 'cc' else bytes([0x04, 0x0E, 4, 1]) + op.to_bytes(2, 'little') + b'\x01'
            elif what == 'command':
                raw = cmd_raw
            elif what == 'event':
                raw = evt_raw
            else:
                raw = bytes([0x04, 0x0F, 4, case['status'], 1]) + op.to_bytes(2, 'little')
            try:
                got = bytes(hci.HCI_Packet.from_bytes(raw))
            except Exception as e:  # noqa: BLE001
                fail(f'late/early_raises/{what}/{type(e).__name__}', f'{raw.hex()} with a not yet registered code raised {e!r}')
                return
            if got != raw:
                fail(f'late/early_bytes/{what}', f'{raw.hex()} with a not yet registered code re-serialises to {got.hex()}')
                return

        # 2. the registration, with the public decorators (what bumble/vendor/* do at import time)
        cname = f'HCI_VERIF_LATE_{op:04X}_COMMAND'
        ename = f'HCI_VERIF_LATE_{code:02X}_EVENT'
        hci.HCI_Command.register_commands({cname: op})
        hci.HCI_Event.register_events({ename: code})

        @dataclasses.dataclass
        class RP(hci.HCI_StatusReturnParameters):
            a: int = hci.field(metadata=hci.metadata(2))
            b: int = hci.field(metadata=hci.metadata(4))
            c: int = hci.field(metadata=hci.metadata(-1))

        @hci.HCI_SyncCommand.sync_command(RP)
        @dataclasses.dataclass
        class Cmd(hci.HCI_SyncCommand[RP]):
            name = cname
            op_code = op
            x: int = dataclasses.field(metadata=hci.metadata(1))
            y: int = dataclasses.field(metadata=hci.metadata(2))
            tail: bytes = dataclasses.field(metadata=hci.metadata('*'))

        @hci.HCI_Event.event
        @dataclasses.dataclass
        class Evt(hci.HCI_Event):
            name = ename
            event_code = code
            status: int = dataclasses.field(metadata=hci.metadata(1))
            b: int = dataclasses.field(metadata=hci.metadata(4))
            tail: bytes = dataclasses.field(metadata=hci.metadata('*'))

        # 3. from now on: fields -> bytes -> packet of the same kind with the same fields; bytes -> same bytes
        units = [
            ('command', Cmd, cmd_raw, lambda: Cmd(x=case['a'] & 0xFF, y=case['a'], tail=case['tail']),
             lambda pkt: {'x': pkt.x, 'y': pkt.y, 'tail': bytes(pkt.tail)}, {'x': case['a'] & 0xFF, 'y': case['a'], 'tail': case['tail']}),
            ('event', Evt, evt_raw, lambda: Evt(status=case['status'], b=case['b'], tail=case['tail']),
             lambda pkt: {'status': int(pkt.status), 'b': pkt.b, 'tail': bytes(pkt.tail)},
             {'status': case['status'], 'b': case['b'], 'tail': case['tail']}),
            ('command_complete', hci.HCI_Command_Complete_Event, cc_raw,
             lambda: hci.HCI_Command_Complete_Event(num_hci_command_packets=1, command_opcode=op,
                                                    return_parameters=RP(status=hci.HCI_ErrorCode(0), a=case['a'], b=case['b'], c=case['c'])),
             lambda pkt: {'rp': type(pkt.return_parameters).__name__, 'status': int(getattr(pkt.return_parameters, 'status', -1)),
                          'a': getattr(pkt.return_parameters, 'a', None), 'b': getattr(pkt.return_parameters, 'b', None),
                          'c': getattr(pkt.return_parameters, 'c', None)},
             {'rp': 'RP', 'status': 0, 'a': case['a'], 'b': case['b'], 'c': case['c']}),
        ]
        for what, cls, raw, build, view, want in units:
            try:
                built = bytes(build())
            except Exception as e:  # noqa: BLE001
                fail(f'late/encode_raises/{what}/{type(e).__name__}', f'building the late-registered {what} raised {e!r}')
                continue
            if built != raw:
                fail(f'late/encode/{what}', f'late-registered {what} built from fields serialises to {built.hex()}, expected {raw.hex()}')
                continue
            try:
                parsed = hci.HCI_Packet.from_bytes(raw)
                got = view(parsed) if type(parsed) is cls else None
                again = bytes(parsed)
            except Exception as e:  # noqa: BLE001
                fail(f'late/decode_raises/{what}/{type(e).__name__}', f'parsing {raw.hex()} after its class was registered raised {e!r}')
                continue
            if type(parsed) is not cls:
                fail(f'late/decode_class/{what}', f'{raw.hex()} parsed as {type(parsed).__name__} after {cls.__name__} was registered'
                     f' ({len(case["early"])} packet(s) with the code parsed before the registration)')
            elif got != want:
                fail(f'late/decode_fields/{what}', f'{raw.hex()} parsed after the registration gives {got}, expected {want}'
                     f' ({len(case["early"])} packet(s) with the code parsed before the registration)')
            elif again != raw:
                fail(f'late/reencode/{what}', f'{raw.hex()} parsed after the registration re-serialises to {again.hex()}')
    finally:
        hci.HCI_Command.command_classes.pop(op, None)
        hci.HCI_Event.event_classes.pop(code, None)
        hci.HCI_Command.command_names.clear()
        hci.HCI_Command.command_names.update(saved_names[0])
        hci.HCI_Event.event_names.clear()
        hci.HCI_Event.event_names.update(saved_names[1])
    ctx.case(('late', plain), True, labels, sample={'late': {k: (v.hex() if isinstance(v, bytes) else v) for k, v in plain.items()}})


def run_late(ctx, n) -> None:
    ctx.hyp('late_registration', lambda c: run_late_case(ctx, c), late_strategy(), max_examples=n)


def run(ctx) -> None:
    per_class = ctx.n(60, 1500)
    c = run_registry(ctx, CMD, hci.HCI_Command.command_classes, per_class)
    e = run_registry(ctx, EVT, hci.HCI_Event.event_classes, per_class)
    s = run_registry(ctx, LE, hci.HCI_LE_Meta_Event.subevent_classes, per_class)
    r = run_command_complete(ctx, max(5, per_class // 3))
    run_unknown(ctx, ctx.n(200, 20000))
    run_data(ctx, ctx.n(400, 40000))
    # extension families
    run_cc_generic(ctx, ctx.n(300, 30000))
    run_vendor_events(ctx, ctx.n(150, 15000))
    n_evt, n_sub, n_op = run_sweeps(ctx)
    g = run_full_groups(ctx, ctx.n(6, 400))
    ctx.extra['sweeps'] = {'unknown_event_cases': n_evt, 'unknown_subevent_cases': n_sub, 'unknown_opcode_cases': n_op}
    ctx.extra['classes_with_repeated_groups'] = g
    run_late(ctx, ctx.n(150, 8000))
    run_fuzz(ctx)
    ctx.extra['classes_registered'] = {
        'commands': len(hci.HCI_Command.command_classes),
        'events': len(hci.HCI_Event.event_classes),
        'le_subevents': len(hci.HCI_LE_Meta_Event.subevent_classes),
        'return_parameter_classes': r,
    }
    ctx.extra['classes_covered'] = {'commands': c, 'events': e, 'le_subevents': s, 'return_parameter_classes': r}
    if (c, e, s) != (len(hci.HCI_Command.command_classes), len(hci.HCI_Event.event_classes), len(hci.HCI_LE_Meta_Event.subevent_classes)):
        raise HarnessError('not every registered class was covered')
    for label in ('acl', 'sco', 'iso', 'iso_ts', 'iso_psf1', 'iso_psf2', 'unknown_opcode', 'unknown_event',
                  'unknown_subevent', 'vendor_event', 'cc_success', 'cc_error_status', 'spec:nested', 'spec:enum',
                  'spec:var', 'spec:rest', 'spec:bytes', 'spec:sint', 'spec:address_preceded'):
        ctx.floor(label, 5)
    # extension: classes that must not silently vanish
    if g < 10:
        raise HarnessError(f'only {g} classes with a repeated group were found')
    for label in ('vendor_command', 'vendor_cc', 'vcaps_full', 'vcaps_status_only', 'vcaps_layout15', 'vcaps_layout9',
                  'vcaps_layout16', 'vcaps_layout21', 'vendor_bqr', 'vendor_bqr_other_id', 'vendor_declined',
                  'cc_generic_nop', 'cc_generic_async', 'cc_generic_unknown',
                  'opaque_ref:CodingFormat', 'opaque_ref:random_address', 'full_group_cc'):
        ctx.floor(label, 3)
    ctx.floor('vendor_declined_empty', 1)
    for label in ('late_registration', 'late_early:cc', 'late_early:command', 'late_early:event', 'late_early:status'):
        ctx.floor(label, 5)
    ctx.floor('plain_int_enum', 500)
    ctx.floor('full_group', 60)
    ctx.floor('full_group_ge32', 15)
    ctx.floor('sweep_event', n_evt)
    ctx.floor('sweep_subevent', n_sub)
    ctx.floor('sweep_opcode', 1000)
    if min(n_evt, n_sub) < 300:
        raise HarnessError('the 8-bit code sweeps shrank')
    if ctx.labels.get('opaque_unreferenced', 0):
        ctx.notes.append(f"{ctx.labels['opaque_unreferenced']} cases had an opaque field spec without a harness-side reference")


# ---------------------------------------------------------------------------
def replay(ctx, case) -> None:
    """Re-check one packet given as bytes: reference-decode it, then run all clauses."""
    if case.get('kind') == 'late':
        run_late_case(ctx, case)
        return
    if case.get('kind') == 'fuzz':
        from vlib.fuzz import FuzzViolation

        ctx.case(('replay', case['data']), True, {'replay'})
        try:
            fuzz_hci(case['data'])
        except FuzzViolation as v:
            ctx.fail(v.signature, v.what, case)
        return
    packet = case['packet']
    t = packet[0]
    ctx.case(('replay', packet), True, {'replay'})
    if t == 0x01:
        op = int.from_bytes(packet[1:3], 'little')
        cls = hci.HCI_Command.command_classes.get(op)
        body = packet[4:]
        kind = CMD
    elif t == 0x04 and packet[1] == 0x3E:
        cls = hci.HCI_LE_Meta_Event.subevent_classes.get(packet[3])
        body = packet[4:]
        kind = LE
    elif t == 0x04 and packet[1] == 0xFF and not case.get('no_factories'):
        judge_vendor_event(ctx, packet, case)
        return
    elif t == 0x04:
        cls = hci.HCI_Event.event_classes.get(packet[1])
        body = packet[3:]
        kind = EVT
    else:
        return _replay_data(ctx, case, packet)
    if cls is None:
        # unregistered code: the generic-packet clauses
        if kind == CMD:
            judge_unknown(ctx, 'command', op, body)
        elif kind == LE:
            judge_unknown(ctx, 'subevent', packet[3], body)
        else:
            judge_unknown(ctx, 'event', packet[1], body)
        return
    saved_factories = list(hci.HCI_Event.vendor_factories)
    if case.get('no_factories'):
        hci.HCI_Event.vendor_factories.clear()
    try:
        _replay_registered(ctx, case, packet, kind, cls, body)
    finally:
        hci.HCI_Event.vendor_factories[:] = saved_factories


def _replay_registered(ctx, case, packet, kind, cls, body) -> None:
    if cls is hci.HCI_Command_Complete_Event:
        op = int.from_bytes(body[1:3], 'little')
        if cc_is_generic(op):
            judge_cc_generic(ctx, packet, case)
            return
        cmd = hci.HCI_Command.command_classes[op]
        if cmd is VCAPS:
            judge_vcaps(ctx, packet, case)
            return
        rp = cmd.return_parameters_class
        if issubclass(rp, hci.HCI_StatusReturnParameters) and body[3] != 0:
            rpo = hci.HCI_StatusReturnParameters(status=hci.HCI_ErrorCode(body[3]))
        else:
            vals, _ = specgen.decode_fields(rp.fields, body, 3)
            rpo = rp(**vals)
        v = {'num_hci_command_packets': body[0], 'command_opcode': op, 'return_parameters': rpo}
        check_packet(ctx, CC, cls, packet, v, v, case)
        return
    if cls in SPECIAL:
        v = decode_special(cls, body)
    else:
        v, _ = specgen.decode_fields(cls.fields, body, 0)
    if check_packet(ctx, kind, cls, packet, v, v, case) and cls not in SPECIAL:
        check_opaque_reference(ctx, cls, packet, len(packet) - len(body), case)


def _replay_data(ctx, case, packet):
    t = packet[0]
    if t == 0x05:
        I = hci.HCI_IsoDataPacket
        p = hci.HCI_Packet.from_bytes(packet)
        again = bytes(I(connection_handle=p.connection_handle, data_total_length=p.data_total_length,
                        iso_sdu_fragment=p.iso_sdu_fragment, pb_flag=p.pb_flag, time_stamp=p.time_stamp,
                        packet_sequence_number=p.packet_sequence_number, iso_sdu_length=p.iso_sdu_length,
                        packet_status_flag=p.packet_status_flag))
        h = int.from_bytes(packet[1:3], 'little')
        first = ((h >> 12) & 1) == 0
        if first:
            o = 5 + (4 if (h >> 14) & 1 else 0)
            word = int.from_bytes(packet[o + 2 : o + 4], 'little')
            if p.packet_status_flag != word >> 14:
                ctx.fail('decode_fields/HCI_IsoDataPacket', f'packet status flag {p.packet_status_flag} != {word >> 14}', case)
                return
        if again != packet:
            ctx.fail('reencode/HCI_IsoDataPacket', f'{again[:16].hex()} != {packet[:16].hex()}', case)
    else:
        p = hci.HCI_Packet.from_bytes(packet)
        if bytes(p) != packet:
            ctx.fail(f'reencode/{type(p).__name__}', 'differs', case)


# ---------------------------------------------------------------------------
# atheris target (thorough tier): normalisation idempotence on arbitrary bytes
# ---------------------------------------------------------------------------
def _rebuild(p):
    cls = type(p)
    if cls is hci.HCI_Command:
        return hci.HCI_Command(p.parameters, op_code=p.op_code)
    if cls is hci.HCI_Event:
        return hci.HCI_Event(p.parameters, event_code=p.event_code)
    if cls is hci.HCI_LE_Meta_Event:
        return hci.HCI_LE_Meta_Event(subevent_code=p.subevent_code, parameters=p.parameters)
    if cls is hci.HCI_AclDataPacket:
        return cls(p.connection_handle, p.pb_flag, p.bc_flag, p.data_total_length, p.data)
    if cls is hci.HCI_SynchronousDataPacket:
        return cls(p.connection_handle, p.packet_status, p.data_total_length, p.data)
    if cls is hci.HCI_IsoDataPacket:
        return cls(connection_handle=p.connection_handle, data_total_length=p.data_total_length,
                   iso_sdu_fragment=p.iso_sdu_fragment, pb_flag=p.pb_flag, time_stamp=p.time_stamp,
                   packet_sequence_number=p.packet_sequence_number, iso_sdu_length=p.iso_sdu_length,
                   packet_status_flag=p.packet_status_flag)
    return cls(**{n: getattr(p, n) for n in names_of(cls)})


def fuzz_hci(data: bytes) -> None:
    """Arbitrary bytes are not known to be well-formed, so only normalisation idempotence is
    asserted: if parse(b) succeeds, b1 = bytes(rebuild(parse(b))) must parse to the same class
    and field values, and re-serialise to b1 again (a fixed point after one step)."""
    from vlib.fuzz import FuzzViolation

    try:
        p = hci.HCI_Packet.from_bytes(bytes(data))
    except Exception:
        return
    if isinstance(p, hci.HCI_CustomPacket):
        return
    try:
        b1 = bytes(_rebuild(p))
    except Exception:
        return  # parsed values that cannot be re-serialised (out of the well-formed domain)
    try:
        p2 = hci.HCI_Packet.from_bytes(b1)
        b2 = bytes(_rebuild(p2))
    except Exception as e:
        raise FuzzViolation(f'fuzz/normalised_not_parseable/{type(p).__name__}', f'{b1.hex()}: {e!r}')
    if type(p2) is not type(p):
        raise FuzzViolation(f'fuzz/class_changes/{type(p).__name__}', f'{b1.hex()} parses as {type(p2).__name__}')
    if b2 != b1:
        raise FuzzViolation(f'fuzz/not_idempotent/{type(p).__name__}', f'{b1.hex()} -> {b2.hex()}')


def run_fuzz(ctx) -> None:
    from vlib import fuzz

    if ctx.quick or ctx.shard >= 4:
        return
    seeds = [
        bytes.fromhex('01030c00'), bytes.fromhex('040e0401030c00'), bytes.fromhex('043e13010001000001f0f1f2f3f4f50600000048000'[:42]),
        bytes.fromhex('0201200600020004000a03'), bytes.fromhex('05012008000100000002000180'),
    ] if ctx.shard % 2 == 0 else []  # odd shards start from an empty corpus
    r = fuzz.campaign(ctx, 'checks.c01_hci_codec', 'fuzz_hci', runs=400000, max_len=300, seeds=seeds,
                      name=f'hci_s{ctx.shard}')
    ctx.extra.setdefault('fuzz', {})[f'shard{ctx.shard}'] = {k: r[k] for k in ('status', 'executions')}
    ctx.extra['sum_fuzz_executions'] = ctx.extra.get('sum_fuzz_executions', 0) + r['executions']
    for sig, what, data in r['crashes']:
        ctx.fail(sig, what, {'kind': 'fuzz', 'data': data})
