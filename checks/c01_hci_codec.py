"""
C01 - HCI packets survive serialise/parse unchanged, for every packet class.

Every class registered in HCI_Command.command_classes / HCI_Event.event_classes /
HCI_LE_Meta_Event.subevent_classes (+ every sync command's return-parameter class inside a
Command Complete event) is enumerated at run time; field values are drawn by the spec-driven
generator (vlib/specgen.py) together with a reference wire encoding computed by the harness.
ACL / SCO / ISO data packets, vendor events and unregistered codes have their own strategies.
"""

from __future__ import annotations

import struct

from hypothesis import strategies as st

from bumble import hci
from vlib import specgen
from vlib.runner import HarnessError

PROPERTY = 'C01'
LEVEL = 'exploration'
RULE = (
    'registry enumerated at run time (every registered command, event, LE sub-event class, every '
    'return-parameter class, data packets, vendor events, unregistered codes); per class field values '
    'drawn boundary-biased with a harness-side reference encoding; oracle = fields->bytes equals '
    'reference, bytes->fields equals generated, fresh object rebuilt from parsed fields re-serialises '
    'to the same bytes. non-trivial = packet has >=1 field byte and not all field bytes are zero; '
    'distinct by (class, wire bytes).'
)
ASSUMPTIONS = [
    'well-formed = header length equals body length, repeated groups carry their exact item count, '
    'fixed-size byte fields may be given short (documented zero padding)',
    'ISO Packet_Status_Flag is the Core-spec 2-bit field (bits 14-15 of the SDU-length word)',
    'Command Complete with status != SUCCESS carries the status byte only',
    'values are sampled (boundary-biased); only the class registry is enumerated exhaustively',
]

CMD, EVT, LE, CC = 'command', 'event', 'le_subevent', 'command_complete'


def header(kind, code, body: bytes) -> bytes:
    if kind == CMD:
        return struct.pack('<BHB', 0x01, code, len(body))
    if kind == EVT:
        return bytes([0x04, code, len(body)])
    if kind == LE:
        return bytes([0x04, 0x3E, len(body) + 1, code])
    raise ValueError(kind)


SPECIAL = {}


def special(cls):
    def deco(fn):
        SPECIAL[cls] = fn
        return fn

    return deco


@special(hci.HCI_LE_Set_Extended_Scan_Parameters_Command)
@st.composite
def _ext_scan(draw):
    phys = draw(st.integers(0, 7))
    n = bin(phys).count('1')
    v = {
        'own_address_type': draw(specgen.uint(1)),
        'scanning_filter_policy': draw(specgen.uint(1)),
        'scanning_phys': phys,
        'scan_types': [draw(specgen.uint(1)) for _ in range(n)],
        'scan_intervals': [draw(specgen.uint(2)) for _ in range(n)],
        'scan_windows': [draw(specgen.uint(2)) for _ in range(n)],
    }
    wire = bytes([v['own_address_type'], v['scanning_filter_policy'], phys])
    for i in range(n):
        wire += bytes([v['scan_types'][i]]) + v['scan_intervals'][i].to_bytes(2, 'little') + v['scan_windows'][i].to_bytes(2, 'little')
    return v, wire, v


_ECC_LISTS = [
    'scan_intervals', 'scan_windows', 'connection_interval_mins', 'connection_interval_maxs',
    'max_latencies', 'supervision_timeouts', 'min_ce_lengths', 'max_ce_lengths',
]


@special(hci.HCI_LE_Extended_Create_Connection_Command)
@st.composite
def _ext_create(draw):
    phys = draw(st.integers(0, 7))
    n = bin(phys).count('1')
    pat = draw(specgen.uint(1))
    raw = draw(specgen.nbytes_exact(6))
    v = {
        'initiator_filter_policy': draw(specgen.uint(1)),
        'own_address_type': draw(specgen.uint(1)),
        'peer_address_type': pat,
        'peer_address': hci.Address(raw, hci.AddressType(pat)),
        'initiating_phys': phys,
    }
    for name in _ECC_LISTS:
        v[name] = [draw(specgen.uint(2)) for _ in range(n)]
    wire = bytes([v['initiator_filter_policy'], v['own_address_type'], pat]) + raw + bytes([phys])
    for i in range(n):
        for name in _ECC_LISTS:
            wire += v[name][i].to_bytes(2, 'little')
    return v, wire, v


def decode_special(cls, body: bytes):
    if cls is hci.HCI_LE_Set_Extended_Scan_Parameters_Command:
        n = bin(body[2]).count('1')
        v = {'own_address_type': body[0], 'scanning_filter_policy': body[1], 'scanning_phys': body[2],
             'scan_types': [], 'scan_intervals': [], 'scan_windows': []}
        for i in range(n):
            o = 3 + 5 * i
            v['scan_types'].append(body[o])
            v['scan_intervals'].append(int.from_bytes(body[o + 1 : o + 3], 'little'))
            v['scan_windows'].append(int.from_bytes(body[o + 3 : o + 5], 'little'))
        return v
    if cls is hci.HCI_LE_Extended_Create_Connection_Command:
        n = bin(body[9]).count('1')
        v = {'initiator_filter_policy': body[0], 'own_address_type': body[1], 'peer_address_type': body[2],
             'peer_address': hci.Address(body[3:9], hci.AddressType(body[2])), 'initiating_phys': body[9]}
        for name in _ECC_LISTS:
            v[name] = []
        o = 10
        for _ in range(n):
            for name in _ECC_LISTS:
                v[name].append(int.from_bytes(body[o : o + 2], 'little'))
                o += 2
        return v
    raise KeyError(cls)


def names_of(cls):
    if cls in SPECIAL:
        if cls is hci.HCI_LE_Set_Extended_Scan_Parameters_Command:
            return ['own_address_type', 'scanning_filter_policy', 'scanning_phys', 'scan_types', 'scan_intervals', 'scan_windows']
        return ['initiator_filter_policy', 'own_address_type', 'peer_address_type', 'peer_address', 'initiating_phys'] + _ECC_LISTS
    return list(specgen.flat_names(cls.fields))


def has_custom_codec(cls, base) -> bool:
    """A class whose wire rules the field list alone does not express."""
    for attr in ('from_parameters', 'parameters', '__bytes__'):
        for k in cls.__mro__:
            if k is base or k in (hci.HCI_Event, hci.HCI_Extended_Event, hci.HCI_LE_Meta_Event, hci.HCI_Command,
                                  hci.HCI_SyncCommand, hci.HCI_AsyncCommand, hci.HCI_Packet, object):
                break
            if attr in k.__dict__:
                return True
    return False


# ---------------------------------------------------------------------------
# the oracle, from a full packet + expected values
# ---------------------------------------------------------------------------
def check_packet(ctx, kind, cls, packet: bytes, values: dict, expected: dict, case) -> bool:
    name = cls.__name__
    # clause 1: fields -> bytes equals the reference encoding
    try:
        built = bytes(cls(**values))
    except Exception as e:
        ctx.fail(f'encode_raises/{name}/{type(e).__name__}', f'building {name} from in-range field values raised {e!r}', case)
        return False
    if built != packet:
        ctx.fail(f'encode/{name}', f'{name} serialises to {built.hex()} but the wire format is {packet.hex()}', case)
        return False
    # clause 2: bytes -> fields
    try:
        parsed = hci.HCI_Packet.from_bytes(packet)
    except Exception as e:
        ctx.fail(f'decode_raises/{name}/{type(e).__name__}', f'parsing a well-formed {name} raised {e!r}', case)
        return False
    if type(parsed) is not cls:
        ctx.fail(f'decode_class/{name}', f'parsed as {type(parsed).__name__}', case)
        return False
    bad = specgen.diff_fields(parsed, expected)
    if bad:
        ctx.fail(f'decode_fields/{name}', f'fields {bad} differ after parsing {packet.hex()}', case)
        return False
    # clause 3: parsed packet re-serialises to the same bytes (cached and cache-defeated)
    try:
        again = bytes(parsed)
        rebuilt = bytes(cls(**{n: getattr(parsed, n) for n in names_of(cls)}))
    except Exception as e:
        ctx.fail(f'reencode_raises/{name}/{type(e).__name__}', f're-serialising a parsed {name} raised {e!r}', case)
        return False
    if again != packet or rebuilt != packet:
        ctx.fail(f'reencode/{name}', f'parsed {name} re-serialises to {rebuilt.hex()} instead of {packet.hex()}', case)
        return False
    return True


def nontrivial(wire: bytes) -> bool:
    return len(wire) > 0 and any(wire)


# ---------------------------------------------------------------------------
def run_registry(ctx, kind, registry, per_class):
    covered = 0
    for code in sorted(registry):
        cls = registry[code]
        if kind == EVT and cls in (hci.HCI_Command_Complete_Event, hci.HCI_Vendor_Event, hci.HCI_LE_Meta_Event):
            covered += 1  # dedicated strategies below
            continue
        if cls in SPECIAL:
            strat = SPECIAL[cls]()
        else:
            base = {CMD: hci.HCI_Command, EVT: hci.HCI_Event, LE: hci.HCI_LE_Meta_Event}[kind]
            if has_custom_codec(cls, base):
                raise HarnessError(f'{cls.__name__} has its own codec and no dedicated strategy')
            try:
                budget = 255 - (1 if kind == LE else 0)
                strat = specgen.fields_strategy(cls.fields, budget)
                kinds = [specgen.classify(s)[0] for s in _specs(cls.fields)]
            except specgen.UnknownSpec as e:
                raise HarnessError(f'{cls.__name__}: unknown field spec {e}')
            for k in kinds:
                ctx.labels['spec:' + k] += 0  # make the key exist

        def one(drawn, cls=cls, code=code):
            values, wire, expected = drawn
            packet = header(kind, code, wire) + wire
            case = {'kind': 'packet', 'packet': packet}
            check_packet(ctx, kind, cls, packet, values, expected, case)
            labels = [kind]
            if cls not in SPECIAL:
                labels += ['spec:' + specgen.classify(s)[0] for s in _specs(cls.fields)]
            ctx.case((cls.__name__, wire), nontrivial(wire), set(labels), sample={'class': cls.__name__, 'packet': packet.hex()})

        try:
            ctx.hyp(f'{kind}/{cls.__name__}', one, strat, max_examples=per_class)
        except specgen.UnknownSpec as e:
            raise HarnessError(f'{cls.__name__}: {e}')
        covered += 1
    return covered


def _specs(fields):
    for f in fields:
        if isinstance(f, list):
            for _, s in f:
                yield s
        else:
            yield f[1]


def run_command_complete(ctx, per_class):
    n = 0
    for code in sorted(hci.HCI_Command.command_classes):
        cmd = hci.HCI_Command.command_classes[code]
        rp = getattr(cmd, 'return_parameters_class', None)
        if rp is None or not issubclass(cmd, hci.HCI_SyncCommand):
            continue
        n += 1
        status_first = issubclass(rp, hci.HCI_StatusReturnParameters)
        try:
            if status_first:
                body = specgen.fields_strategy(rp.fields[1:], 251, prefix=b'\x00')
            else:
                body = specgen.fields_strategy(rp.fields, 252)
        except specgen.UnknownSpec as e:
            raise HarnessError(f'{rp.__name__}: {e}')
        strat = st.tuples(specgen.uint(1), st.sampled_from([0, 0, 0, 1, 0x0C, 0x12, 0xFF]), body)

        def one(drawn, cmd=cmd, rp=rp, code=code, status_first=status_first):
            ncmd, status, (values, wire, expected) = drawn
            labels = {CC}
            if status_first:
                if status == 0:
                    rp_in = rp(status=hci.HCI_ErrorCode(0), **values)
                    rp_exp = rp(status=hci.HCI_ErrorCode(0), **expected)
                    rp_wire = b'\x00' + wire
                    labels.add('cc_success')
                else:
                    rp_in = rp_exp = hci.HCI_StatusReturnParameters(status=hci.HCI_ErrorCode(status))
                    rp_wire = bytes([status])
                    labels.add('cc_error_status')
            else:
                rp_in, rp_exp, rp_wire = rp(**values), rp(**expected), wire
                labels.add('cc_no_status')
            body_wire = bytes([ncmd]) + code.to_bytes(2, 'little') + rp_wire
            packet = header(EVT, hci.HCI_COMMAND_COMPLETE_EVENT, body_wire) + body_wire
            v = {'num_hci_command_packets': ncmd, 'command_opcode': code, 'return_parameters': rp_in}
            e = {'num_hci_command_packets': ncmd, 'command_opcode': code, 'return_parameters': rp_exp}
            case = {'kind': 'packet', 'packet': packet}
            ok = check_packet(ctx, CC, hci.HCI_Command_Complete_Event, packet, v, e, case)
            if ok:
                parsed = hci.HCI_Packet.from_bytes(packet)
                if type(parsed.return_parameters) is not type(rp_exp):
                    ctx.fail(
                        f'decode_class/return_parameters/{cmd.__name__}',
                        f'return parameters parsed as {type(parsed.return_parameters).__name__}, expected {type(rp_exp).__name__}',
                        case,
                    )
            ctx.case((cmd.__name__, 'cc', rp_wire, ncmd), nontrivial(rp_wire), labels,
                     sample={'command_complete_for': cmd.__name__, 'packet': packet.hex()})

        ctx.hyp(f'cc/{cmd.__name__}', one, strat, max_examples=per_class)
    return n


def run_unknown(ctx, n):
    known_ops = set(hci.HCI_Command.command_classes)
    known_evts = set(hci.HCI_Event.event_classes) | {0x3E, 0xFF}
    known_sub = set(hci.HCI_LE_Meta_Event.subevent_classes)
    params = st.one_of(st.just(b''), st.binary(max_size=8), st.binary(min_size=255, max_size=255), st.binary(max_size=255))

    def unk_cmd(d):
        op, p = d
        packet = header(CMD, op, p) + p
        case = {'kind': 'packet', 'packet': packet}
        ok = True
        try:
            parsed = hci.HCI_Packet.from_bytes(packet)
            if type(parsed) is not hci.HCI_Command or parsed.op_code != op or parsed.parameters != p:
                ctx.fail('unknown/command_not_generic', f'unknown opcode 0x{op:04x} not carried as a generic command with its parameters', case)
                ok = False
            elif bytes(parsed) != packet or bytes(hci.HCI_Command(parsed.parameters, op_code=parsed.op_code)) != packet:
                ctx.fail('unknown/command_reencode', 'generic command does not re-serialise to the same bytes', case)
        except Exception as e:
            ctx.fail(f'unknown/command_raises/{type(e).__name__}', f'unknown opcode 0x{op:04x}: {e!r}', case)
        ctx.case(('uc', op, p), len(p) > 0, {'unknown_opcode'}, sample={'unknown_command': packet.hex()})

    ops = st.integers(0, 0xFFFF).filter(lambda o: o not in known_ops)
    ctx.hyp('unknown/cmd', unk_cmd, st.tuples(st.one_of(ops, st.integers(0xFC00, 0xFFFF).filter(lambda o: o not in known_ops)), params), max_examples=n)

    def unk_evt(d):
        code, p = d
        packet = header(EVT, code, p) + p
        case = {'kind': 'packet', 'packet': packet}
        try:
            parsed = hci.HCI_Packet.from_bytes(packet)
            if type(parsed) is not hci.HCI_Event or parsed.event_code != code or parsed.parameters != p:
                ctx.fail('unknown/event_not_generic', f'unknown event code 0x{code:02x} not carried as a generic event with its parameters', case)
            elif bytes(parsed) != packet or bytes(hci.HCI_Event(parsed.parameters, event_code=parsed.event_code)) != packet:
                ctx.fail('unknown/event_reencode', 'generic event does not re-serialise to the same bytes', case)
        except Exception as e:
            ctx.fail(f'unknown/event_raises/{type(e).__name__}', f'unknown event 0x{code:02x}: {e!r}', case)
        ctx.case(('ue', code, p), len(p) > 0, {'unknown_event'}, sample={'unknown_event': packet.hex()})

    ctx.hyp('unknown/evt', unk_evt, st.tuples(st.integers(0, 0xFF).filter(lambda c: c not in known_evts), params), max_examples=n)

    def unk_sub(d):
        sub, p = d
        p = p[:254]
        body = bytes([sub]) + p
        packet = header(EVT, 0x3E, body) + body
        case = {'kind': 'packet', 'packet': packet}
        try:
            parsed = hci.HCI_Packet.from_bytes(packet)
            if type(parsed) is not hci.HCI_LE_Meta_Event or parsed.subevent_code != sub or parsed.parameters != body:
                ctx.fail('unknown/subevent_not_generic', f'unknown LE sub-event 0x{sub:02x} not carried as a generic LE meta event', case)
            elif bytes(parsed) != packet or bytes(hci.HCI_LE_Meta_Event(subevent_code=parsed.subevent_code, parameters=parsed.parameters)) != packet:
                ctx.fail('unknown/subevent_reencode', 'generic LE meta event does not re-serialise to the same bytes', case)
        except Exception as e:
            ctx.fail(f'unknown/subevent_raises/{type(e).__name__}', f'unknown sub-event 0x{sub:02x}: {e!r}', case)
        ctx.case(('us', sub, p), len(p) > 0, {'unknown_subevent'}, sample={'unknown_subevent': packet.hex()})

    ctx.hyp('unknown/sub', unk_sub, st.tuples(st.integers(0, 0xFF).filter(lambda c: c not in known_sub), params), max_examples=n)

    def vendor(p):
        packet = header(EVT, 0xFF, p) + p
        case = {'kind': 'packet', 'packet': packet}
        saved = list(hci.HCI_Event.vendor_factories)
        hci.HCI_Event.vendor_factories.clear()
        try:
            parsed = hci.HCI_Packet.from_bytes(packet)
            if type(parsed) is not hci.HCI_Vendor_Event or parsed.data != p:
                ctx.fail('vendor/not_generic', 'vendor event parameters not preserved', case)
            elif bytes(parsed) != packet or bytes(hci.HCI_Vendor_Event(data=parsed.data)) != packet:
                ctx.fail('vendor/reencode', 'vendor event does not re-serialise to the same bytes', case)
        except Exception as e:
            ctx.fail(f'vendor/raises/{type(e).__name__}', repr(e), case)
        finally:
            hci.HCI_Event.vendor_factories[:] = saved
        ctx.case(('v', p), len(p) > 0, {'vendor_event'}, sample={'vendor_event': packet.hex()})

    ctx.hyp('vendor', vendor, params, max_examples=n)


def data_lengths(maxlen):
    return st.one_of(st.sampled_from([0, 1, 2, 27, 251, 255]), st.integers(0, 300), st.just(maxlen)).map(lambda n: min(n, maxlen))


def run_data(ctx, n):
    # --- ACL
    def acl(d):
        handle, pb, bc, data = d
        h = handle | pb << 12 | bc << 14
        packet = bytes([0x02]) + h.to_bytes(2, 'little') + len(data).to_bytes(2, 'little') + data
        case = {'kind': 'packet', 'packet': packet}
        try:
            built = bytes(hci.HCI_AclDataPacket(connection_handle=handle, pb_flag=pb, bc_flag=bc, data_total_length=len(data), data=data))
            p = hci.HCI_Packet.from_bytes(packet)
            got = (type(p).__name__, p.connection_handle, p.pb_flag, p.bc_flag, p.data_total_length, p.data)
            again = bytes(hci.HCI_AclDataPacket(connection_handle=p.connection_handle, pb_flag=p.pb_flag, bc_flag=p.bc_flag, data_total_length=p.data_total_length, data=p.data))
            if built != packet:
                ctx.fail('encode/HCI_AclDataPacket', f'{built[:8].hex()}.. != {packet[:8].hex()}..', case)
            elif got != ('HCI_AclDataPacket', handle, pb, bc, len(data), data):
                ctx.fail('decode_fields/HCI_AclDataPacket', f'{got[:5]}', case)
            elif again != packet or bytes(p) != packet:
                ctx.fail('reencode/HCI_AclDataPacket', 'differs', case)
        except Exception as e:
            ctx.fail(f'raises/HCI_AclDataPacket/{type(e).__name__}', repr(e), case)
        ctx.case(('acl', handle, pb, bc, data), handle != 0 or any(data), {'acl', f'acl_pb{pb}'}, sample={'acl': packet[:40].hex()})

    ctx.hyp(
        'acl', acl,
        st.tuples(st.one_of(st.sampled_from([0, 1, 0xEFF, 0xFFF]), st.integers(0, 0xFFF)), st.integers(0, 3), st.integers(0, 3),
                  st.one_of(data_lengths(1021), st.sampled_from([0xFFFF] if not ctx.quick else [4096])).flatmap(lambda k: st.binary(min_size=k, max_size=k))),
        max_examples=n,
    )

    # --- SCO
    def sco(d):
        handle, status, data = d
        h = handle | status << 12
        packet = bytes([0x03]) + h.to_bytes(2, 'little') + bytes([len(data)]) + data
        case = {'kind': 'packet', 'packet': packet}
        S = hci.HCI_SynchronousDataPacket
        try:
            built = bytes(S(connection_handle=handle, packet_status=S.Status(status), data_total_length=len(data), data=data))
            p = hci.HCI_Packet.from_bytes(packet)
            got = (type(p).__name__, p.connection_handle, int(p.packet_status), p.data_total_length, p.data)
            again = bytes(S(connection_handle=p.connection_handle, packet_status=p.packet_status, data_total_length=p.data_total_length, data=p.data))
            if built != packet:
                ctx.fail('encode/HCI_SynchronousDataPacket', f'{built[:8].hex()} != {packet[:8].hex()}', case)
            elif got != ('HCI_SynchronousDataPacket', handle, status, len(data), data):
                ctx.fail('decode_fields/HCI_SynchronousDataPacket', f'{got[:4]}', case)
            elif again != packet or bytes(p) != packet:
                ctx.fail('reencode/HCI_SynchronousDataPacket', 'differs', case)
        except Exception as e:
            ctx.fail(f'raises/HCI_SynchronousDataPacket/{type(e).__name__}', repr(e), case)
        ctx.case(('sco', handle, status, data), handle != 0 or any(data), {'sco', f'sco_status{status}'}, sample={'sco': packet[:40].hex()})

    ctx.hyp(
        'sco', sco,
        st.tuples(st.one_of(st.sampled_from([0, 0xFFF]), st.integers(0, 0xFFF)), st.integers(0, 3),
                  data_lengths(255).flatmap(lambda k: st.binary(min_size=k, max_size=k))),
        max_examples=n,
    )

    # --- ISO
    def iso(d):
        handle, pb, ts, seq, sdu_len, psf, data = d
        first = pb in (0b00, 0b10)
        if not first:
            ts = None
        body = b''
        if ts is not None:
            body += ts.to_bytes(4, 'little')
        if first:
            body += seq.to_bytes(2, 'little') + (sdu_len | psf << 14).to_bytes(2, 'little')
        body += data
        h = handle | pb << 12 | (1 << 14 if ts is not None else 0)
        packet = bytes([0x05]) + h.to_bytes(2, 'little') + len(body).to_bytes(2, 'little') + body
        case = {'kind': 'packet', 'packet': packet}
        I = hci.HCI_IsoDataPacket
        kw = dict(connection_handle=handle, data_total_length=len(body), iso_sdu_fragment=data, pb_flag=pb, time_stamp=ts)
        if first:
            kw.update(packet_sequence_number=seq, iso_sdu_length=sdu_len, packet_status_flag=psf)
        exp = (handle, len(body), data, pb, ts, seq if first else None, sdu_len if first else None, psf if first else None)
        try:
            built = bytes(I(**kw))
            if built != packet:
                ctx.fail('encode/HCI_IsoDataPacket', f'built {built[:16].hex()} wire {packet[:16].hex()}', case)
            else:
                p = hci.HCI_Packet.from_bytes(packet)
                got = (p.connection_handle, p.data_total_length, p.iso_sdu_fragment, p.pb_flag, p.time_stamp,
                       p.packet_sequence_number, p.iso_sdu_length, p.packet_status_flag)
                if type(p) is not I or got != exp or bool(p.ts_flag) != (ts is not None):
                    ctx.fail('decode_fields/HCI_IsoDataPacket', f'got {got[:2] + got[3:]} expected {exp[:2] + exp[3:]}', case)
                else:
                    again = bytes(I(connection_handle=p.connection_handle, data_total_length=p.data_total_length,
                                    iso_sdu_fragment=p.iso_sdu_fragment, pb_flag=p.pb_flag, time_stamp=p.time_stamp,
                                    packet_sequence_number=p.packet_sequence_number, iso_sdu_length=p.iso_sdu_length,
                                    packet_status_flag=p.packet_status_flag))
                    if again != packet or bytes(p) != packet:
                        ctx.fail('reencode/HCI_IsoDataPacket', f'{again[:16].hex()} != {packet[:16].hex()}', case)
        except Exception as e:
            ctx.fail(f'raises/HCI_IsoDataPacket/{type(e).__name__}', repr(e), case)
        labels = {'iso', f'iso_pb{pb}'}
        if ts is not None:
            labels.add('iso_ts')
        if first:
            labels.add(f'iso_psf{psf}')
        ctx.case(('iso', packet), True, labels, sample={'iso': packet[:40].hex()})

    ctx.hyp(
        'iso', iso,
        st.tuples(
            st.one_of(st.sampled_from([0, 0xEFF, 0xFFF]), st.integers(0, 0xFFF)), st.integers(0, 3),
            st.one_of(st.none(), specgen.uint(4)), specgen.uint(2),
            st.one_of(st.sampled_from([0, 1, 0xFFF]), st.integers(0, 0xFFF)), st.integers(0, 3),
            data_lengths(1021).flatmap(lambda k: st.binary(min_size=k, max_size=k)),
        ),
        max_examples=n,
    )


def run(ctx) -> None:
    per_class = ctx.n(60, 1500)
    c = run_registry(ctx, CMD, hci.HCI_Command.command_classes, per_class)
    e = run_registry(ctx, EVT, hci.HCI_Event.event_classes, per_class)
    s = run_registry(ctx, LE, hci.HCI_LE_Meta_Event.subevent_classes, per_class)
    r = run_command_complete(ctx, max(5, per_class // 3))
    run_unknown(ctx, ctx.n(200, 20000))
    run_data(ctx, ctx.n(400, 40000))
    run_fuzz(ctx)
    ctx.extra['classes_registered'] = {
        'commands': len(hci.HCI_Command.command_classes),
        'events': len(hci.HCI_Event.event_classes),
        'le_subevents': len(hci.HCI_LE_Meta_Event.subevent_classes),
        'return_parameter_classes': r,
    }
    ctx.extra['classes_covered'] = {'commands': c, 'events': e, 'le_subevents': s, 'return_parameter_classes': r}
    if (c, e, s) != (len(hci.HCI_Command.command_classes), len(hci.HCI_Event.event_classes), len(hci.HCI_LE_Meta_Event.subevent_classes)):
        raise HarnessError('not every registered class was covered')
    for label in ('acl', 'sco', 'iso', 'iso_ts', 'iso_psf1', 'iso_psf2', 'unknown_opcode', 'unknown_event',
                  'unknown_subevent', 'vendor_event', 'cc_success', 'cc_error_status', 'spec:nested', 'spec:enum',
                  'spec:var', 'spec:rest', 'spec:bytes', 'spec:sint', 'spec:address_preceded'):
        ctx.floor(label, 5)


# ---------------------------------------------------------------------------
def replay(ctx, case) -> None:
    """Re-check one packet given as bytes: reference-decode it, then run all clauses."""
    if case.get('kind') == 'fuzz':
        from vlib.fuzz import FuzzViolation

        ctx.case(('replay', case['data']), True, {'replay'})
        try:
            fuzz_hci(case['data'])
        except FuzzViolation as v:
            ctx.fail(v.signature, v.what, case)
        return
    packet = case['packet']
    t = packet[0]
    ctx.case(('replay', packet), True, {'replay'})
    if t == 0x01:
        op = int.from_bytes(packet[1:3], 'little')
        cls = hci.HCI_Command.command_classes.get(op)
        body = packet[4:]
        kind = CMD
    elif t == 0x04 and packet[1] == 0x3E:
        cls = hci.HCI_LE_Meta_Event.subevent_classes.get(packet[3])
        body = packet[4:]
        kind = LE
    elif t == 0x04:
        cls = hci.HCI_Event.event_classes.get(packet[1])
        body = packet[3:]
        kind = EVT
    else:
        return _replay_data(ctx, case, packet)
    if cls is None:
        return
    if cls is hci.HCI_Command_Complete_Event:
        op = int.from_bytes(body[1:3], 'little')
        cmd = hci.HCI_Command.command_classes[op]
        rp = cmd.return_parameters_class
        if issubclass(rp, hci.HCI_StatusReturnParameters) and body[3] != 0:
            rpo = hci.HCI_StatusReturnParameters(status=hci.HCI_ErrorCode(body[3]))
        else:
            vals, _ = specgen.decode_fields(rp.fields, body, 3)
            rpo = rp(**vals)
        v = {'num_hci_command_packets': body[0], 'command_opcode': op, 'return_parameters': rpo}
        check_packet(ctx, CC, cls, packet, v, v, case)
        return
    if cls in SPECIAL:
        v = decode_special(cls, body)
    else:
        v, _ = specgen.decode_fields(cls.fields, body, 0)
    check_packet(ctx, kind, cls, packet, v, v, case)


def _replay_data(ctx, case, packet):
    t = packet[0]
    if t == 0x05:
        I = hci.HCI_IsoDataPacket
        p = hci.HCI_Packet.from_bytes(packet)
        again = bytes(I(connection_handle=p.connection_handle, data_total_length=p.data_total_length,
                        iso_sdu_fragment=p.iso_sdu_fragment, pb_flag=p.pb_flag, time_stamp=p.time_stamp,
                        packet_sequence_number=p.packet_sequence_number, iso_sdu_length=p.iso_sdu_length,
                        packet_status_flag=p.packet_status_flag))
        h = int.from_bytes(packet[1:3], 'little')
        first = ((h >> 12) & 1) == 0
        if first:
            o = 5 + (4 if (h >> 14) & 1 else 0)
            word = int.from_bytes(packet[o + 2 : o + 4], 'little')
            if p.packet_status_flag != word >> 14:
                ctx.fail('decode_fields/HCI_IsoDataPacket', f'packet status flag {p.packet_status_flag} != {word >> 14}', case)
                return
        if again != packet:
            ctx.fail('reencode/HCI_IsoDataPacket', f'{again[:16].hex()} != {packet[:16].hex()}', case)
    else:
        p = hci.HCI_Packet.from_bytes(packet)
        if bytes(p) != packet:
            ctx.fail(f'reencode/{type(p).__name__}', 'differs', case)


# ---------------------------------------------------------------------------
# atheris target (thorough tier): normalisation idempotence on arbitrary bytes
# ---------------------------------------------------------------------------
def _rebuild(p):
    cls = type(p)
    if cls is hci.HCI_Command:
        return hci.HCI_Command(p.parameters, op_code=p.op_code)
    if cls is hci.HCI_Event:
        return hci.HCI_Event(p.parameters, event_code=p.event_code)
    if cls is hci.HCI_LE_Meta_Event:
        return hci.HCI_LE_Meta_Event(subevent_code=p.subevent_code, parameters=p.parameters)
    if cls is hci.HCI_AclDataPacket:
        return cls(p.connection_handle, p.pb_flag, p.bc_flag, p.data_total_length, p.data)
    if cls is hci.HCI_SynchronousDataPacket:
        return cls(p.connection_handle, p.packet_status, p.data_total_length, p.data)
    if cls is hci.HCI_IsoDataPacket:
        return cls(connection_handle=p.connection_handle, data_total_length=p.data_total_length,
                   iso_sdu_fragment=p.iso_sdu_fragment, pb_flag=p.pb_flag, time_stamp=p.time_stamp,
                   packet_sequence_number=p.packet_sequence_number, iso_sdu_length=p.iso_sdu_length,
                   packet_status_flag=p.packet_status_flag)
    return cls(**{n: getattr(p, n) for n in names_of(cls)})


def fuzz_hci(data: bytes) -> None:
    """Arbitrary bytes are not known to be well-formed, so only normalisation idempotence is
    asserted: if parse(b) succeeds, b1 = bytes(rebuild(parse(b))) must parse to the same class
    and field values, and re-serialise to b1 again (a fixed point after one step)."""
    from vlib.fuzz import FuzzViolation

    try:
        p = hci.HCI_Packet.from_bytes(bytes(data))
    except Exception:
        return
    if isinstance(p, hci.HCI_CustomPacket):
        return
    try:
        b1 = bytes(_rebuild(p))
    except Exception:
        return  # parsed values that cannot be re-serialised (out of the well-formed domain)
    try:
        p2 = hci.HCI_Packet.from_bytes(b1)
        b2 = bytes(_rebuild(p2))
    except Exception as e:
        raise FuzzViolation(f'fuzz/normalised_not_parseable/{type(p).__name__}', f'{b1.hex()}: {e!r}')
    if type(p2) is not type(p):
        raise FuzzViolation(f'fuzz/class_changes/{type(p).__name__}', f'{b1.hex()} parses as {type(p2).__name__}')
    if b2 != b1:
        raise FuzzViolation(f'fuzz/not_idempotent/{type(p).__name__}', f'{b1.hex()} -> {b2.hex()}')


def run_fuzz(ctx) -> None:
    from vlib import fuzz

    if ctx.quick or ctx.shard >= 4:
        return
    seeds = [
        bytes.fromhex('01030c00'), bytes.fromhex('040e0401030c00'), bytes.fromhex('043e13010001000001f0f1f2f3f4f50600000048000'[:42]),
        bytes.fromhex('0201200600020004000a03'), bytes.fromhex('05012008000100000002000180'),
    ] if ctx.shard % 2 == 0 else []  # odd shards start from an empty corpus
    r = fuzz.campaign(ctx, 'checks.c01_hci_codec', 'fuzz_hci', runs=400000, max_len=300, seeds=seeds,
                      name=f'hci_s{ctx.shard}')
    ctx.extra.setdefault('fuzz', {})[f'shard{ctx.shard}'] = {k: r[k] for k in ('status', 'executions')}
    ctx.extra['sum_fuzz_executions'] = ctx.extra.get('sum_fuzz_executions', 0) + r['executions']
    for sig, what, data in r['crashes']:
        ctx.fail(sig, what, {'kind': 'fuzz', 'data': data})
