"""
C16 - Teardown is complete: no stale connection state, no waiter left hanging.

A world of three full devices (victim = node 0, peer = node 1, bystander = node 2 with its own
connection to the victim) is built on the virtual-time loop. A catalogue of procedures that
wait on the peer is run on the victim; the HCI message boundaries of each procedure are
ENUMERATED: the procedure is first run un-faulted to count the messages M that cross the HCI
taps, then re-run on a fresh world for every k in 0..M and every cut kind, the cut being
injected after the k-th message (k = 0: the procedure has started, its first packet has not
crossed yet). After the cut the world is run to quiescence (45 virtual seconds, beyond the 30 s
time-outs of the stack) and judged:

  waiter_hangs/<site>/<link|transport>     the procedure's awaitable is still pending (site = innermost
                                           bumble frame of its await chain)
  task_left_pending/<site>/...             a task created inside the stack during the procedure is pending
  cut_handler_raises/...                   the stack's own handler for the cut raised (transport loss: the call of
                                           Host.on_transport_lost(); link cuts: an exception that escaped the host's
                                           handler of the Disconnection Complete event into the event loop)
  tables/...                               Host / Device / Controller connection tables after a link cut
                                           (closed connection gone; bystander connection still everywhere)
  stale_state/<table>/...                  gatt_server.subscribers / indication_semaphores /
                                           pending_confirmations (ATT and EATT bearers), smp sessions, L2CAP
                                           channel tables and pending tables, ACL queue state, drain()
  bystander_unusable/..., reconnect/...    the bystander connection still works; a new connection between
                                           the same devices can be made and the same procedure succeeds
  tables/connection_listed_after_transport_loss/...   after a transport loss NO link of that host is listed by
                                           Host / Device any more, and the per-connection state of the victim's
                                           second link (side 'local_second_link') is gone like that of the first

Extension (families added to the catalogue; all go through the same enumeration and oracle):
  * command/status/event procedures (le_encrypt, le_subrate_request, classic_switch_role, classic_remote_features):
    the waiter exists between the Command Status and the completion event; enumerated at zero delay AND under
    directed delay vectors of the victim's HCI stream that pull status, completion event and Disconnection
    Complete apart;
  * pairing with a user in the loop (numeric comparison with a slow user on either side, legacy passkey entry):
    the stack's prompt task is pending when the link goes away; where the cut is certain to fire no later than
    the prompt (k <= coverage.user_prompt_at) the user does not answer at all within the horizon ('user': 'never');
  * several waiters at once: one on each of the victim's two links, and five of different layers on one link
    (GATT read, GATT write queued behind it, two LE CoC connects, one HCI command);
  * the victim's second link carries state of its own in every transport-loss case (GATT subscription of the
    bystander, an open LE CoC / the SDP channel) and is judged after the loss.

Extension 2 - procedures ABANDONED by their caller before the link goes away (case field 'abandon'): the caller
gives up (task.cancel() or the asyncio.wait_for() time-out) while the procedure is pending, and only THEN the link is
closed by either side, lost, or the transport is lost. What the stack kept of the abandoned procedure (a cancelled
future, a channel in a WAIT_* state, a queued request) is torn down by the cut and judged with the same clauses.
  * the peer never answers ('silent_at': s): from the s-th message of the procedure on, ACL data no longer reaches the
    peer's host (its HCI command/event stream is untouched: it is still told about a disconnection and can disconnect);
    the caller gives up 'after_ms' after the start; enumerated for every s in 0..M x 4 cut kinds;
  * the caller gives up at a message boundary ('at': j, task.cancel()) while the peer goes on answering, and the cut
    comes at a later boundary k >= j or after everything in flight has arrived (generated, all 37 procedures);
  * both combined, and asyncio.wait_for() time-outs of a few ms under generated delays.
"""

from __future__ import annotations

import asyncio
import contextlib
import hashlib
import random as _random
import secrets as _secrets

from hypothesis import strategies as st

from bumble import a2dp, avdtp, crypto, gatt_client, hci, l2cap, rfcomm, sdp
from bumble.core import UUID
from bumble.gatt import Characteristic, Service
from vlib import vloop, world
from vlib.runner import HarnessError

PROPERTY = 'C16'
LEVEL = 'exploration'
RULE = (
    'fault enumeration over message boundaries: for every procedure of the catalogue (coverage.catalogue) the '
    'un-faulted run on a fresh 3-device world gives the number M of HCI packets that cross the taps (coverage.M); '
    'then for every k in 0..M and cut kind in {local disconnect(), remote disconnect(), link loss (peer removed '
    'from the link + Disconnection Complete/CONNECTION_TIMEOUT), Host.on_transport_lost()} the procedure is re-run '
    'on a fresh world and the cut is injected after the k-th packet (both tiers: all k x all 4 kinds at zero '
    'delay), plus Hypothesis-drawn (procedure, k, cut, order-preserving per-node HCI delay vectors; quick 500, '
    'thorough 32000 over the first 27 procedures, quick 120 / thorough 9600 over the 10 procedures of the extension). '
    'Extension: the command/status/event procedures are additionally enumerated for all k x 4 kinds x directed delay '
    'vectors of the victim\'s HCI stream (quick 1 vector; thorough 6 vectors x peer stream undelayed/delayed); the three '
    'pairing-with-a-user procedures and classic_l2cap_connect_two_links are enumerated over a stratified subset of k '
    'in the quick tier (every k within 2 of the boundary at which the slow user is asked, every 5th / 2nd k '
    'otherwise) and over every k in the thorough tier; in pairing cases with k <= coverage.user_prompt_at the user '
    'never answers (case field user=never), otherwise after 2 virtual seconds. '
    'Directed (every process): every procedure x {local, remote disconnect, link loss} with the caller cancelled at the very '
    'moment the Disconnection Complete event is handed to its host (abandon.on_event; cancellation and event are processed in '
    'the same loop iteration). '
    'Extension 2 (case field abandon = {how, silent_at, at, after_ms}): the caller abandons the procedure before the cut. '
    'Enumerated: for the procedures of coverage.abandon_enumerated (quick: the 10 short L2CAP / RFCOMM / GATT / EATT '
    'ones; thorough: all 22 whose answer comes from the peer\'s host) every s in 0..M (quick: up to the first s at '
    'which the procedure completes in spite of the silence) x 4 cut kinds with the peer '
    'silent from message s on, the caller giving up 1 virtual second after the start (quick: how alternates between '
    'task.cancel() and asyncio.wait_for(); thorough: both) and the cut 0.2 s after the give-up. Generated (quick 160 / '
    'thorough 16000, all 37 procedures, optional delay vectors): silent_at x time-based give-up (200 / 1000 / 5000 ms); '
    'task.cancel() at a message boundary `at` with the peer answering and the cut at a boundary k >= at or after the '
    'in-flight answers have arrived; both combined; wait_for() time-outs of 1 / 7 / 60 ms under delays. '
    'non-trivial = the procedure was still pending when the cut fired, or the caller gave up a pending procedure '
    'before the cut, or the cut is a transport loss; distinct by (procedure, k, cut kind, delays, user, abandon).'
)
ASSUMPTIONS = [
    '"every operation" is the procedure catalogue listed in coverage.catalogue, not every coroutine of the code base',
    '"waits forever" = the awaitable is still pending when the virtual loop stalls or 400 virtual seconds after the '
    'cut (beyond every 30 s time-out of the stack); any exception, cancellation or result is an accepted ending',
    'link loss is modelled as the local controller timing the link out: the peer controller is removed from the '
    'link (link.remove_controller) and the local controller drops the connection and reports Disconnection '
    'Complete (CONNECTION_TIMEOUT) to its host through the HCI tap, so the event keeps its place in the '
    'order-preserving HCI stream; the remote side learns nothing and is not judged (before the re-connection the '
    'peer controller is put back and times the link out the same way)',
    'the cut is executed by a loop callback scheduled when the k-th packet is delivered, i.e. after that packet '
    'has been processed by its sink and after callbacks that were already scheduled at that moment',
    'after a transport loss only the waiter and clean-up clauses are judged (local side); connection tables, the '
    'bystander and re-connection are judged for link cuts only',
    'empty per-handle containers (e.g. an empty channel dict) are not counted as stale state',
    'a transport loss takes every link of that host down (the reading fixed with 4b2d67e): after it Host.connections '
    'and Device.connections must list neither the link under test nor the victim\'s second link, and the second '
    'link\'s per-connection state is judged like the first one\'s; the controller cannot be told and is not judged',
    'a procedure made of several awaitables (two links / several waiters on one link) is given one loop iteration '
    'before a cut at k = 0, so that each of its waiters has issued its first packet into the HCI tap: k = 0 still '
    'means "started, nothing has crossed"; an operation STARTED on a connection that is already closed is outside '
    'the property (it speaks of operations that were waiting) and is not generated',
    'the pairing delegate is application code: a user who has not answered when the link is cut is modelled by a '
    'delegate coroutine that sleeps beyond the horizon; the task in which the stack awaits it is a task of the '
    'stack and has to be cancelled with the connection (clause task_left_pending); the peer\'s user never answers '
    'only under cuts the peer is told about (local/remote disconnect)',
    'the gathered procedures end normally whatever their parts do (exceptions are collected), so their own ending '
    'is always "ok"; a part that hangs shows as waiter_hangs/?/... together with task_left_pending/<site>/...',
    'a caller that gives up its await (task.cancel(), asyncio.wait_for() time-out) before the connection is closed is '
    'ordinary use of the API and part of "any interleaving"; the abandoned procedure itself ends with the caller\'s '
    'cancellation (an accepted ending), what is judged is the teardown that follows: tables, per-connection state, '
    'tasks of the stack, the cut\'s own handler, the bystander and the re-connection',
    'a peer that never answers is modelled by dropping ACL data packets between the peer\'s controller and the '
    'peer\'s host from a given message on (the peer\'s stack never sees the request); HCI commands and events of the '
    'peer are untouched, so the peer is told about a disconnection, can disconnect itself, and its own tables are '
    'judged as before; the filter is removed before the re-connection clause; dropped packets do not count as messages',
    'the abandonment is judged only through its consequences after the cut: an exception that a late answer raises in '
    'the stack while the link stays up is not a C16 matter',
]
SHRINK_KEYS = ('d0', 'd1', 'd2')

KINDS = ('local_disconnect', 'remote_disconnect', 'link_loss', 'transport_lost')
H_WAIT = 400.0
QUIESCE = 45.0

SVC = UUID('3A657F47-D34F-46B3-B1EC-698E29B6B829')
CHR = UUID('3A657F48-D34F-46B3-B1EC-698E29B6B829')
PSM_LE = 0x0081
PSM_BR = 0x1001
SDP_HANDLE = 0x00010001
SDP_UUID = UUID('E6D55659-C8B4-4B85-96BB-B1143AF6D3AE')


# ---------------------------------------------------------------------------
# determinism: the randomness Bumble draws during one case
# ---------------------------------------------------------------------------
class _Drbg:
    def __init__(self, seed: int):
        self.seed = int(seed).to_bytes(16, 'big')
        self.counter = 0

    def token_bytes(self, nbytes=32):
        out = b''
        while len(out) < nbytes:
            out += hashlib.blake2b(self.seed + self.counter.to_bytes(8, 'big'), digest_size=32).digest()
            self.counter += 1
        return out[:nbytes]

    def randbelow(self, n):
        k = (int(n).bit_length() + 7) // 8 + 8
        return int.from_bytes(self.token_bytes(k), 'big') % n


_P256_N = 0xFFFFFFFF00000000FFFFFFFFFFFFFFFFBCE6FAADA7179E84F3B9CAC2FC632551


@contextlib.contextmanager
def deterministic(seed: int):
    drbg = _Drbg(seed)
    saved = (_secrets.token_bytes, _secrets.randbelow, crypto.EccKey.__dict__['generate'], _random.getstate())

    def generate(cls):
        d = drbg.randbelow(_P256_N - 1) + 1
        return cls.from_private_key_bytes(d.to_bytes(32, 'big'))

    _secrets.token_bytes = drbg.token_bytes
    _secrets.randbelow = drbg.randbelow
    crypto.EccKey.generate = classmethod(generate)
    _random.seed(seed)
    try:
        yield
    finally:
        _secrets.token_bytes, _secrets.randbelow = saved[0], saved[1]
        crypto.EccKey.generate = saved[2]
        _random.setstate(saved[3])


# ---------------------------------------------------------------------------
# world
# ---------------------------------------------------------------------------
def _sbc_sink_capabilities():
    I = a2dp.SbcMediaCodecInformation
    info = I(
        sampling_frequency=I.SamplingFrequency.SF_48000 | I.SamplingFrequency.SF_44100,
        channel_mode=I.ChannelMode.MONO | I.ChannelMode.STEREO | I.ChannelMode.JOINT_STEREO,
        block_length=I.BlockLength.BL_4 | I.BlockLength.BL_8 | I.BlockLength.BL_12 | I.BlockLength.BL_16,
        subbands=I.Subbands.S_4 | I.Subbands.S_8,
        allocation_method=I.AllocationMethod.LOUDNESS | I.AllocationMethod.SNR,
        minimum_bitpool_value=2, maximum_bitpool_value=53,
    )
    return avdtp.MediaCodecCapabilities(
        media_type=avdtp.MediaType.AUDIO, media_codec_type=a2dp.CodecType.SBC, media_codec_information=info
    )


def node_value(i: int) -> bytes:
    return b'value-of-node-%d' % i


def configure_node(node, classic: bool) -> None:
    """GATT database, L2CAP servers, EATT, and on BR/EDR SDP records, RFCOMM and AVDTP servers."""
    dev = node.device
    ch = Characteristic(
        CHR,
        Characteristic.Properties.READ | Characteristic.Properties.WRITE
        | Characteristic.Properties.NOTIFY | Characteristic.Properties.INDICATE,
        Characteristic.READABLE | Characteristic.WRITEABLE,
        node_value(node.index),
    )
    dev.add_service(Service(SVC, [ch]))
    node.chr = ch
    node.rx = []
    node.server_channels = []

    def on_channel(channel):
        node.server_channels.append(channel)
        channel.sink = node.rx.append

    dev.create_l2cap_server(
        spec=l2cap.LeCreditBasedChannelSpec(psm=PSM_LE, max_credits=2, mtu=256, mps=48), handler=on_channel
    )
    dev.gatt_server.register_eatt()
    if classic:
        dev.create_l2cap_server(spec=l2cap.ClassicChannelSpec(psm=PSM_BR), handler=on_channel)
        dev.sdp_service_records = {
            SDP_HANDLE: [
                sdp.ServiceAttribute(sdp.SDP_SERVICE_RECORD_HANDLE_ATTRIBUTE_ID, sdp.DataElement.unsigned_integer_32(SDP_HANDLE)),
                sdp.ServiceAttribute(
                    sdp.SDP_SERVICE_CLASS_ID_LIST_ATTRIBUTE_ID, sdp.DataElement.sequence([sdp.DataElement.uuid(SDP_UUID)])
                ),
                sdp.ServiceAttribute(0x0100, sdp.DataElement.text_string(b'node-%d' % node.index)),
            ]
        }
        node.dlcs = []
        node.rfcomm_server = rfcomm.Server(dev)
        node.rfcomm_channel = node.rfcomm_server.listen(acceptor=node.dlcs.append)
        node.avdtp_servers = []

        def on_avdtp_connection(server):
            node.avdtp_servers.append(server)
            server.add_sink(_sbc_sink_capabilities())

        node.avdtp_listener = avdtp.Listener.for_device(dev)
        node.avdtp_listener.on('connection', on_avdtp_connection)


class Env:
    """One world with the connection under test (victim 0 <-> peer 1) and the bystander (0 <-> 2)."""

    def __init__(self, classic: bool, rich_bystander: bool = False, user: str | None = None):
        self.classic = classic
        self.w = None
        self.conn_l = self.conn_r = self.conn_bl = self.conn_b = None
        self.by_state = None
        # the victim's second link carries per-connection state of its own (transport-loss cases)
        self.rich_bystander = rich_bystander
        self.by_channel = None
        # the user behind the pairing delegate: 'late' answers after USER_LATE s, 'never' not within the horizon
        self.user = user or 'late'
        self.count_fn = lambda: 0
        self.prompt_at = None
        self.prompts_began = self.prompts_cancelled = self.prompts_pending = 0

    @property
    def local(self):
        return self.w[0]

    @property
    def peer(self):
        return self.w[1]

    @property
    def bystander(self):
        return self.w[2]

    async def connect(self, a: int, b: int):
        if self.classic:
            return await self.w.connect_classic(a, b)
        return await self.w.connect_le(a, b)

    async def build(self):
        self.w = world.World(3, classic=self.classic)
        for n in self.w.nodes:
            configure_node(n, self.classic)
        await self.w.power_on()
        self.conn_l, self.conn_r = await self.connect(0, 1)
        self.conn_bl, self.conn_b = await self.connect(0, 2)
        # what the bystander clause will use afterwards
        if self.classic:
            client = sdp.Client(self.conn_bl)
            await client.connect()
            self.by_state = client
        else:
            self.by_state = await discover_chr(self.conn_bl.gatt_client)
        if self.rich_bystander and not self.classic:
            # GATT subscription of the bystander at the victim's server + an LE CoC on that link
            ch = await discover_chr(self.conn_b.gatt_client, descriptors=True)
            await ch.subscribe(lambda value: None)
            self.by_channel = await self.conn_bl.create_l2cap_channel(spec=l2cap.LeCreditBasedChannelSpec(psm=PSM_LE))

    async def bystander_usable(self):
        if self.classic:
            found = await self.by_state.search_attributes([SDP_UUID], [(0x0000, 0xFFFF)])
            names = [a.value.value for lst in found for a in lst if a.id == 0x0100]
            if names != [b'node-2']:
                raise ValueError(f'SDP query on the bystander connection returned {names!r}')
        else:
            value = await self.by_state.read_value()
            if bytes(value) != node_value(2):
                raise ValueError(f'GATT read on the bystander connection returned {bytes(value)!r}')


async def discover_chr(client, descriptors: bool = False):
    services = await client.discover_service(SVC)
    if len(services) != 1:
        raise ValueError(f'{len(services)} services discovered')
    chars = await client.discover_characteristics([CHR], services[0])
    if len(chars) != 1:
        raise ValueError(f'{len(chars)} characteristics discovered')
    if descriptors:
        await client.discover_descriptors(chars[0])
    return chars[0]


# ---------------------------------------------------------------------------
# procedure catalogue: setup(env) -> state (not faulted), run(env, state) -> the awaitable under test
# ---------------------------------------------------------------------------
class Proc:
    def __init__(self, name, classic, what, setup, run, check=None, start_hops=0):
        self.name, self.classic, self.what = name, classic, what
        self.setup, self.run, self.check = setup, run, check
        # loop iterations granted to the procedure before a cut at k = 0, so that every waiter it is made of
        # has started (issued its first packet into the tap) when the cut fires; 0 for a single awaitable
        self.start_hops = start_hops


async def _no_setup(env):
    return None


async def _s_chr(env):
    return await discover_chr(env.conn_l.gatt_client)


async def _s_chr_desc(env):
    return await discover_chr(env.conn_l.gatt_client, descriptors=True)


async def _r_read(env, ch):
    return bytes(await ch.read_value())


async def _r_write(env, ch):
    await ch.write_value(b'written-by-victim', with_response=True)


async def _r_discover(env, _):
    return [str(s.uuid) for s in await env.conn_l.gatt_client.discover_services()]


async def _r_subscribe(env, ch):
    await ch.subscribe(lambda value: None)


async def _s_indicate(env):
    # the peer subscribes (indications) to the victim's characteristic
    ch = await discover_chr(env.conn_r.gatt_client, descriptors=True)
    got = []
    await ch.subscribe(got.append, prefer_notify=False)
    return got


async def _r_indicate(env, got):
    await env.local.device.indicate_subscribers(env.local.chr, b'indicated')
    return list(got)


async def _r_pair(env, _):
    await env.conn_l.pair()
    return env.conn_l.is_encrypted


async def _r_coc_connect(env, _):
    channel = await env.conn_l.create_l2cap_channel(spec=l2cap.LeCreditBasedChannelSpec(psm=PSM_LE))
    return channel.state.name


async def _s_coc(env):
    return await env.conn_l.create_l2cap_channel(spec=l2cap.LeCreditBasedChannelSpec(psm=PSM_LE))


async def _r_channel_disconnect(env, channel):
    await channel.disconnect()


COC_DATA = bytes(range(200)) + bytes(range(100))


async def _r_coc_drain(env, channel):
    channel.write(COC_DATA)
    await channel.drain()
    return len(COC_DATA)


async def _r_acl_disconnect(env, _):
    await env.conn_l.disconnect()


async def _r_sustain(env, _):
    # idles until the link goes away (the cut ends it) or 40 s have passed
    try:
        await env.conn_l.sustain(40.0)
    except (asyncio.TimeoutError, TimeoutError):
        return 'timeout'
    return 'ended'


async def _r_remote_features(env, _):
    return int(await env.conn_l.get_remote_le_features())


async def _r_read_phy(env, _):
    rsp = await env.local.host.send_command(hci.HCI_LE_Read_PHY_Command(connection_handle=env.conn_l.handle))
    return int(rsp.return_parameters.status)


async def _r_eatt_connect(env, _):
    client = await gatt_client.Client.connect_eatt(env.conn_l)
    return client.bearer.state.name


async def _s_eatt(env):
    client = await gatt_client.Client.connect_eatt(env.conn_l)
    return await discover_chr(client, descriptors=True)


async def _r_classic_connect(env, _):
    channel = await env.conn_l.create_l2cap_channel(spec=l2cap.ClassicChannelSpec(psm=PSM_BR))
    return channel.state.name


async def _s_classic(env):
    return await env.conn_l.create_l2cap_channel(spec=l2cap.ClassicChannelSpec(psm=PSM_BR))


async def _s_sdp(env):
    client = sdp.Client(env.conn_l)
    await client.connect()
    return client


async def _r_sdp(env, client):
    found = await client.search_attributes([SDP_UUID], [(0x0000, 0xFFFF)])
    return [a.value.value for lst in found for a in lst if a.id == 0x0100]


async def _r_rfcomm_start(env, _):
    mux = await rfcomm.Client(env.conn_l).start()
    return mux.state.name


async def _s_rfcomm(env):
    return await rfcomm.Client(env.conn_l).start()


async def _r_open_dlc(env, mux):
    dlc = await mux.open_dlc(env.peer.rfcomm_channel)
    return dlc.state.name


async def _s_dlc(env):
    mux = await rfcomm.Client(env.conn_l).start()
    return await mux.open_dlc(env.peer.rfcomm_channel)


async def _r_dlc_disconnect(env, dlc):
    await dlc.disconnect()
    return dlc.state.name


async def _r_mux_disconnect(env, mux):
    await mux.disconnect()
    return mux.state.name


async def _s_avdtp(env):
    return await avdtp.Protocol.connect(env.conn_l)


async def _r_avdtp_discover(env, protocol):
    return len(list(await protocol.discover_remote_endpoints()))


async def _r_remote_name(env, _):
    return await env.conn_l.request_remote_name()


async def _r_hci_concurrent(env, _):
    # three commands issued at once: one is in flight, the others wait for the command channel
    host, handle = env.local.host, env.conn_l.handle
    commands = [hci.HCI_LE_Read_PHY_Command(connection_handle=handle), hci.HCI_Read_BD_ADDR_Command(),
                hci.HCI_LE_Read_PHY_Command(connection_handle=handle)]
    tasks = [asyncio.ensure_future(host.send_command(c)) for c in commands]
    done = await asyncio.gather(*tasks, return_exceptions=True)
    errors = [r for r in done if isinstance(r, BaseException)]
    if errors:
        raise errors[0]
    return [int(r.return_parameters.status) for r in done]


async def _s_failed_pairing(env):
    # a pairing that the peer's delegate refuses: it ends with Pairing Failed while the link stays up
    from bumble.pairing import PairingConfig, PairingDelegate

    class Refuse(PairingDelegate):
        async def accept(self) -> bool:
            return False

        async def confirm(self, auto: bool = False) -> bool:
            return False

    env.peer.device.pairing_config_factory = lambda connection: PairingConfig(delegate=Refuse())
    try:
        await env.conn_l.pair()
    except Exception as e:  # noqa: BLE001 - the expected ending
        return type(e).__name__
    raise ValueError('the pairing was expected to fail')


async def _s_paired(env):
    await env.conn_l.pair()
    return env.conn_l.is_encrypted


# ---- procedures made of one HCI command that is answered with a Command Status and, later, an event
async def _r_le_encrypt(env, _):
    await env.conn_l.encrypt()
    return env.conn_l.is_encrypted


async def _r_le_subrate(env, _):
    await env.conn_l.update_subrate(subrate_min=1, subrate_max=2, max_latency=0, continuation_number=0,
                                    supervision_timeout=1000)
    return env.conn_l.parameters.subrate_factor


async def _r_switch_role(env, _):
    new_role = hci.Role.PERIPHERAL if env.conn_l.role == hci.Role.CENTRAL else hci.Role.CENTRAL
    await env.conn_l.switch_role(new_role)
    return env.conn_l.role == new_role


async def _r_classic_features(env, _):
    return int(await env.conn_l.get_remote_classic_features()) != 0


# ---- pairing with a user in the loop: the stack's prompt task is pending while the link is cut
USER_LATE = 2.0
USER_NEVER = 1.0e6


def _s_user(sc: bool, victim_io: str, peer_io: str, slow_node: int):
    """Set-up: both devices get a pairing delegate with the given IO capabilities; the user of `slow_node` takes
    USER_LATE virtual seconds to answer a prompt (env.user == 'never': does not answer within the horizon)."""

    async def setup(env):
        from bumble.pairing import PairingConfig, PairingDelegate

        shared = {'passkey': None}

        def make(index, io_name):
            slow = index == slow_node

            class User(PairingDelegate):
                def __init__(self):
                    super().__init__(getattr(PairingDelegate.IoCapability, io_name))

                async def _think(self):
                    if not slow:
                        return
                    if env.prompt_at is None:
                        env.prompt_at = env.count_fn()
                    env.prompts_began += 1
                    env.prompts_pending += 1
                    try:
                        await asyncio.sleep(USER_NEVER if env.user == 'never' else USER_LATE)
                    except asyncio.CancelledError:
                        env.prompts_cancelled += 1
                        raise
                    finally:
                        env.prompts_pending -= 1

                async def confirm(self, auto: bool = False) -> bool:
                    await self._think()
                    return True

                async def compare_numbers(self, number: int, digits: int) -> bool:
                    await self._think()
                    return True

                async def get_number(self):
                    await self._think()
                    return shared['passkey']

                async def display_number(self, number: int, digits: int) -> None:
                    shared['passkey'] = number

            return User()

        env.local.device.pairing_config_factory = lambda connection: PairingConfig(
            sc=sc, mitm=True, bonding=True, delegate=make(0, victim_io))
        env.peer.device.pairing_config_factory = lambda connection: PairingConfig(
            sc=sc, mitm=True, bonding=True, delegate=make(1, peer_io))
        return None

    return setup


# ---- one waiter on each of the victim's two links
async def _gather(*aws):
    done = await asyncio.gather(*[asyncio.ensure_future(a) for a in aws], return_exceptions=True)
    return [type(r).__name__ if isinstance(r, BaseException) else r for r in done]


async def _r_coc_two_links(env, _):
    async def one(conn):
        return (await conn.create_l2cap_channel(spec=l2cap.LeCreditBasedChannelSpec(psm=PSM_LE))).state.name

    return await _gather(one(env.conn_l), one(env.conn_bl))


async def _r_classic_two_links(env, _):
    async def one(conn):
        return (await conn.create_l2cap_channel(spec=l2cap.ClassicChannelSpec(psm=PSM_BR))).state.name

    return await _gather(one(env.conn_l), one(env.conn_bl))


# ---- several waiters of different layers on ONE link: a single cut has to release all of them
async def _r_le_waiters_one_link(env, ch):
    async def coc():
        return (await env.conn_l.create_l2cap_channel(spec=l2cap.LeCreditBasedChannelSpec(psm=PSM_LE))).state.name

    async def read():
        return bytes(await ch.read_value())

    async def write():  # queued behind the read on the client's request semaphore
        await ch.write_value(b'written-by-victim', with_response=True)
        return 'written'

    async def phy():
        rsp = await env.local.host.send_command(hci.HCI_LE_Read_PHY_Command(connection_handle=env.conn_l.handle))
        return int(rsp.return_parameters.status)

    return await _gather(read(), write(), coc(), coc(), phy())


def _eq(expected):
    return lambda result: result == expected


PROCS = [
    Proc('gatt_read', False, 'CharacteristicProxy.read_value()', _s_chr, _r_read, _eq(node_value(1))),
    Proc('gatt_write', False, 'CharacteristicProxy.write_value(with_response=True)', _s_chr, _r_write),
    Proc('gatt_discover_services', False, 'gatt_client.Client.discover_services()', _no_setup, _r_discover,
         lambda r: str(SVC) in r),
    Proc('gatt_subscribe', False, 'CharacteristicProxy.subscribe()', _s_chr_desc, _r_subscribe),
    Proc('gatt_indicate_subscribers', False, 'Device.indicate_subscribers() towards a subscribed peer', _s_indicate,
         _r_indicate, _eq([b'indicated'])),
    Proc('smp_pair', False, 'Connection.pair() (LE, Just Works)', _no_setup, _r_pair, _eq(True)),
    Proc('le_coc_connect', False, 'Connection.create_l2cap_channel(LeCreditBasedChannelSpec)', _no_setup, _r_coc_connect,
         _eq('CONNECTED')),
    Proc('le_coc_disconnect', False, 'LeCreditBasedChannel.disconnect()', _s_coc, _r_channel_disconnect),
    Proc('le_coc_write_drain', False, 'LeCreditBasedChannel.write(300 bytes) + drain() against 2 credits', _s_coc,
         _r_coc_drain),
    Proc('eatt_connect', False, 'gatt_client.Client.connect_eatt()', _no_setup, _r_eatt_connect, _eq('CONNECTED')),
    Proc('eatt_subscribe', False, 'subscribe() over an EATT bearer', _s_eatt, _r_subscribe),
    Proc('le_acl_disconnect', False, 'Connection.disconnect() (LE)', _no_setup, _r_acl_disconnect),
    Proc('le_acl_sustain', False, 'Connection.sustain(40 s) (LE)', _no_setup, _r_sustain),
    Proc('le_read_remote_features', False, 'Connection.get_remote_le_features()', _no_setup, _r_remote_features),
    Proc('hci_le_read_phy', False, 'Host.send_command(HCI_LE_Read_PHY_Command)', _no_setup, _r_read_phy, _eq(0)),
    Proc('hci_commands_concurrent', False, 'three concurrent Host.send_command() calls (one in flight, two queued)', _no_setup,
         _r_hci_concurrent, _eq([0, 0, 0])),
    Proc('le_acl_disconnect_after_failed_pairing', False, 'Connection.disconnect() after a pairing that ended with Pairing Failed',
         _s_failed_pairing, _r_acl_disconnect),
    Proc('le_acl_disconnect_after_pairing', False, 'Connection.disconnect() after a completed pairing', _s_paired,
         _r_acl_disconnect),
    Proc('classic_l2cap_connect', True, 'Connection.create_l2cap_channel(ClassicChannelSpec)', _no_setup,
         _r_classic_connect, _eq('OPEN')),
    Proc('classic_l2cap_disconnect', True, 'ClassicChannel.disconnect()', _s_classic, _r_channel_disconnect),
    Proc('sdp_search_attributes', True, 'sdp.Client.search_attributes()', _s_sdp, _r_sdp, _eq([b'node-1'])),
    Proc('rfcomm_start', True, 'rfcomm.Client.start()', _no_setup, _r_rfcomm_start, _eq('CONNECTED')),
    Proc('rfcomm_open_dlc', True, 'rfcomm.Multiplexer.open_dlc()', _s_rfcomm, _r_open_dlc, _eq('CONNECTED')),
    Proc('rfcomm_dlc_disconnect', True, 'rfcomm.DLC.disconnect()', _s_dlc, _r_dlc_disconnect),
    Proc('rfcomm_mux_disconnect', True, 'rfcomm.Multiplexer.disconnect()', _s_rfcomm, _r_mux_disconnect),
    Proc('avdtp_discover', True, 'avdtp.Protocol.discover_remote_endpoints()', _s_avdtp, _r_avdtp_discover, _eq(1)),
    Proc('classic_acl_disconnect', True, 'Connection.disconnect() (BR/EDR)', _no_setup, _r_acl_disconnect),
    Proc('classic_remote_name', True, 'Connection.request_remote_name()', _no_setup, _r_remote_name),
    # HCI command -> Command Status -> completion event (the waiter exists between the status and the event)
    Proc('le_encrypt', False, 'Connection.encrypt() with the bonded LTK (LE central, after a completed pairing)', _s_paired,
         _r_le_encrypt, _eq(True)),
    Proc('le_subrate_request', False, 'Connection.update_subrate() (HCI_LE_Subrate_Request, waits for the Subrate Change event)',
         _no_setup, _r_le_subrate),
    Proc('classic_switch_role', True, 'Connection.switch_role() (HCI_Switch_Role, waits for the Role Change event)', _no_setup,
         _r_switch_role, _eq(True)),
    Proc('classic_remote_features', True, 'Connection.get_remote_classic_features() (supported + extended feature pages)',
         _no_setup, _r_classic_features, _eq(True)),
    # pairing with a user in the loop (the prompt of the slow user is a task of the stack that is pending at the cut)
    Proc('smp_pair_numeric_user_slow', False, 'Connection.pair(), LE Secure Connections numeric comparison, the victim\'s user answers late',
         _s_user(True, 'DISPLAY_OUTPUT_AND_YES_NO_INPUT', 'DISPLAY_OUTPUT_AND_YES_NO_INPUT', 0), _r_pair, _eq(True)),
    Proc('smp_pair_numeric_peer_user_slow', False, 'Connection.pair(), LE Secure Connections numeric comparison, the peer\'s user answers late',
         _s_user(True, 'DISPLAY_OUTPUT_AND_YES_NO_INPUT', 'DISPLAY_OUTPUT_AND_YES_NO_INPUT', 1), _r_pair, _eq(True)),
    Proc('smp_pair_legacy_passkey_user_slow', False, 'Connection.pair(), LE legacy passkey entry (victim types, peer displays), the victim\'s user answers late',
         _s_user(False, 'KEYBOARD_INPUT_ONLY', 'DISPLAY_OUTPUT_ONLY', 0), _r_pair, _eq(True)),
    # waiters on both links of the victim / several waiters on one link
    Proc('le_coc_connect_two_links', False, 'create_l2cap_channel(LeCreditBasedChannelSpec) on the link under test and on the second link at once',
         _no_setup, _r_coc_two_links, _eq(['CONNECTED', 'CONNECTED']), start_hops=1),
    Proc('classic_l2cap_connect_two_links', True, 'create_l2cap_channel(ClassicChannelSpec) on the link under test and on the second link at once',
         _no_setup, _r_classic_two_links, _eq(['OPEN', 'OPEN']), start_hops=1),
    Proc('le_waiters_one_link', False, 'GATT read + GATT write queued behind it + two LE CoC connects + HCI LE Read PHY, all on one link at once',
         _s_chr, _r_le_waiters_one_link,
         lambda r: r[0] in (node_value(1), b'written-by-victim') and r[1:] == ['written', 'CONNECTED', 'CONNECTED', 0], start_hops=1),
]
EXT_HCI_PROCS = ('le_encrypt', 'le_subrate_request', 'classic_switch_role', 'classic_remote_features')
USER_PROCS = {'smp_pair_numeric_user_slow': 0, 'smp_pair_numeric_peer_user_slow': 1, 'smp_pair_legacy_passkey_user_slow': 0}
MULTI_PROCS = ('le_coc_connect_two_links', 'classic_l2cap_connect_two_links', 'le_waiters_one_link')
PROC_BY_NAME = {p.name: p for p in PROCS}
# procedures whose answer comes from the peer's HOST over ACL: a peer that is silent on ACL leaves them pending
ABANDON_SHORT = ('classic_l2cap_connect', 'classic_l2cap_disconnect', 'le_coc_connect', 'le_coc_disconnect',
                 'rfcomm_dlc_disconnect', 'rfcomm_mux_disconnect', 'gatt_read', 'gatt_write',
                 'gatt_indicate_subscribers', 'eatt_connect')
ABANDON_PROCS = ABANDON_SHORT + (
    'gatt_discover_services', 'gatt_subscribe', 'eatt_subscribe', 'smp_pair', 'le_coc_write_drain',
    'sdp_search_attributes', 'rfcomm_start', 'rfcomm_open_dlc', 'avdtp_discover') + MULTI_PROCS
ABANDON_HOW = ('cancel', 'timeout')
ABANDON_AFTER_MS = 1000


# ---------------------------------------------------------------------------
# helpers for the oracle
# ---------------------------------------------------------------------------
def await_chain(task) -> list:
    """file:function of every bumble frame on the await chain of a pending task, outermost first."""
    chain = []
    try:
        coro = task.get_coro()
    except Exception:  # noqa: BLE001
        return chain
    for _ in range(60):
        if coro is None:
            break
        frame = getattr(coro, 'cr_frame', None) or getattr(coro, 'gi_frame', None)
        if frame is not None:
            fn = frame.f_code.co_filename
            if '/bumble/' in fn:
                chain.append(f'{fn.split("/bumble/")[-1]}:{frame.f_code.co_name}')
        coro = getattr(coro, 'cr_await', None) or getattr(coro, 'gi_yieldfrom', None)
    return chain


def await_site(task) -> str:
    """Innermost bumble frame on the await chain of a pending task: where the waiter is stuck."""
    chain = await_chain(task)
    return chain[-1] if chain else '?'


def _site(exc) -> str:
    tb = exc.__traceback__
    site = '?'
    while tb is not None:
        fn = tb.tb_frame.f_code.co_filename
        if '/bumble/' in fn:
            site = f'{fn.split("/bumble/")[-1]}:{tb.tb_frame.f_code.co_name}'
        tb = tb.tb_next
    return site


def _through_fan_out(exc) -> bool:
    """The exception was raised under Host.on_hci_disconnection_complete_event (and escaped it)."""
    tb = exc.__traceback__
    while tb is not None:
        code = tb.tb_frame.f_code
        if code.co_name == 'on_hci_disconnection_complete_event' and code.co_filename.endswith('/bumble/host.py'):
            return True
        tb = tb.tb_next
    return False


def controller_has(node, handle) -> bool:
    c = node.controller
    return any(x.handle == handle for x in list(c.le_connections.values()) + list(c.classic_connections.values()))


def tables(node, handle) -> dict:
    return {
        'host': handle in node.host.connections,
        'device': handle in node.device.connections,
        'controller': controller_has(node, handle),
    }


def stale_state(node, conn, handle, classic) -> list:
    """(table, detail) for every piece of per-connection state that still refers to the connection."""
    dev = node.device
    out = []
    gs = dev.gatt_server

    def bearer_kind(bearer):
        if bearer is conn:
            return 'att'
        if getattr(bearer, 'connection', None) is conn:
            return 'eatt'
        return None

    for name in ('subscribers', 'indication_semaphores', 'pending_confirmations'):
        for bearer in list(getattr(gs, name).keys()):
            kind = bearer_kind(bearer)
            if kind:
                out.append((f'gatt_server.{name}', kind))
    session = dev.smp_manager.sessions.get(handle)
    if session is not None and session.connection is conn:
        out.append(('smp_manager.sessions', 'session'))
    cm = dev.l2cap_channel_manager
    for name in ('channels', 'le_coc_channels', 'pending_credit_based_connections'):
        entry = getattr(cm, name, {}).get(handle)
        if entry:
            kinds = sorted({type(v).__name__ for v in entry.values()})
            out.append((f'l2cap_channel_manager.{name}', ','.join(kinds)))
    # pending LE CoC requests (keyed by (handle, identifier) where the tree attributes them to a link)
    for key in list(getattr(cm, 'le_coc_requests', {})):
        if isinstance(key, tuple) and key and key[0] == handle:
            out.append(('l2cap_channel_manager.le_coc_requests', 'request'))
    seen_queues = []
    for qname in ('acl_packet_queue', 'le_acl_packet_queue'):
        q = getattr(node.host, qname, None)
        if q is None or any(q is x for x in seen_queues):
            continue
        seen_queues.append(q)
        cs = q._connection_state.get(handle) if handle in q._connection_state else None
        if cs is not None and (cs.in_flight or cs.queued):
            out.append((f'host.{qname}', 'pending_packets', f'in_flight={cs.in_flight}, queued={cs.queued}'))
    return out


# ---------------------------------------------------------------------------
# one case
# ---------------------------------------------------------------------------
def norm_abandon(ab) -> dict:
    """The caller abandons the procedure. how: 'cancel' (task.cancel()) or 'timeout' (asyncio.wait_for());
    silent_at: the peer's host receives no ACL data once that many messages have crossed (None: the peer answers);
    at: message boundary at which the caller cancels (how='cancel' only; None: time-based);
    after_ms: the time-based give-up, in virtual ms after the start of the procedure."""
    how = ab.get('how') or 'cancel'
    if how not in ABANDON_HOW:
        raise HarnessError(f'unknown way to abandon {how!r}')
    silent_at, at, after_ms = ab.get('silent_at'), ab.get('at'), ab.get('after_ms')
    if how == 'timeout':
        at = None
    if at is None and after_ms is None:
        after_ms = ABANDON_AFTER_MS
    if silent_at is not None and after_ms is None:
        # with a silent peer the boundary `at` may never be reached: the caller gives up after 5 s at the latest
        after_ms = 5 * ABANDON_AFTER_MS
    out = {'how': how, 'silent_at': None if silent_at is None else int(silent_at),
           'at': None if at is None else int(at), 'after_ms': None if after_ms is None else int(after_ms)}
    if ab.get('on_event'):
        # the caller gives up at the very moment the Disconnection Complete event is handed to its host (task.cancel()
        # right before Host.on_packet: the cancellation and the event are processed in the same loop iteration)
        out['on_event'] = True
    return out


def norm_case(case) -> dict:
    """Plain-data case: procedure, boundary k, cut kind and one delay vector per node (d0 victim, d1 peer, d2 bystander)."""
    legacy = list(case.get('delays') or [])
    out = {'kind': 'cut', 'proc': case['proc'], 'k': (None if case.get('k') is None else int(case['k'])),
           'cut': case.get('cut')}
    if case.get('user'):
        out['user'] = case['user']  # 'never': the pairing user does not answer within the horizon (default: late)
    if case.get('abandon'):
        out['abandon'] = norm_abandon(case['abandon'])
    for i in range(3):
        d = case.get(f'd{i}')
        if d is None and i < len(legacy):
            d = legacy[i]
        out[f'd{i}'] = [int(x) for x in (d or [])]
    return out


def case_delays(case) -> list:
    return [case['d0'], case['d1'], case['d2']]


def run_case(ctx, case, measure: dict | None = None) -> None:
    case = norm_case(case)
    seed = int.from_bytes(hashlib.blake2b(repr((case['proc'], case['k'], case['cut'])).encode(), digest_size=4).digest(), 'big')
    with deterministic(seed):
        loop = vloop.new_loop()
        loop.max_iterations = 1_500_000
        try:
            _run_case(ctx, case, loop, measure)
        finally:
            loop.shutdown()


def _run_case(ctx, case, loop, measure) -> None:
    proc = PROC_BY_NAME[case['proc']]
    k, cut = case['k'], case['cut']
    classic = proc.classic
    env = Env(classic, rich_bystander=(cut == 'transport_lost'), user=case.get('user'))
    S: dict = {'count': 0, 'cut_fired': False, 'cut_task': None, 'lost': False, 'pending_at_cut': None,
               'count_at_done': None, 'silent': False, 'given_up': False, 'given_up_before_cut': False}
    ab = case.get('abandon')
    labels = {f'proc:{proc.name}', f'cut:{cut}' if cut else 'unfaulted'}
    env.count_fn = lambda: S['count']
    S['env'] = env
    if case.get('user') == 'never':
        labels.add('user:never')
    if ab:
        labels.update({'abandoned', f'abandoned/how:{ab["how"]}',
                       'abandoned/peer_silent' if ab['silent_at'] is not None else 'abandoned/peer_answers',
                       'abandoned/at_boundary' if ab['at'] is not None else 'abandoned/timed'})
    failed = []

    def fail(sig, what):
        failed.append(sig)
        how = f', abandoned by the caller before ({ab})' if ab else ''
        ctx.fail(sig, f'[{proc.name}, cut={cut} after message {k}{how}] {what}', case)

    # ---- phase A: world and the procedure's own set-up (never faulted)
    async def prepare():
        await env.build()
        S['state'] = await proc.setup(env)
        await asyncio.sleep(0.5)

    try:
        loop.complete(prepare(), 300)
    except (vloop.Stalled, vloop.HorizonExceeded, vloop.BudgetExceeded) as e:
        raise HarnessError(f'C16 set-up of {proc.name} did not finish: {type(e).__name__}')
    except Exception as e:  # noqa: BLE001
        raise HarnessError(f'C16 set-up of {proc.name} failed: {e!r}')

    local, peer = env.local, env.peer
    conn_l, conn_r = env.conn_l, env.conn_r
    handle_l, handle_r = conn_l.handle, conn_r.handle
    handle_bl, handle_b = env.conn_bl.handle, env.conn_b.handle
    if any(case_delays(case)):
        labels.add('delayed')
        for n, d in zip(env.w.nodes, case_delays(case)):
            if d:
                n.tap._delays = {world.H2C: n.tap._cycle(d, 0), world.C2H: n.tap._cycle(d, 1)}

    # ---- the cut
    def drop_when_lost(direction, packet):
        return None if S['lost'] else packet

    local.tap.filters.append(drop_when_lost)

    def silent_peer(direction, packet):
        # the peer never answers: what is sent to it over ACL no longer reaches its host
        if S['silent'] and direction == world.C2H and packet[:1] == bytes([hci.HCI_ACL_DATA_PACKET]):
            S['dropped_for_silence'] = S.get('dropped_for_silence', 0) + 1
            return None
        return packet

    if ab and ab['silent_at'] is not None:
        peer.tap.filters.append(silent_peer)
        if ab['silent_at'] <= 0:
            S['silent'] = True

    def give_up():
        # the caller abandons the procedure (task.cancel()); nothing to give up if it is over already
        ptask = S.get('ptask')
        if ptask is None or ptask.done() or S['given_up']:
            return
        S['given_up'] = True
        S['given_up_before_cut'] = not S['cut_fired']
        S['count_at_give_up'] = S['count']
        ptask.cancel()

    async def guarded(coro):
        try:
            await coro
            return ('ok',)
        except asyncio.CancelledError:
            return ('cancelled',)
        except Exception as e:  # noqa: BLE001 - an error ending of the cut's own disconnect is acceptable
            return ('raised', type(e).__name__)

    def controller_timeout(node, handle):
        """The controller of `node` declares the link lost (supervision timeout)."""
        c = node.controller
        if classic:
            for address, connection in list(c.classic_connections.items()):
                if connection.handle == handle:
                    c.on_classic_disconnected(address, hci.HCI_CONNECTION_TIMEOUT_ERROR)
        else:
            connection = c.find_le_connection_by_handle(handle)
            if connection is not None:
                c.on_le_disconnected(connection, hci.HCI_CONNECTION_TIMEOUT_ERROR)

    def fire_cut():
        if S['cut_fired'] or cut is None:
            return
        S['cut_fired'] = True
        S['pending_at_cut'] = not S['ptask'].done()
        S['count_at_cut'] = S['count']
        S['prompts_pending_at_cut'] = env.prompts_pending
        try:
            if cut == 'local_disconnect':
                S['cut_task'] = loop.create_task(guarded(conn_l.disconnect()))
            elif cut == 'remote_disconnect':
                S['cut_task'] = loop.create_task(guarded(conn_r.disconnect()))
            elif cut == 'link_loss':
                env.w.link.remove_controller(peer.controller)
                controller_timeout(local, handle_l)
            elif cut == 'transport_lost':
                try:
                    local.host.on_transport_lost()
                finally:
                    S['lost'] = True
            else:
                raise HarnessError(f'unknown cut kind {cut!r}')
        except HarnessError:
            raise
        except Exception as e:  # noqa: BLE001 - the stack's own reaction to the cut raised
            S['cut_error'] = e

    def listener(direction, packet):
        S['count'] += 1
        if ab:
            if ab['silent_at'] is not None and S['count'] >= ab['silent_at'] and not S.get('silence_over'):
                S['silent'] = True  # packets after this one
            if ab['at'] is not None and ab['at'] > 0 and S['count'] == ab['at']:
                loop.call_soon(give_up)  # scheduled before a cut at the same boundary
        if cut is not None and not S['cut_fired'] and k is not None and S['count'] == k:
            # after this packet has been handed to its sink
            loop.call_soon(fire_cut)

    for n in env.w.nodes:
        n.tap.listeners.append(listener)

    if ab and ab.get('on_event'):
        def give_up_as_event_arrives(direction, packet):
            if direction == world.C2H and packet[:2] == b'\x04\x05':
                labels.add('abandoned/as_disconnection_event_arrives')
                give_up()

        local.tap.listeners.append(give_up_as_event_arrives)

    base_tasks = set(loop.pending_tasks())

    async def procedure():
        try:
            if ab and ab['how'] == 'timeout':
                t_start, t_out = loop.time(), ab['after_ms'] / 1000.0
                try:
                    return ('ok', await asyncio.wait_for(proc.run(env, S['state']), t_out))
                except asyncio.TimeoutError:
                    if loop.time() < t_start + t_out - 1e-6:
                        raise  # a time-out of the stack itself, not the caller's
                    S['given_up'] = True
                    S['given_up_before_cut'] = not S['cut_fired']
                    S['count_at_give_up'] = S['count']
                    return ('given_up', 'timeout')
            return ('ok', await proc.run(env, S['state']))
        except asyncio.CancelledError:
            return ('cancelled',)
        except Exception as e:  # noqa: BLE001 - an error ending is what the property asks for
            return ('raised', type(e).__name__, str(e)[:120])

    async def drive():
        ptask = S['ptask'] = loop.create_task(procedure())

        def hop(n, fn):
            if n <= 0:
                fn()
            else:
                loop.call_soon(hop, n - 1, fn)

        if ab and ab['how'] == 'cancel':
            if ab['at'] == 0:
                loop.call_soon(hop, proc.start_hops, give_up)
            if ab['after_ms'] is not None:
                loop.call_later(ab['after_ms'] / 1000.0, give_up)
        if cut is not None and k == 0:
            loop.call_soon(hop, proc.start_hops, fire_cut)
        await asyncio.wait([ptask])
        S['count_at_done'] = S['count']
        if cut is not None and not S['cut_fired']:
            # the procedure finished in fewer than k messages: cut now (trivial case)
            await asyncio.sleep(0.2)
            fire_cut()
        if S['cut_task'] is not None:
            await asyncio.wait([S['cut_task']])

    hang = None
    try:
        loop.complete(drive(), H_WAIT)
    except vloop.Stalled:
        hang = 'stalled'
    except vloop.HorizonExceeded:
        hang = 'horizon'
    except vloop.BudgetExceeded:
        hang = 'budget'
    harness_tasks = {S['ptask'], S['cut_task']}
    # quiescence: beyond the 30 s GATT/indication time-outs
    if hang != 'budget':
        loop.run_for(QUIESCE)
        if loop.budget_hit:
            hang = 'budget'
    ptask = S['ptask']
    link_cut = cut in ('local_disconnect', 'remote_disconnect', 'link_loss')
    cls = 'transport' if cut == 'transport_lost' else 'link'

    if hang == 'budget':
        labels.add('iteration_budget_hit')
        fail(f'busy/{proc.name}/{cls}', 'the event loop did not become quiet within the iteration budget after the cut')
        _record(ctx, case, labels, S, proc, measure)
        return

    # ---- un-faulted run: this is the M measurement and the sanity check of the catalogue entry
    if cut is None:
        if not ptask.done():
            raise HarnessError(f'C16: un-faulted {proc.name} did not finish ({hang}) at {await_site(ptask)}')
        result = ptask.result()
        if result[0] != 'ok' or (proc.check is not None and not proc.check(result[1])):
            raise HarnessError(f'C16: un-faulted {proc.name} ended with {result!r}')
        if measure is not None:
            measure['M'] = S['count']
            measure['M_done'] = S['count_at_done']
            measure['prompt_at'] = env.prompt_at
        _record(ctx, case, labels, S, proc, measure)
        return

    if S.get('cut_error') is not None:
        e = S['cut_error']
        fail(f'cut_handler_raises/{cut}/{type(e).__name__}/{_site(e)}',
             f'the stack raised {e!r} at {_site(e)} while being told about the cut; its clean-up did not run to the end')

    # the same when the Disconnection Complete event reached the host through the HCI stream: an exception that
    # escaped Host.on_hci_disconnection_complete_event (the disconnection fan-out) ended up in the loop's handler
    for err in loop.errors:
        e = err.get('exception')
        if e is not None and e is not S.get('cut_error') and _through_fan_out(e):
            fail(f'cut_handler_raises/disconnection_complete/{type(e).__name__}/{_site(e)}',
                 f'the stack raised {e!r} at {_site(e)} while handling the Disconnection Complete event; the '
                 f'disconnection fan-out did not run to the end')

    # ---- clause 1: waiters released
    if not ptask.done():
        fail(f'waiter_hangs/{await_site(ptask)}/{cls}',
             f'{proc.what} is still pending ({hang or "after quiescence"}) in {await_site(ptask)}; '
             f'{S["count"]} messages had crossed, cut fired={S["cut_fired"]}')
    else:
        labels.add(f'ending:{ptask.result()[0]}')
    if S['cut_task'] is not None and not S['cut_task'].done():
        fail(f'waiter_hangs/{await_site(S["cut_task"])}/cut:{cut}',
             f'the {cut} that cuts the link is itself still pending in {await_site(S["cut_task"])}')
    left = [t for t in loop.pending_tasks() if t not in base_tasks and t not in harness_tasks]
    for t in left:
        fail(f'task_left_pending/{await_site(t)}/{cls}',
             f'a task started inside the stack during the procedure is still pending at quiescence: '
             f'{" > ".join(await_chain(t)) or t!r}')

    # ---- clause 2: tables agree (link cuts)
    if link_cut and S['cut_fired']:
        sides = [('local', local, handle_l)]
        if cut != 'link_loss':
            sides.append(('remote', peer, handle_r))
        for side, node, handle in sides:
            t = tables(node, handle)
            if any(t.values()):
                where = '+'.join(name for name, present in t.items() if present)
                fail(f'tables/closed_connection_still_listed/{side}/{where}',
                     f'{side} side after the cut: connection 0x{handle:04X} still in {where} ({t})')
        for side, node, handle in (('victim', local, handle_bl), ('bystander', env.bystander, handle_b)):
            t = tables(node, handle)
            if not all(t.values()):
                where = '+'.join(name for name, present in t.items() if not present)
                fail(f'tables/bystander_connection_lost/{side}/{where}',
                     f'the bystander connection 0x{handle:04X} disappeared from {where} on the {side} ({t})')

    # ---- clause 2b: a transport loss closes EVERY link of that host: host and device agree that none is left
    # (the controller cannot be told and is not judged)
    if cut == 'transport_lost' and S['cut_fired']:
        for which, handle in (('link_under_test', handle_l), ('second_link', handle_bl)):
            t = {'host': handle in local.host.connections, 'device': handle in local.device.connections}
            if any(t.values()):
                where = '+'.join(name for name, present in t.items() if present)
                fail(f'tables/connection_listed_after_transport_loss/{which}/{where}',
                     f'after the transport loss connection 0x{handle:04X} ({which}) is still listed in {where} ({t})')
        if not classic and env.by_channel is not None:
            labels.add('second_link_had_state')

    # ---- clause 3: per-connection state gone
    if S['cut_fired']:
        sides = [('local', local, conn_l, handle_l)]
        if cut in ('local_disconnect', 'remote_disconnect'):
            sides.append(('remote', peer, conn_r, handle_r))
        if cut == 'transport_lost':
            # the victim's other link went down with the same transport
            sides.append(('local_second_link', local, env.conn_bl, handle_bl))
            labels.add('second_link_judged')
        for side, node, conn, handle in sides:
            for table, detail, *more in stale_state(node, conn, handle, classic):
                fail(f'stale_state/{table}/{detail}/{side}/{cls}',
                     f'{side} side: {table} still holds {detail} state of the closed connection 0x{handle:04X}'
                     + (f' ({more[0]})' if more else ''))
            q = node.host.acl_packet_queue if classic else node.host.le_acl_packet_queue
            if q is not None:
                async def drain(q=q, handle=handle):
                    try:
                        await q.drain(handle)
                    except ValueError:
                        pass

                try:
                    loop.complete(drain(), 60)
                except (vloop.Stalled, vloop.HorizonExceeded):
                    fail(f'stale_state/acl_queue_drain_hangs/{side}/{cls}',
                         f'{side} side: DataPacketQueue.drain(0x{handle:04X}) never returns after the connection closed')

    # ---- clause 4: still usable (link cuts only)
    if link_cut and S['cut_fired'] and not failed:
        phase = {'name': 'bystander'}

        async def afterwards():
            env.user = 'late'
            S['silent'], S['silence_over'] = False, True
            await env.bystander_usable()
            phase['name'] = 'restore'
            if cut == 'link_loss':
                env.w.link.add_controller(peer.controller)
                controller_timeout(peer, handle_r)
                await asyncio.sleep(1.0)
            phase['name'] = 'connect'
            env.conn_l, env.conn_r = await env.connect(0, 1)
            phase['name'] = 'setup'
            state = await proc.setup(env)
            phase['name'] = 'procedure'
            result = await proc.run(env, state)
            if proc.check is not None and not proc.check(result):
                raise ValueError(f'wrong result {result!r}')

        try:
            loop.complete(afterwards(), H_WAIT)
        except (vloop.Stalled, vloop.HorizonExceeded) as e:
            sig = 'bystander_unusable/hang' if phase['name'] == 'bystander' else f'reconnect/{proc.name}/{phase["name"]}/hang'
            fail(sig, f'after the cut, phase {phase["name"]!r} never finishes ({type(e).__name__})')
        except vloop.BudgetExceeded:
            labels.add('iteration_budget_hit')
        except asyncio.CancelledError:
            fail(f'reconnect/{proc.name}/{phase["name"]}/CancelledError', f'after the cut, phase {phase["name"]!r} was cancelled')
        except Exception as e:  # noqa: BLE001 - judged: the same procedure must succeed on a new connection
            if phase['name'] == 'bystander':
                fail(f'bystander_unusable/{type(e).__name__}', f'the surviving bystander connection is not usable: {e!r}')
            else:
                fail(f'reconnect/{proc.name}/{phase["name"]}/{type(e).__name__}',
                     f'on a new connection between the same devices, phase {phase["name"]!r} fails: {e!r}')
        else:
            labels.add('reconnected_and_repeated')
            # outbound data of everything that is over must have been accounted for
            q = local.host.acl_packet_queue if classic else local.host.le_acl_packet_queue
            loop.run_for(1.0)
            if q is not None and q.pending != 0:
                fail(f'stale_state/acl_queue_pending/{cls}', f'DataPacketQueue.pending = {q.pending} with nothing left to send')
    _record(ctx, case, labels, S, proc, measure)


def _record(ctx, case, labels, S, proc, measure) -> None:
    cut, k = case['cut'], case['k']
    inside = bool(S.get('pending_at_cut'))
    family = ('hci_status_event' if proc.name in EXT_HCI_PROCS else 'user_in_the_loop' if proc.name in USER_PROCS
              else 'multi_waiter' if proc.name in MULTI_PROCS else None)
    if cut is not None and family and inside:
        labels.add(f'family:{family}/cut_inside')
        if any(case_delays(case)):
            labels.add(f'family:{family}/delayed')
    ab = case.get('abandon')
    gave_up = bool(ab and cut is not None and S.get('given_up_before_cut') and S.get('cut_fired'))
    if ab and cut is not None:
        if gave_up:
            labels.update({'abandoned/given_up_before_cut', f'abandoned/given_up_before_cut/{ab["how"]}',
                           f'abandoned/given_up_before_cut/cut:{cut}', f'abandoned/given_up_before_cut/proc:{proc.name}'})
            if S.get('dropped_for_silence'):
                labels.add('abandoned/given_up_before_cut/peer_was_silent')
            elif ab['silent_at'] is None:
                labels.add('abandoned/given_up_before_cut/peer_answering')
            if any(case_delays(case)):
                labels.add('abandoned/given_up_before_cut/delayed')
        elif S.get('given_up'):
            labels.add('abandoned/given_up_after_cut')
        else:
            labels.add('abandoned/nothing_to_give_up')
    if cut is not None:
        labels.add('cut_inside_procedure' if inside else 'cut_outside_procedure')
        if k == 0:
            labels.add('cut_before_first_message')
        if S['env'].prompts_cancelled:
            labels.add('user_prompt_cancelled_by_cut')
        if S.get('prompts_pending_at_cut'):
            labels.add('user_prompt_pending_at_cut')
    nontrivial = cut is not None and (inside or gave_up or cut == 'transport_lost')
    fp = (case['proc'], k, cut, case_delays(case)) + ((case['user'],) if case.get('user') else ())
    if ab:
        fp += (('abandon', ab['how'], ab['silent_at'], ab['at'], ab['after_ms'], bool(ab.get('on_event'))),)
    ctx.case(fp, nontrivial, labels,
             sample={'proc': case['proc'], 'what': proc.what, 'k': k, 'cut': cut, 'delays_ms': case_delays(case),
                     **({'abandon': ab, 'messages_at_give_up': S.get('count_at_give_up')} if ab else {}),
                     'messages_at_cut': S.get('count_at_cut'), 'procedure_pending_at_cut': S.get('pending_at_cut')})


# ---------------------------------------------------------------------------
def measure_all(ctx) -> dict:
    out = {}
    for p in PROCS:
        m: dict = {}
        run_case(ctx, {'proc': p.name, 'k': None, 'cut': None, 'delays': []}, measure=m)
        out[p.name] = m
    return out


def run(ctx) -> None:
    vloop.selftest()
    M = measure_all(ctx)
    ctx.extra['catalogue'] = {p.name: ('BR/EDR: ' if p.classic else 'LE: ') + p.what for p in PROCS}
    ctx.extra['M'] = {name: m['M'] for name, m in M.items()}
    ctx.extra['M_when_awaitable_returns'] = {name: m['M_done'] for name, m in M.items()}
    ctx.extra['cut_kinds'] = list(KINDS)

    ctx.extra['user_prompt_at'] = {name: M[name]['prompt_at'] for name in USER_PROCS}

    def boundaries(p) -> list:
        """k values enumerated for procedure p: all of them; in the quick tier a stratified subset for the long
        variants of procedures that are enumerated in full elsewhere (pairing with a user, two classic channels)."""
        ks = list(range(0, M[p.name]['M'] + 1))
        if not ctx.quick:
            return ks
        if p.name in USER_PROCS:
            at = M[p.name]['prompt_at']
            phase = sorted(USER_PROCS).index(p.name)
            return [k for k in ks if abs(k - at) <= 2 or k % 5 == phase or k == ks[-1]]
        if p.name == 'classic_l2cap_connect_two_links':
            return [k for k in ks if k % 2 == 0 or k == ks[-1]]
        return ks

    def user_mode(p, k, cut):
        """'never' where it is certain that the cut fires no later than the moment the slow user is asked: the user
        has not answered when the link goes away (and never will within the horizon)."""
        if p.name not in USER_PROCS or k > M[p.name]['prompt_at']:
            return None
        if USER_PROCS[p.name] == 1 and cut not in ('local_disconnect', 'remote_disconnect'):
            return None  # the peer is not told about these cuts: its user must be allowed to answer
        return 'never'

    # ---- enumeration of the boundaries at zero delay
    n = 0
    for p in PROCS:
        for k in boundaries(p):
            for cut in KINDS:
                n += 1
                if n % ctx.nshards != ctx.shard:
                    continue
                if ctx.out_of_time():
                    ctx.label('budget_hit:enumeration')
                    continue
                case = {'proc': p.name, 'k': k, 'cut': cut, 'delays': []}
                if user_mode(p, k, cut):
                    case['user'] = user_mode(p, k, cut)
                run_case(ctx, case)
    ctx.extra['boundaries_enumerated'] = sum(len(boundaries(p)) for p in PROCS)

    # ---- command/status/event procedures: every boundary x cut kind x directed delay vectors of the victim's HCI
    # stream that separate the Command Status from the completion event (and from the Disconnection Complete)
    vectors = ctx.pick([[50, 0]], [[0, 50], [50, 0], [50], [7], [0, 0, 50], [1, 50, 7]])
    peer_vectors = ctx.pick([[]], [[], [50]])
    for name in EXT_HCI_PROCS:
        for k in range(0, M[name]['M'] + 1):
            for cut in KINDS:
                for d0 in vectors:
                    for d1 in peer_vectors:
                        n += 1
                        if n % ctx.nshards != ctx.shard:
                            continue
                        if ctx.out_of_time():
                            ctx.label('budget_hit:enumeration')
                            continue
                        run_case(ctx, {'proc': name, 'k': k, 'cut': cut, 'd0': d0, 'd1': d1, 'd2': []})

    # ---- procedures abandoned by their caller before the cut: the peer is silent from message s on, the caller gives
    # up (task.cancel() / asyncio.wait_for()) after 1 s, the cut follows 0.2 s later. Every s x cut kind; how alternates
    # in the quick tier.
    ab_enum = ABANDON_SHORT if ctx.quick else ABANDON_PROCS
    row_start = 0
    ctx.extra['abandon_enumerated'] = list(ab_enum)
    ctx.extra['abandon_generated'] = {'silent_peer': list(ABANDON_PROCS), 'cancel_at_boundary': [p.name for p in PROCS]}
    for name in ab_enum:
        for s_at in range(0, M[name]['M'] + 1):
            given_up_so_far = ctx.labels.get('abandoned/given_up_before_cut', 0)
            if ctx.quick and s_at > 0 and given_up_so_far == row_start:
                # quick tier: a peer that went silent after s - 1 messages left nothing to give up under any cut kind
                # (the procedure had its answers already), and going silent later drops no more than that
                ctx.label('abandoned/enumeration_stopped_early')
                break
            row_start = given_up_so_far
            for ci, cut in enumerate(KINDS):
                hows = (ABANDON_HOW[(s_at + ci) % 2],) if ctx.quick else ABANDON_HOW
                for how in hows:
                    n += 1
                    if n % ctx.nshards != ctx.shard:
                        continue
                    if ctx.out_of_time():
                        ctx.label('budget_hit:enumeration')
                        continue
                    run_case(ctx, {'proc': name, 'k': None, 'cut': cut, 'delays': [],
                                   'abandon': {'how': how, 'silent_at': s_at, 'after_ms': ABANDON_AFTER_MS}})

    # ---- the caller gives up at the very moment the Disconnection Complete is handed to its host (every process runs
    # this small family): all 37+ procedures x the three cut kinds that end in that event, k = 0 and k = None
    for p in PROCS:
        for cut in ('local_disconnect', 'remote_disconnect', 'link_loss'):
            for k in (0, None):
                if ctx.out_of_time():
                    ctx.label('budget_hit:enumeration')
                    continue
                run_case(ctx, {'proc': p.name, 'k': k, 'cut': cut, 'delays': [],
                               'abandon': {'how': 'cancel', 'on_event': True, 'after_ms': 30000}})

    # ---- generated delays for a sample of (procedure, k, cut)
    def triple(name):
        return st.fixed_dictionaries({
            'proc': st.just(name),
            'k': st.integers(0, M[name]['M']),
            'cut': st.sampled_from(KINDS),
            'delays': st.lists(st.lists(st.sampled_from([0, 0, 0, 1, 7, 50]), min_size=0, max_size=5), min_size=3, max_size=3)
            .filter(lambda d: any(any(x) for x in d)),
        }).map(norm_case)

    new = set(EXT_HCI_PROCS) | set(USER_PROCS) | set(MULTI_PROCS)
    strategy = st.sampled_from([p.name for p in PROCS if p.name not in new]).flatmap(triple)
    ctx.hyp('delayed', lambda c: run_case(ctx, c), strategy, max_examples=ctx.n(500, 32000))
    strategy = st.sampled_from(sorted(new)).flatmap(triple)
    ctx.hyp('delayed_ext', lambda c: run_case(ctx, c), strategy, max_examples=ctx.n(120, 9600))

    # ---- generated abandonments: silent peer x time-based give-up; task.cancel() at a boundary with the peer answering
    # and the cut at a later boundary (or after the answers in flight arrived); both; short wait_for() under delays
    delay_vectors = st.lists(st.lists(st.sampled_from([0, 0, 0, 1, 7, 50]), min_size=0, max_size=5), min_size=3, max_size=3)

    @st.composite
    def abandoned(draw):
        # the small choices first, the long delay vectors last (late draws of a long example are biased to the
        # first alternative)
        cut = draw(st.sampled_from(KINDS))
        silent_ok = draw(st.booleans())
        mode = draw(st.sampled_from(['silent_timed', 'silent_timed', 'silent_cancel_at', 'cancel_at'] if silent_ok
                                    else ['cancel_at', 'cancel_at', 'cancel_at', 'short_timeout']))
        cut_at_boundary = draw(st.booleans())
        how = draw(st.sampled_from(ABANDON_HOW))
        name = draw(st.sampled_from(sorted(ABANDON_PROCS) if silent_ok else [p.name for p in PROCS]))
        Mn = M[name]['M']
        if mode == 'silent_timed':
            ab = {'how': how, 'silent_at': draw(st.integers(0, Mn)), 'after_ms': draw(st.sampled_from([200, 1000, 5000]))}
            k = draw(st.integers(0, Mn)) if cut_at_boundary else None
        elif mode == 'short_timeout':
            ab = {'how': 'timeout', 'silent_at': None, 'after_ms': draw(st.sampled_from([1, 7, 60]))}
            k = draw(st.integers(0, Mn)) if cut_at_boundary else None
        else:
            at = draw(st.integers(0, Mn))
            ab = {'how': 'cancel', 'silent_at': draw(st.integers(0, Mn)) if mode == 'silent_cancel_at' else None, 'at': at}
            k = draw(st.integers(at, Mn)) if cut_at_boundary else None
        if mode == 'short_timeout':
            delays = draw(delay_vectors.filter(lambda d: any(any(x) for x in d)))
        else:
            delays = draw(st.one_of(st.just([[], [], []]), delay_vectors))
        return norm_case({'proc': name, 'k': k, 'cut': cut, 'delays': delays, 'abandon': ab})

    ctx.hyp('abandoned', lambda c: run_case(ctx, c), abandoned(), max_examples=ctx.n(160, 16000))

    for kind in KINDS:
        ctx.floor(f'cut:{kind}', 20)
    ctx.floor('cut_inside_procedure', 50)
    ctx.floor('cut_before_first_message', 10)
    ctx.floor('delayed', 20)
    ctx.floor('reconnected_and_repeated', 20)
    for p in PROCS:
        ctx.floor(f'proc:{p.name}', 3)
    # the classes added by the extension (small enumerated families are spread over the shards of the thorough
    # tier, so their floors apply to the single-process tier only)
    single = ctx.nshards == 1
    ctx.floor('family:hci_status_event/cut_inside', 30 if single else 3)
    ctx.floor('family:hci_status_event/delayed', 20 if single else 3)
    ctx.floor('family:multi_waiter/cut_inside', 30 if single else 3)
    ctx.floor('family:user_in_the_loop/cut_inside', 30 if single else 3)
    ctx.floor('user:never', 20 if single else 0)
    ctx.floor('user_prompt_cancelled_by_cut', 6 if single else 0)
    ctx.floor('user_prompt_pending_at_cut', 6 if single else 0)
    ctx.floor('second_link_had_state', 20)
    ctx.floor('second_link_judged', 20)
    # extension 2: the caller gave up a pending procedure and the cut came afterwards (enumerated family spread over
    # the shards + the generated family of every shard: the floors hold per shard)
    ctx.floor('abandoned/given_up_before_cut', 150 if single else 200)
    ctx.floor('abandoned/as_disconnection_event_arrives', 20)
    for how in ABANDON_HOW:
        ctx.floor(f'abandoned/given_up_before_cut/{how}', 40)
    for kind in KINDS:
        ctx.floor(f'abandoned/given_up_before_cut/cut:{kind}', 25 if single else 30)
    ctx.floor('abandoned/given_up_before_cut/peer_was_silent', 100)
    ctx.floor('abandoned/given_up_before_cut/peer_answering', 10 if single else 50)
    ctx.floor('abandoned/given_up_before_cut/delayed', 10 if single else 50)
    for name in ABANDON_SHORT:
        ctx.floor(f'abandoned/given_up_before_cut/proc:{name}', 4 if single else 1)


def replay(ctx, case) -> None:
    run_case(ctx, case)
