"""
C17 - Hostile peer or controller input cannot wedge or derail the stack.

Layer (a), world level: a full Bumble Device (the victim) is connected to a peer that injects
arbitrary L2CAP payloads on every fixed and dynamic channel, and arbitrary HCI packets are
injected at the victim host's `on_packet`. Each injected frame is processed to quiescence on
the virtual loop under an interpreter-event budget (`sys.monitoring` LINE+JUMP events); after
the sequence a well-formed REFERENCE REQUEST per channel/protocol must still be answered.

  LE world      victim = vlib.world.World(1) node (GATT server with a known read-only
                characteristic, SMP, LE signalling, an LE CoC server) <-> vlib.world.RawPeer
                (bare Host + Controller, hand-made frames on CID 4/5/6, other CIDs and an LE
                CoC it opened by hand).
  classic world victim = World(2, classic=True) node 1 (SDP server with a known record, RFCOMM
                server with an hfp.AgProtocol (or HfProtocol) on a DLC, AVDTP listener with a
                sink endpoint, AVRCP/AVCTP listener) <-> node 0, a second full Bumble Device
                that opens the channels normally (sdp.Client, rfcomm.Client + HfProtocol SLC,
                avdtp.Protocol.connect, avrcp.Protocol.connect), is then detached from them
                (its channel sinks are replaced by recorders) and injects raw payloads with
                `channel.send_pdu(bytes)` / `host.send_l2cap_pdu(handle, cid, bytes)` /
                `dlc.write(bytes)` (AT stream).

Layer (b), parser level: the byte-level parsers and stateful assemblers/AT readers, fresh
objects per input, under the same event budget; Hypothesis-driven in every tier and atheris
(coverage guided, one subprocess per target) in the thorough tier.
"""

from __future__ import annotations

import asyncio
import json
import logging
import os
import struct
import subprocess
import sys

_ATHERIS = None
if __name__ == '__main__' and '--fuzz' in sys.argv:
    # fuzz subprocess: bumble must be imported under atheris' import hook BEFORE vlib pulls it in
    logging.disable(logging.CRITICAL)
    try:
        import atheris as _ATHERIS

        # only the modules the target parses with (instrumenting all of bumble costs more than the fuzzing)
        _t = sys.argv[sys.argv.index('--fuzz') + 1] if sys.argv.index('--fuzz') + 1 < len(sys.argv) else ''
        _mods = {
            'l2cap_control': ['bumble.l2cap', 'bumble.hci'], 'att_pdu': ['bumble.att', 'bumble.hci'],
            'smp_command': ['bumble.smp', 'bumble.hci'], 'sdp_data_element': ['bumble.sdp', 'bumble.core'],
            'sdp_pdu': ['bumble.sdp', 'bumble.core'], 'rfcomm_frame': ['bumble.rfcomm'], 'rfcomm_mcc': ['bumble.rfcomm'],
            'at_parameters': ['bumble.at'], 'hci_packet': ['bumble.hci'], 'advertising_data': ['bumble.core'],
            'avc_frame': ['bumble.avc'], 'avdtp_assembler': ['bumble.avdtp', 'bumble.a2dp'],
            'avctp_assembler': ['bumble.avctp'], 'at_reader_ag': ['bumble.hfp', 'bumble.at'],
            'at_reader_hf': ['bumble.hfp', 'bumble.at'],
        }.get(_t, ['bumble'])
        with _ATHERIS.instrument_imports(include=_mods, enable_loader_override=False):
            from bumble import (a2dp, at, att, avc, avctp, avdtp, avrcp, core, gatt, hci, hfp, l2cap, rfcomm,  # noqa: F401
                                sdp, smp)
    except Exception as _e:  # noqa: BLE001 - reported through the result file
        _ATHERIS = _e

from hypothesis import strategies as st

from vlib import specgen, vloop, world
from vlib.runner import HarnessError

PROPERTY = 'C17'
LEVEL = 'exploration'
RULE = (
    'world cases: a primary target channel (LE: att/lesig/smp/coc/other CIDs/hci; classic: sig/smpbr/connless/'
    'other CIDs/sdp/rfcomm/at/athf/avdtp/avctp/hci) and a sequence of 1..20 frames, each a valid PDU of the '
    'target protocol (registry-built with vlib.specgen or captured from the set-up traffic of the same world) '
    'with 1..4 structure-aware mutations (truncate, extend, bit flip, length field 0/max/len+-1, duplicate, '
    'SDP sequences nested 1..1500 deep with 0..2 siblings per level, ACL PB-flag permutations and L2CAP length lies, AT lines split / '
    'unterminated / over-long / invalid UTF-8) or plain random bytes; every frame is processed to quiescence '
    'under the event budget; then one reference request per protocol. non-trivial = at least one frame is a '
    'mutated valid PDU, or the victim replied to a frame, or a frame raised inside the stack; distinct by '
    '(world, opened protocols, frames). parser cases: bytes (random or mutated valid PDUs) into each parser / '
    'assembler / AT reader, fresh objects per input; non-trivial = the parser accepted the input or a stateful '
    'reader was left mid-message. client-role cases (targets gattc / sdpc / avdtpc): the victim runs its OWN client '
    '(Connection.gatt_client on the LE link; sdp.Client and avdtp.Protocol.connect towards a genuine server on the '
    'classic peer, detached after the set-up) with 0..2 calls outstanding (one stratum per call kind) while the peer '
    'sends 1..16 mutated RESPONSES: registry-built and hand-made answers, half of them of the kind the outstanding call '
    'waits for, carrying the transaction identifier / label of the victim\'s latest request (origins mutp / validp), '
    'silences of 29 / 31 s across the 30 s GATT time-out; non-trivial additionally when a hostile frame ended one of '
    'the calls. burst cases: the ordinary world cases with 2 / 3 / all frames delivered back to back (no loop '
    'iteration in between; quiescence and the event budget apply to the burst). directed: a request that leaves a '
    'partial SDP response behind (maximum byte count 0/1/7/20) followed by 1 or 3 requests of each of the three '
    'kinds that carry the server\'s own continuation state (144 cases, a sixth of them in the quick tier).'
)
ASSUMPTIONS = [
    'a third of the world cases put the victim host behind bumble.transport.common.PacketParser (case key "stream"), the way every '
    'byte-stream transport delivers controller packets; the others hand packets to Host.on_packet directly (in-process wiring)',
    '"terminates promptly" = at most CAP interpreter events (sys.monitoring LINE+JUMP) while the virtual loop '
    'processes one injected frame to quiescence; CAP is 5 M and asserted to be >= 50x the most expensive '
    'well-formed frame measured at start-up; a hit is re-run with 10x CAP and only a second hit is a violation',
    'a valid disconnect = HCI Disconnection Complete (status 0) for the handle, a Connection Complete / LE '
    '(Enhanced) Connection Complete with status 0 that re-announces the same handle (the controller replaces the '
    'connection), an L2CAP Disconnection Request naming the victim-side CID of the channel (Bumble ignores its '
    'length and source CID, so does the classification), an RFCOMM DISC/DM frame; after one, the reference '
    'requests that need the closed object are skipped (both outcomes accepted)',
    'the reference request on a byte stream (AT) is preceded by one complete well-formed command whose answer '
    'is ignored, so that a hostile unterminated line is terminated before the judged request starts',
    'on an LE CoC the reference SDU is only judged when the hostile frames left the channel at an SDU boundary '
    'and within its credits (harness-side model); otherwise the spec lets the receiver close the channel',
    'ordinary exceptions (loop exception handler, logger.exception, raised out of Host.on_packet) are counted '
    'in labels, never failures; RecursionError / MemoryError are violations',
    'client role: "a subsequent well-formed request is answered correctly" is read from the victim\'s side as: once '
    'every request its client has put on the wire got a well-formed negative answer from the harness (ATT Error '
    'Response Attribute Not Found, SDP Error Response, AVDTP Response Reject; the outcome of those calls is '
    'ignored, any result or ordinary exception will do), none of the victim\'s calls is still waiting, and a fresh call '
    '(read_value / search_attributes / discover_remote_endpoints) whose requests the harness answers well-formed '
    'returns the right value; the ordinary server-side references of the same link are judged as well',
    'a call that the victim\'s own API refuses on the spot (sdp.Client takes one call at a time) is not counted as '
    'ended by a hostile frame',
]
SHRINK_KEYS = ('frames', 'chunks', 'pending')

CAP = 5_000_000
QUIET_AFTER = 1.5
REF_WAIT = 1.5
KNOWN_VALUE = b'C17-known-value'
KNOWN_TEXT = b'C17 known record'
SDP_HANDLE = 0x00010017
RF_CHANNEL = 5
COC_PSM = 0x0081
KNOWN_UUID128 = '7A1C0017-0000-1000-8000-00805F9B34FB'

_bumble = None


def B():
    """Lazy import of the bumble modules (so that `--fuzz` subprocesses can instrument them)."""
    global _bumble
    if _bumble is None:
        import types

        from bumble import (a2dp, at, att, avc, avctp, avdtp, avrcp, core, gatt, hci, hfp, l2cap, rfcomm, sdp, smp)

        _bumble = types.SimpleNamespace(a2dp=a2dp, at=at, att=att, avc=avc, avctp=avctp, avdtp=avdtp, avrcp=avrcp,
                                        core=core, gatt=gatt, hci=hci, hfp=hfp, l2cap=l2cap, rfcomm=rfcomm,
                                        sdp=sdp, smp=smp)
    return _bumble


# ---------------------------------------------------------------------------
# interpreter-event meter
# ---------------------------------------------------------------------------
class _Trip(BaseException):
    """Raised inside the monitored code when the event budget is exhausted."""


class Meter:
    def __init__(self):
        self.mon = sys.monitoring
        self.tool = None
        self.n = 0
        self.cap = 1 << 62
        self.tripped = False
        self.trip_site = ''
        self.loop = None
        self.active = False
        self.keep_on = False  # fuzz subprocess: toggling the events per input costs more than the parsing

    def install(self):
        if self.tool is not None:
            return
        for tid in (4, 3, 5, 2, 1, 0):
            try:
                self.mon.use_tool_id(tid, 'c17')
            except ValueError:
                continue
            self.tool = tid
            break
        if self.tool is None:
            raise HarnessError('no free sys.monitoring tool id')
        ev = self.mon.events
        self.mon.register_callback(self.tool, ev.LINE, self._event)
        self.mon.register_callback(self.tool, ev.JUMP, self._event)

    def _event(self, code, *_a):
        self.n += 1
        if self.n > self.cap:
            self.cap = 1 << 62
            self.tripped = True
            self.trip_site = f'{os.path.basename(code.co_filename)}:{code.co_name}'
            if self.loop is not None:
                self.loop.stop()
            raise _Trip()

    def start(self, cap: int, loop=None):
        self.install()
        self.n = 0
        self.cap = cap
        self.tripped = False
        self.trip_site = ''
        self.loop = loop
        if not self.active:
            self.active = True
            ev = self.mon.events
            self.mon.set_events(self.tool, ev.LINE | ev.JUMP)

    def stop(self) -> int:
        if self.active and not self.keep_on:
            self.mon.set_events(self.tool, 0)
            self.active = False
        self.cap = 1 << 62  # (keep_on: events keep coming, never trip outside a window)
        self.loop = None
        return self.n


METER = Meter()


class _LogCatcher(logging.Handler):
    """Collects the exceptions Bumble reports with logger.exception()."""

    def __init__(self):
        super().__init__(level=logging.ERROR)
        self.excs: list = []

    def emit(self, record):
        if record.exc_info and record.exc_info[1] is not None:
            self.excs.append(record.exc_info[1])


class _Logs:
    """Context manager: enable ERROR records of the 'bumble' logger into a catcher, restore afterwards."""

    def __enter__(self):
        self.catcher = _LogCatcher()
        self.logger = logging.getLogger('bumble')
        self.prev = (logging.root.manager.disable, self.logger.level, self.logger.propagate)
        logging.disable(logging.WARNING)
        self.logger.setLevel(logging.ERROR)
        self.logger.propagate = False
        self.logger.addHandler(self.catcher)
        return self.catcher

    def __exit__(self, *a):
        self.logger.removeHandler(self.catcher)
        logging.disable(self.prev[0])
        self.logger.setLevel(self.prev[1])
        self.logger.propagate = self.prev[2]


def _site(exc) -> str:
    tb = exc.__traceback__
    site = '?'
    while tb is not None:
        fn = tb.tb_frame.f_code.co_filename
        if '/bumble/' in fn:
            site = f'{fn.split("/bumble/")[-1]}:{tb.tb_frame.f_code.co_name}'
        tb = tb.tb_next
    return site


# ---------------------------------------------------------------------------
# rigs
# ---------------------------------------------------------------------------
class Rig:
    def __init__(self, loop, kind: str, opens):
        self.loop = loop
        self.kind = kind
        self.opens = set(opens)
        self.victim = None  # world.Node
        self.link = None
        self.vname = ''
        self.vconn = None
        self.vhandle = None
        self.phandle = None
        self.raw_send = None  # (cid, bytes) -> None
        self.chans: dict[str, dict] = {}
        self.refs: list = []  # (name, needs, fn)
        self.sync_errors: list = []
        self.peer_errors: list = []
        self.cap = CAP
        self.max_events = 0
        self.closed: set = set()
        self.state: dict = {}

    # what the victim sent to the peer on `peer_cid` since acl_log index `mark`
    def from_victim(self, mark: int, peer_cid: int) -> list:
        out = []
        for sender, _dest, data in self.link.acl_log[mark:]:
            if sender != self.vname or len(data) < 4:
                continue
            length, cid = struct.unpack_from('<HH', data, 0)
            if cid == peer_cid:
                out.append(bytes(data[4 : 4 + length]))
        return out

    def to_victim(self, mark: int, victim_cid: int, end=None) -> list:
        out = []
        for sender, _dest, data in self.link.acl_log[mark:end]:
            if sender == self.vname or len(data) < 4:
                continue
            length, cid = struct.unpack_from('<HH', data, 0)
            if cid == victim_cid:
                out.append(bytes(data[4 : 4 + length]))
        return out

    def victim_activity(self, mark_acl: int, mark_hci: int) -> bool:
        if any(s == self.vname for s, _d, _x in self.link.acl_log[mark_acl:]):
            return True
        return any(d == world.H2C for _t, d, _p in self.victim.tap.log[mark_hci:])

    def run(self, duration: float) -> None:
        """Run the loop for `duration` virtual seconds under the meter."""
        METER.start(self.cap, self.loop)
        try:
            self.loop.run_for(duration)
        finally:
            n = METER.stop()
        self.max_events = max(self.max_events, n)
        if METER.tripped or self.loop.budget_hit:
            raise BusyLoop(METER.trip_site or 'loop_iterations')


def settle(loop, max_rounds: int = 50_000) -> bool:
    """Run the loop until nothing is ready and no timer is due at the current virtual time.
    (vloop.run_for(0) is ONE iteration: call_soon chains need several.) False = still busy after max_rounds."""
    for _ in range(max_rounds):
        loop.run_for(0)
        if METER.tripped:
            return True
        if loop._ready:  # noqa: SLF001 - same private field vloop relies on
            continue
        t = loop._next_timer()  # noqa: SLF001
        if t is None or t._when > loop.time():  # noqa: SLF001
            return True
    return False


class BusyLoop(Exception):
    def __init__(self, site):
        super().__init__(site)
        self.site = site


def _gatt_setup(device, rig):
    b = B()
    known = b.gatt.Characteristic(
        'C17A0001-0000-1000-8000-00805F9B34FB', b.gatt.Characteristic.Properties.READ,
        b.gatt.Attribute.READABLE, KNOWN_VALUE)
    other = b.gatt.Characteristic(
        'C17A0002-0000-1000-8000-00805F9B34FB',
        b.gatt.Characteristic.Properties.READ | b.gatt.Characteristic.Properties.WRITE
        | b.gatt.Characteristic.Properties.NOTIFY,
        b.gatt.Attribute.READABLE | b.gatt.Attribute.WRITEABLE, b'writable')
    device.add_service(b.gatt.Service('C17A0000-0000-1000-8000-00805F9B34FB', [known, other]))
    rig.state['value_handle'] = known.handle


def _smp_pairing_request() -> bytes:
    # io=NoInputNoOutput, no oob, auth=bonding|sc, max key 16, distribute enc+id both ways
    return bytes([0x01, 0x03, 0x00, 0x09, 0x10, 0x03, 0x03])


async def build_le(rig: Rig, case) -> None:
    b = B()
    w = world.World(1, stream=bool(case.get('stream')))
    node = w[0]
    rig.victim, rig.link, rig.vname = node, w.link, node.controller.name
    _gatt_setup(node.device, rig)
    coc_rx: list = []
    rig.state['coc_rx'] = coc_rx

    def on_coc(channel):
        channel.sink = lambda sdu: coc_rx.append(bytes(sdu))

    node.device.create_l2cap_server(
        spec=b.l2cap.LeCreditBasedChannelSpec(psm=COC_PSM, mtu=512, mps=64, max_credits=64), handler=on_coc)
    await w.power_on()
    peer = world.RawPeer(w, 9)
    await peer.start()
    rig.vconn = await peer.connect_to(node.device)
    rig.vhandle = rig.vconn.handle
    rig.phandle = peer.handle
    rig.state['peer'] = peer

    def raw_send(cid, data):
        peer.host.send_l2cap_pdu(peer.handle, cid, data)

    rig.raw_send = raw_send
    rig.chans['att'] = {'send': lambda d: raw_send(4, d), 'peer_cid': 4, 'victim_cid': 4}
    rig.chans['lesig'] = {'send': lambda d: raw_send(5, d), 'peer_cid': 5, 'victim_cid': 5}
    rig.chans['smp'] = {'send': lambda d: raw_send(6, d), 'peer_cid': 6, 'victim_cid': 6}
    if 'coc' in rig.opens:
        mark = len(rig.link.acl_log)
        raw_send(5, bytes(b.l2cap.L2CAP_LE_Credit_Based_Connection_Request(
            identifier=0x21, le_psm=COC_PSM, source_cid=0x0050, mtu=512, mps=64, initial_credits=200)))
        await asyncio.sleep(0.1)
        dcid = None
        for p in rig.from_victim(mark, 5):
            if len(p) >= 14 and p[0] == 0x15 and p[1] == 0x21 and p[12:14] == b'\x00\x00':
                dcid = struct.unpack_from('<H', p, 4)[0]
                rig.state['coc_credits'] = struct.unpack_from('<H', p, 10)[0]
        if dcid is None:
            raise HarnessError('LE CoC set-up failed')
        rig.chans['coc'] = {'send': lambda d: raw_send(dcid, d), 'peer_cid': 0x0050, 'victim_cid': dcid}
    rig.refs = [('att', {'link'}, ref_att), ('lesig', {'link'}, ref_lesig), ('sigrej', {'link'}, lambda r: ref_sigrej(r, 5)),
                ('smp', {'link'}, ref_smp)]
    # raw ACL packets through the peer's own controller (RawPeer.send_acl): 'pacl:<pb flag>'
    for pb in range(4):
        rig.chans[f'pacl:{pb}'] = {'send': lambda d, pb=pb: peer.send_acl(d, pb)}
    if 'coc' in rig.opens:
        rig.refs.append(('coc', {'link', 'chan:coc'}, ref_coc))
    rig.refs.append(('hci', set(), ref_hci))
    if 'gattc' in rig.opens:
        # client role: the victim's own GATT client (Connection.gatt_client) talks to the hostile peer on CID 4
        rig.state['gattc'] = rig.vconn.gatt_client
        rig.chans['gattc'] = {'send': lambda d: raw_send(4, d), 'peer_cid': 4, 'victim_cid': 4}
        rig.refs.insert(0, ('gattc', {'link'}, ref_gattc))
    await _start_pending(rig, case)


# -- client role: the victim has requests of its own outstanding ---------------
GATTC_VALUE = b'C17 peer value'
CLIENT_OPS = {
    'gattc': ['read', 'read', 'read_long', 'disc', 'disc_uuid', 'attrs', 'by_uuid', 'write', 'mtu'],
    'sdpc': ['search_attributes', 'search_attributes', 'search_services', 'get_attributes'],
    'avdtpc': ['discover', 'discover', 'caps', 'getcfg'],
}


def _client_op(rig: Rig, target: str, op: str):
    b = B()
    if target == 'gattc':
        c = rig.state['gattc']
        return {
            'read': lambda: c.read_value(0x0031, no_long_read=True), 'read_long': lambda: c.read_value(0x0031),
            'disc': lambda: c.discover_services(), 'disc_uuid': lambda: c.discover_service(b.core.UUID.from_16_bits(0x180F)),
            'attrs': lambda: c.discover_attributes(),
            'by_uuid': lambda: c.read_characteristics_by_uuid(b.core.UUID.from_16_bits(0x2A19), None),
            'write': lambda: c.write_value(0x0032, b'C17', with_response=True), 'mtu': lambda: c.request_mtu(64),
        }[op]()
    if target == 'sdpc':
        c = rig.state['sdpc']
        uuid = b.core.UUID(KNOWN_UUID128)
        return {
            'search_attributes': lambda: c.search_attributes([uuid], [(0x0000, 0xFFFF)]),
            'search_services': lambda: c.search_services([uuid]),
            'get_attributes': lambda: c.get_attributes(SDP_HANDLE, [(0x0000, 0xFFFF)]),
        }[op]()
    c = rig.state['avdtpc']
    return {'discover': c.discover_remote_endpoints, 'caps': lambda: c.get_capabilities(1),
            'getcfg': lambda: c.get_configuration(1)}[op]()


async def _guarded(coro, box: dict):
    try:
        box['result'] = await coro
    except asyncio.CancelledError:
        raise
    except Exception as e:  # noqa: BLE001 - judged by the reference (RecursionError / MemoryError are violations)
        box['exc'] = e


async def _start_pending(rig: Rig, case) -> None:
    """Client-role targets: the victim issues `case['pending']` calls of its own; nobody answers them (yet)."""
    rig.state['mark0'] = len(rig.link.acl_log)
    rig.state['answered'] = 0
    pend = []
    target = case.get('target')
    for op in (case.get('pending') or []) if target in CLIENT_OPS else []:
        box: dict = {}
        pend.append((op, asyncio.get_running_loop().create_task(_guarded(_client_op(rig, target, op), box)), box))
    rig.state['pending'] = pend
    if pend:
        await asyncio.sleep(0.05)
        for _op, task, box in pend:
            if task.done():
                box['early'] = True  # refused on the spot (sdp.Client takes one call at a time)


def _client_requests(rig: Rig, target: str) -> list:
    """What the victim's client sent on the target channel since the set-up ended, oldest first: (bytes)."""
    got = rig.from_victim(rig.state['mark0'], rig.chans[target]['peer_cid'])
    if target == 'gattc':
        # requests only (even opcode, no command bit, not a confirmation); odd opcodes are its server's answers
        return [p for p in got if p and not p[0] & 1 and not p[0] & 0x40 and p[0] != 0x1E]
    if target == 'avdtpc':
        return [p for p in got if len(p) >= 2 and p[0] & 0x0F == 0]  # single-packet commands
    return [p for p in got if len(p) >= 5]


def _client_patch(rig: Rig, target: str, data: bytes) -> bytes:
    """'...p' origins: the hostile peer copies the transaction identifier of the victim's latest request."""
    reqs = _client_requests(rig, target) if target in ('sdpc', 'avdtpc') else []
    if not reqs or not data:
        return data
    if target == 'sdpc' and len(data) >= 3:
        return data[:1] + reqs[-1][1:3] + data[3:]
    if target == 'avdtpc':
        return bytes([(reqs[-1][0] & 0xF0) | (data[0] & 0x0F)]) + data[1:]
    return data


def _client_refusal(target: str, req: bytes) -> bytes:
    """A well-formed negative answer to one outstanding request of the victim's client."""
    if target == 'gattc':
        return bytes([0x01, req[0]]) + (req[1:3] if len(req) >= 3 else b'\x00\x00') + bytes([0x0A])
    if target == 'sdpc':
        return bytes([0x01]) + req[1:3] + bytes([0x00, 0x02, 0x00, 0x03])
    return bytes([(req[0] & 0xF0) | 0x03, req[1] & 0x3F, 0x19])  # Response Reject, NOT_SUPPORTED_COMMAND


def _client_drain(rig: Rig, target: str):
    """Every request the victim's client has on the wire gets a well-formed refusal (outcome ignored); afterwards
    none of the victim's calls may still be waiting."""
    pend = rig.state.get('pending') or []
    for _ in range(10):
        if all(t.done() for _op, t, _box in pend):
            break
        reqs = _client_requests(rig, target)
        if len(reqs) <= rig.state['answered']:
            break
        for req in reqs[rig.state['answered']:]:
            rig.chans[target]['send'](_client_refusal(target, req))
        rig.state['answered'] = len(reqs)
        rig.run(0.3)
    for _op, _t, box in pend:
        if isinstance(box.get('exc'), (RecursionError, MemoryError)):
            return (f'pending_{type(box["exc"]).__name__}', f'a call of the victim\'s {target} client ended with {box["exc"]!r}')
    stuck = [op for op, t, _box in pend if not t.done()]
    for _op, t, _box in pend:
        if not t.done():
            t.cancel()
    if stuck:
        rig.run(0.1)
        return ('pending_stuck', f'the victim\'s {target} client calls {stuck} were still waiting after every request it '
                                 f'had sent was answered with a well-formed error response')
    rig.state['answered'] = len(_client_requests(rig, target))
    return None


def _client_call(rig: Rig, target: str, coro, answer, rounds: int = 4):
    """Fresh call of the victim's client; `answer(request bytes) -> response bytes | None` plays the well-formed peer."""
    box: dict = {}
    task = rig.loop.create_task(_guarded(coro, box))
    sent = 0
    for _ in range(rounds):
        rig.run(0.3)
        if task.done():
            break
        reqs = _client_requests(rig, target)
        new = reqs[rig.state['answered']:]
        rig.state['answered'] = len(reqs)
        for req in new:
            rsp = answer(req)
            if rsp is not None:
                sent += 1
                rig.chans[target]['send'](rsp)
    if not task.done():
        rig.run(0.5)
    if not task.done():
        task.cancel()
        rig.run(0.1)
        if not sent:
            return ('request_not_sent', f'a fresh call of the victim\'s {target} client put no (answerable) request on the wire'), box
        return ('no_completion', f'a fresh call of the victim\'s {target} client did not finish although the peer answered it'), box
    if 'exc' in box:
        return (f'raises_{type(box["exc"]).__name__}', f'a fresh call of the victim\'s {target} client, answered well-formed, '
                                                      f'raised {box["exc"]!r}'), box
    return None, box


def ref_gattc(rig: Rig):
    r = _client_drain(rig, 'gattc')
    if r is not None:
        return r
    handle = 0x0042
    want = bytes([0x0A]) + struct.pack('<H', handle)
    r, box = _client_call(rig, 'gattc', rig.state['gattc'].read_value(handle, no_long_read=True),
                          lambda req: bytes([0x0B]) + GATTC_VALUE if req == want else None)
    if r is not None:
        return r
    if box.get('result') != GATTC_VALUE:
        return ('wrong_answer', f'GATT client read_value returned {box.get("result")!r} instead of {GATTC_VALUE!r}')
    return None


def ref_sdpc(rig: Rig):
    r = _client_drain(rig, 'sdpc')
    if r is not None:
        return r
    req0, rsp0, want = rig.state['sdpc_ref']
    b = B()
    r, box = _client_call(
        rig, 'sdpc', rig.state['sdpc'].search_attributes([b.core.UUID(KNOWN_UUID128)], [(0x0000, 0xFFFF)]),
        lambda req: rsp0[:1] + req[1:3] + rsp0[3:] if req[:1] + req[3:] == req0[:1] + req0[3:] else None)
    if r is not None:
        return r
    if str(box.get('result')) != want:
        return ('wrong_answer', f'SDP client search_attributes returned {str(box.get("result"))[:200]} instead of {want[:200]}')
    return None


def _endpoints_summary(eps) -> str:
    return str([(e.seid, int(e.media_type), int(e.tsep), int(e.in_use), [str(c) for c in e.capabilities]) for e in eps])


def ref_avdtpc(rig: Rig):
    r = _client_drain(rig, 'avdtpc')
    if r is not None:
        return r
    by_signal, want = rig.state['avdtpc_ref']

    def answer(req):
        rsp = by_signal.get(req[1] & 0x3F)
        return None if rsp is None else bytes([(req[0] & 0xF0) | (rsp[0] & 0x0F)]) + rsp[1:]

    r, box = _client_call(rig, 'avdtpc', rig.state['avdtpc'].discover_remote_endpoints(), answer, rounds=6)
    if r is not None:
        return r
    try:
        got = _endpoints_summary(list(box.get('result') or []))
    except Exception as e:  # noqa: BLE001
        got = repr(e)
    if got != want:
        return ('wrong_answer', f'AVDTP discover_remote_endpoints returned {got[:200]} instead of {want[:200]}')
    return None


# -- references (LE) ---------------------------------------------------------
def ref_att(rig: Rig):
    mark = len(rig.link.acl_log)
    rig.raw_send(4, bytes([0x0A]) + struct.pack('<H', rig.state['value_handle']))
    rig.run(REF_WAIT)
    got = rig.from_victim(mark, 4)
    if bytes([0x0B]) + KNOWN_VALUE in got:
        return None
    if not got:
        return ('no_answer', 'ATT Read Request of the known characteristic got no answer')
    return ('wrong_answer', f'ATT Read Request of the known characteristic answered with {[g.hex() for g in got[:3]]}')


def ref_lesig(rig: Rig):
    mark = len(rig.link.acl_log)
    ident = 0x6B
    # LE Credit Based Connection Request to an SPSM nobody listens on: must be refused, same identifier
    rig.raw_send(5, bytes([0x14, ident, 10, 0]) + struct.pack('<HHHHH', 0x00F3, 0x0071, 64, 64, 1))
    rig.run(REF_WAIT)
    got = rig.from_victim(mark, 5)
    for p in got:
        if len(p) >= 4 and p[1] == ident and p[0] in (0x15, 0x01):
            return None
    if not got:
        return ('no_answer', 'LE signalling request (LE Credit Based Connection Request, unknown SPSM) got no answer')
    return ('wrong_answer', f'LE signalling request answered with {[g.hex() for g in got[:3]]}')


def ref_sigrej(rig: Rig, cid: int):
    """A signalling command with an unknown code must be answered with Command Reject, same identifier."""
    mark = len(rig.link.acl_log)
    ident = 0x6C
    rig.raw_send(cid, bytes([0x7E, ident, 2, 0, 0xAA, 0xBB]))
    rig.run(REF_WAIT)
    got = rig.from_victim(mark, cid)
    for p in got:
        if len(p) >= 4 and p[0] == 0x01 and p[1] == ident:
            return None
    if not got:
        return ('no_answer', 'a signalling command with an unknown code got no Command Reject')
    return ('wrong_answer', f'a signalling command with an unknown code was answered with {[g.hex() for g in got[:3]]}')


def ref_smp(rig: Rig, cid: int = 6):
    # a well-formed abort of whatever the hostile frames started, then a fresh Pairing Request
    rig.raw_send(cid, bytes([0x05, 0x08]))
    rig.run(0.5)
    mark = len(rig.link.acl_log)
    rig.raw_send(cid, _smp_pairing_request())
    rig.run(REF_WAIT)
    got = rig.from_victim(mark, cid)
    for p in got:
        if p and p[0] in (0x02, 0x05):
            return None
    if not got:
        return ('no_answer', 'SMP Pairing Request got neither a Pairing Response nor Pairing Failed')
    return ('wrong_answer', f'SMP Pairing Request answered with {[g.hex() for g in got[:3]]}')


def ref_coc(rig: Rig):
    if not rig.state.get('coc_clean', True):
        return 'skip'
    rx = rig.state['coc_rx']
    before = len(rx)
    sdu = b'C17 reference SDU'
    rig.chans['coc']['send'](struct.pack('<H', len(sdu)) + sdu)
    rig.run(REF_WAIT)
    if sdu in rx[before:]:
        return None
    return ('not_delivered', f'a well-formed SDU on the LE CoC was not delivered to the server sink (got {rx[before:][:2]})')


def ref_hci(rig: Rig):
    b = B()
    host = rig.victim.host
    result: dict = {}

    async def cmd():
        try:
            rsp = await host.send_command(b.hci.HCI_Read_BD_ADDR_Command())
            result['rsp'] = rsp
        except asyncio.CancelledError:
            raise
        except Exception as e:  # noqa: BLE001
            result['exc'] = e

    task = rig.loop.create_task(cmd())
    rig.run(REF_WAIT)
    if not task.done():
        task.cancel()
        # Bumble's own command time-out (if any) is an acceptable ending; silence is not
        rig.run(40.0)
        if 'exc' in result and isinstance(result['exc'], (asyncio.TimeoutError, TimeoutError)):
            return ('timeout', 'HCI Read BD_ADDR through Host.send_command timed out')
        return ('hangs', 'HCI Read BD_ADDR through Host.send_command never completed')
    if 'exc' in result:
        return (f'raises_{type(result["exc"]).__name__}', f'HCI Read BD_ADDR raised {result["exc"]!r}')
    rsp = result['rsp']
    try:
        addr = rsp.return_parameters.bd_addr
    except Exception:  # noqa: BLE001
        return ('wrong_answer', f'HCI Read BD_ADDR completed with {rsp}')
    if bytes(addr) != bytes(rig.victim.controller.public_address):
        return ('wrong_answer', f'HCI Read BD_ADDR returned {addr}')
    return None


# ---------------------------------------------------------------------------
# classic world
# ---------------------------------------------------------------------------
def _sink_caps():
    b = B()
    S = b.a2dp.SbcMediaCodecInformation
    return b.avdtp.MediaCodecCapabilities(
        media_type=b.avdtp.MediaType.AUDIO, media_codec_type=b.a2dp.CodecType.SBC,
        media_codec_information=S(
            sampling_frequency=S.SamplingFrequency.SF_48000 | S.SamplingFrequency.SF_44100,
            channel_mode=S.ChannelMode.MONO | S.ChannelMode.STEREO | S.ChannelMode.JOINT_STEREO,
            block_length=S.BlockLength.BL_8 | S.BlockLength.BL_16,
            subbands=S.Subbands.S_8, allocation_method=S.AllocationMethod.LOUDNESS | S.AllocationMethod.SNR,
            minimum_bitpool_value=2, maximum_bitpool_value=53))


def _ag_config():
    h = B().hfp
    return h.AgConfiguration(
        supported_ag_features=[h.AgFeature.HF_INDICATORS, h.AgFeature.REJECT_CALL, h.AgFeature.CODEC_NEGOTIATION,
                               h.AgFeature.ENHANCED_CALL_STATUS, h.AgFeature.THREE_WAY_CALLING],
        supported_ag_indicators=[h.AgIndicatorState.call(), h.AgIndicatorState.service(),
                                 h.AgIndicatorState.callsetup(), h.AgIndicatorState.signal(),
                                 h.AgIndicatorState.roam(), h.AgIndicatorState.battchg()],
        supported_hf_indicators=[h.HfIndicator.ENHANCED_SAFETY, h.HfIndicator.BATTERY_LEVEL],
        supported_ag_call_hold_operations=[h.CallHoldOperation.ADD_HELD_CALL, h.CallHoldOperation.HOLD_ALL_ACTIVE_CALLS],
        supported_audio_codecs=[h.AudioCodec.CVSD, h.AudioCodec.MSBC])


def _hf_config():
    h = B().hfp
    return h.HfConfiguration(
        supported_hf_features=[h.HfFeature.CODEC_NEGOTIATION, h.HfFeature.HF_INDICATORS,
                               h.HfFeature.ENHANCED_CALL_STATUS, h.HfFeature.THREE_WAY_CALLING,
                               h.HfFeature.CLI_PRESENTATION_CAPABILITY],
        supported_hf_indicators=[h.HfIndicator.ENHANCED_SAFETY, h.HfIndicator.BATTERY_LEVEL],
        supported_audio_codecs=[h.AudioCodec.CVSD, h.AudioCodec.MSBC])


def _known_record():
    s = B().sdp
    core = B().core
    return [
        s.ServiceAttribute(s.SDP_SERVICE_RECORD_HANDLE_ATTRIBUTE_ID, s.DataElement.unsigned_integer_32(SDP_HANDLE)),
        s.ServiceAttribute(s.SDP_SERVICE_CLASS_ID_LIST_ATTRIBUTE_ID,
                           s.DataElement.sequence([s.DataElement.uuid(core.UUID(KNOWN_UUID128))])),
        s.ServiceAttribute(s.SDP_PROTOCOL_DESCRIPTOR_LIST_ATTRIBUTE_ID, s.DataElement.sequence([
            s.DataElement.sequence([s.DataElement.uuid(core.BT_L2CAP_PROTOCOL_ID)]),
            s.DataElement.sequence([s.DataElement.uuid(core.BT_RFCOMM_PROTOCOL_ID),
                                    s.DataElement.unsigned_integer_8(RF_CHANNEL)])])),
        s.ServiceAttribute(0x0100, s.DataElement.text_string(KNOWN_TEXT)),
    ]


def _detach(channel, store: list):
    channel.sink = lambda pdu: store.append(bytes(pdu))


async def build_classic(rig: Rig, case) -> None:
    b = B()
    opens = rig.opens
    w = world.World(2, classic=True, stream=bool(case.get('stream')))
    peer, node = w[0], w[1]
    rig.victim, rig.link, rig.vname = node, w.link, node.controller.name
    dev = node.device
    _gatt_setup(dev, rig)
    dev.sdp_service_records = {SDP_HANDLE: _known_record()}
    rf_server = b.rfcomm.Server(dev)

    def acceptor(dlc):
        if 'athf' in opens:
            hf = b.hfp.HfProtocol(dlc, _hf_config())
            rig.state['hf'] = hf
            volumes: list = []
            rig.state['hf_volumes'] = volumes
            hf.on(hf.EVENT_SPEAKER_VOLUME, volumes.append)
            # the profile's main routine: SLC, then the unsolicited-result loop
            rig.state['hf_task'] = asyncio.get_running_loop().create_task(hf.run())
        else:
            rig.state['ag'] = b.hfp.AgProtocol(dlc, _ag_config())
        rig.state['vdlc'] = dlc

    rf_server.listen(acceptor, channel=RF_CHANNEL)
    listener = b.avdtp.Listener.for_device(dev)
    listener.on('connection', lambda server: server.add_sink(_sink_caps()))
    rig.state['avrcp'] = b.avrcp.Protocol()
    rig.state['avrcp'].listen(dev)
    await w.power_on()
    conn_p, conn_v = await w.connect_classic(0, 1)
    rig.vconn, rig.vhandle, rig.phandle = conn_v, conn_v.handle, conn_p.handle
    rig.state['peer_node'] = peer
    rig.state['conn_p'] = conn_p

    def raw_send(cid, data):
        peer.host.send_l2cap_pdu(conn_p.handle, cid, data)

    rig.raw_send = raw_send
    rig.chans['sig'] = {'send': lambda d: raw_send(1, d), 'peer_cid': 1, 'victim_cid': 1}
    rig.chans['smpbr'] = {'send': lambda d: raw_send(7, d), 'peer_cid': 7, 'victim_cid': 7}
    rig.chans['connless'] = {'send': lambda d: raw_send(2, d), 'peer_cid': 2, 'victim_cid': 2}
    rig.refs = [('echo', {'link'}, ref_echo), ('sigrej', {'link'}, lambda r: ref_sigrej(r, 1)),
                ('smpbr', {'link'}, lambda r: ref_smp(r, 7))]
    sink_store: list = []
    rig.state['peer_rx'] = sink_store

    def dyn(name, channel):
        rig.chans[name] = {'send': channel.send_pdu, 'peer_cid': channel.source_cid,
                           'victim_cid': channel.destination_cid, 'channel': channel}

    if 'sdp' in opens:
        mark = len(rig.link.acl_log)
        client = b.sdp.Client(conn_p)
        await client.connect()
        found = await client.search_attributes([b.core.UUID(KNOWN_UUID128)], [(0x0000, 0xFFFF)])
        if not any(a.id == 0x0100 and a.value.value == KNOWN_TEXT for rec in found for a in rec):
            raise HarnessError(f'SDP set-up query did not return the known record: {found}')
        ch = client.channel
        dyn('sdp', ch)
        _detach(ch, sink_store)
        req = rig.to_victim(mark, ch.destination_cid)
        rsp = rig.from_victim(mark, ch.source_cid)
        if len(req) != 1 or len(rsp) != 1:
            raise HarnessError('SDP set-up exchange is not a single request/response')
        rig.state['sdp_ref'] = (req[0], rsp[0])
        rig.refs.append(('sdp', {'link', 'chan:sdp'}, ref_sdp))
    if opens & {'rfcomm', 'at', 'athf'}:
        rc = b.rfcomm.Client(conn_p)
        mux = await rc.start()
        dlc = await mux.open_dlc(RF_CHANNEL)
        rig.state['pdlc'] = dlc
        rig.state['mux'] = mux
        at_rx: list = []
        rig.state['at_rx'] = at_rx
        dyn('rfcomm', mux.l2cap_channel)
        if 'athf' in opens:
            # the victim is the HF: the peer plays a gateway that answers every command line with OK
            def gateway(data):
                at_rx.append(bytes(data))
                if rig.state.get('gateway_on') and b'\r' in data:
                    dlc.write(b'\r\nOK\r\n')

            # a real gateway for the service level connection, detached afterwards
            b.hfp.AgProtocol(dlc, _ag_config())
            for _ in range(100):
                await asyncio.sleep(0.05)
                if rig.state.get('hf') is not None and rig.state['hf']._slc_initialized:  # noqa: SLF001
                    break
            else:
                raise HarnessError('athf set-up: the victim HF did not complete the SLC')
            await asyncio.sleep(0.1)
            dlc.sink = gateway
            rig.chans['athf'] = {'send': dlc.write}
            rig.refs.append(('athf', {'link', 'chan:rfcomm', 'rfcomm'}, ref_athf))
        else:
            hf = b.hfp.HfProtocol(dlc, _hf_config())
            await hf.initiate_slc()
            dlc.sink = lambda data: at_rx.append(bytes(data))
            rig.chans['at'] = {'send': dlc.write}
            # the clean answer to the reference command, before anything hostile
            dlc.write(b'AT+CIND?\r')
            await asyncio.sleep(0.2)
            rig.state['at_expected'] = b''.join(at_rx)
            if b'+CIND:' not in rig.state['at_expected'] or not rig.state['at_expected'].rstrip().endswith(b'OK'):
                raise HarnessError(f'AT set-up reference not answered: {rig.state["at_expected"]!r}')
            rig.refs.append(('at', {'link', 'chan:rfcomm', 'rfcomm'}, ref_at))
    if 'avdtp' in opens:
        mark = len(rig.link.acl_log)
        proto = await b.avdtp.Protocol.connect(conn_p)
        eps = list(await proto.discover_remote_endpoints())
        if len(eps) != 1:
            raise HarnessError(f'AVDTP set-up discovered {eps}')
        ch = proto.l2cap_channel
        dyn('avdtp', ch)
        _detach(ch, sink_store)
        req = [p for p in rig.to_victim(mark, ch.destination_cid) if len(p) >= 2 and p[1] & 0x3F == 0x01]
        rsp = [p for p in rig.from_victim(mark, ch.source_cid) if len(p) >= 2 and p[1] & 0x3F == 0x01]
        if len(req) != 1 or len(rsp) != 1:
            raise HarnessError('AVDTP set-up: Discover exchange not found')
        rig.state['avdtp_ref'] = (req[0], rsp[0])
        rig.refs.append(('avdtp', {'link', 'chan:avdtp'}, ref_avdtp))
    if 'avctp' in opens:
        mark = len(rig.link.acl_log)
        p = b.avrcp.Protocol()
        await p.connect(conn_p)
        await asyncio.sleep(0.1)
        events = await p.get_supported_events()
        ch = p.avctp_protocol.l2cap_channel
        dyn('avctp', ch)
        _detach(ch, sink_store)
        req = rig.to_victim(mark, ch.destination_cid)
        rsp = rig.from_victim(mark, ch.source_cid)
        if len(req) != 1 or len(rsp) != 1:
            raise HarnessError(f'AVCTP set-up exchange is not a single command/response ({events})')
        rig.state['avctp_ref'] = (req[0], rsp[0])
        rig.refs.append(('avctp', {'link', 'chan:avctp'}, ref_avctp))
    if 'sdpc' in opens:
        # client role: the victim's sdp.Client queries the peer's (genuine) SDP server, which is detached afterwards
        peer.device.sdp_service_records = {SDP_HANDLE: _known_record()}
        mark = len(rig.link.acl_log)
        vclient = b.sdp.Client(conn_v)
        await vclient.connect()
        found = await vclient.search_attributes([b.core.UUID(KNOWN_UUID128)], [(0x0000, 0xFFFF)])
        if not any(a.id == 0x0100 and a.value.value == KNOWN_TEXT for rec in found for a in rec):
            raise HarnessError(f'sdpc set-up query did not return the known record: {found}')
        pch = peer.device.sdp_server.channel
        dyn('sdpc', pch)
        _detach(pch, sink_store)
        req = rig.from_victim(mark, pch.source_cid)
        rsp = rig.to_victim(mark, pch.destination_cid)
        if len(req) != 1 or len(rsp) != 1:
            raise HarnessError('sdpc set-up exchange is not a single request/response')
        rig.state['sdpc'] = vclient
        rig.state['sdpc_ref'] = (req[0], rsp[0], str(found))
        rig.refs.insert(0, ('sdpc', {'link', 'chan:sdpc'}, ref_sdpc))
    if 'avdtpc' in opens:
        # client role: the victim initiates AVDTP towards the peer's (genuine) acceptor, which is detached afterwards
        servers: list = []
        plistener = b.avdtp.Listener.for_device(peer.device)
        plistener.on('connection', lambda server: (server.add_sink(_sink_caps()), servers.append(server)))
        mark = len(rig.link.acl_log)
        vproto = await b.avdtp.Protocol.connect(conn_v)
        eps = list(await vproto.discover_remote_endpoints())
        if len(eps) != 1 or not servers:
            raise HarnessError(f'avdtpc set-up discovered {eps}')
        pch = servers[0].l2cap_channel
        dyn('avdtpc', pch)
        _detach(pch, sink_store)
        reqs = [p for p in rig.from_victim(mark, pch.source_cid) if len(p) >= 2 and p[0] & 0x0F == 0]
        rsps = [p for p in rig.to_victim(mark, pch.destination_cid) if len(p) >= 2 and p[0] & 0x0F == 0x02]
        if len(reqs) != 2 or len(rsps) != 2 or [p[1] & 0x3F for p in reqs] != [p[1] & 0x3F for p in rsps]:
            raise HarnessError('avdtpc set-up: Discover / Get Capabilities exchanges not found')
        rig.state['avdtpc'] = vproto
        rig.state['avdtpc_ref'] = ({p[1] & 0x3F: p for p in rsps}, _endpoints_summary(eps))
        rig.refs.insert(0, ('avdtpc', {'link', 'chan:avdtpc'}, ref_avdtpc))
    rig.refs.append(('hci', set(), ref_hci))
    # the peer plays a NON-Bumble device from here on: its own ATT/SMP layers must not converse with the
    # victim's answers (two Bumble SMP layers can exchange Pairing Random / Pairing Failed for ever)
    manager = peer.device.l2cap_channel_manager
    for cid in list(manager.fixed_channels):
        if cid not in (1, 5):
            manager.fixed_channels[cid] = lambda _handle, pdu: sink_store.append(bytes(pdu))
    await _start_pending(rig, case)


def ref_echo(rig: Rig):
    mark = len(rig.link.acl_log)
    data = b'C17 echo'
    rig.raw_send(1, bytes([0x08, 0x5A]) + struct.pack('<H', len(data)) + data)
    rig.run(REF_WAIT)
    got = rig.from_victim(mark, 1)
    want = bytes([0x09, 0x5A]) + struct.pack('<H', len(data)) + data
    if want in got:
        return None
    if not got:
        return ('no_answer', 'L2CAP Echo Request got no answer')
    return ('wrong_answer', f'L2CAP Echo Request answered with {[g.hex() for g in got[:3]]}')


def _ref_exchange(rig: Rig, chan: str, req: bytes, want: bytes, what: str):
    c = rig.chans[chan]
    mark = len(rig.link.acl_log)
    try:
        c['send'](req)
    except Exception as e:  # noqa: BLE001 - the peer's own channel object refuses to send
        return ('peer_cannot_send', f'{what}: the peer channel raised {e!r}')
    rig.run(REF_WAIT)
    got = rig.from_victim(mark, c['peer_cid'])
    if want in got:
        return None
    if not got:
        return ('no_answer', f'{what} got no answer')
    return ('wrong_answer', f'{what} answered with {[g.hex() for g in got[:3]]} instead of {want.hex()}')


def ref_sdp(rig: Rig):
    req, rsp = rig.state['sdp_ref']
    tid = b'\x7a\x17'
    return _ref_exchange(rig, 'sdp', req[:1] + tid + req[3:], rsp[:1] + tid + rsp[3:],
                         'SDP ServiceSearchAttribute for the known record')


def ref_avdtp(rig: Rig):
    req, rsp = rig.state['avdtp_ref']
    lab = 0xE0
    return _ref_exchange(rig, 'avdtp', bytes([lab | (req[0] & 0x0F)]) + req[1:], bytes([lab | (rsp[0] & 0x0F)]) + rsp[1:],
                         'AVDTP Discover')


def ref_avctp(rig: Rig):
    req, rsp = rig.state['avctp_ref']
    lab = 0xD0
    return _ref_exchange(rig, 'avctp', bytes([lab | (req[0] & 0x0F)]) + req[1:], bytes([lab | (rsp[0] & 0x0F)]) + rsp[1:],
                         'AVRCP GetCapabilities over AVCTP')


def ref_at(rig: Rig):
    dlc = rig.state['pdlc']
    at_rx = rig.state['at_rx']
    try:
        dlc.write(b'AT+CIND?\r')  # terminates whatever the hostile frames left unterminated; answer ignored
        rig.run(REF_WAIT)
        mark = len(at_rx)
        dlc.write(b'AT+CIND?\r')
        rig.run(REF_WAIT)
    except BusyLoop:
        raise
    except Exception as e:  # noqa: BLE001
        return ('peer_cannot_send', f'AT reference: the peer DLC raised {e!r}')
    got = b''.join(at_rx[mark:])
    if got == rig.state['at_expected']:
        return None
    if not got:
        return ('no_answer', 'AT+CIND? on the HFP DLC got no answer')
    return ('wrong_answer', f'AT+CIND? answered with {got!r} instead of {rig.state["at_expected"]!r}')


def ref_athf(rig: Rig):
    hf = rig.state.get('hf')
    dlc = rig.state['pdlc']
    if hf is None:
        return ('no_hf', 'victim HfProtocol was not created')
    rig.state['gateway_on'] = True
    result: dict = {}

    async def cmd():
        for attempt in range(2):
            try:
                await hf.execute_command('AT+VGS=7')
                result[attempt] = 'ok'
            except asyncio.CancelledError:
                raise
            except Exception as e:  # noqa: BLE001
                result[attempt] = e

    try:
        # a complete well-formed unsolicited result code terminates whatever was left unterminated
        dlc.write(b'\r\n+VGS: 7\r\n')
        rig.run(0.5)
    except BusyLoop:
        raise
    except Exception as e:  # noqa: BLE001
        return ('peer_cannot_send', f'AT reference: the peer DLC raised {e!r}')
    task = rig.loop.create_task(cmd())
    rig.run(5.0)
    if not task.done():
        task.cancel()
        return ('hangs', 'HfProtocol.execute_command never finished')
    if result.get(1) == 'ok':
        # and a well-formed unsolicited result code still reaches the application
        volumes = rig.state['hf_volumes']
        del volumes[:]
        dlc.write(b'\r\n+VGS: 9\r\n')
        rig.run(1.0)
        if 9 in volumes:
            return None
        return ('unsolicited_lost', f'a well-formed unsolicited +VGS: 9 no longer produces the speaker_volume event '
                                    f'(main routine finished: {rig.state["hf_task"].done()})')
    outcome = 'no_answer' if isinstance(result.get(1), (asyncio.TimeoutError, TimeoutError)) else 'wrong_answer'
    return (outcome, f'HfProtocol.execute_command: the gateway answered OK but the command ended with {result.get(1)!r} '
                     f'(first attempt {result.get(0)!r})')


BUILDERS = {'le': build_le, 'classic': build_classic}
LE_DYNAMIC = ('coc',)
CLASSIC_DYNAMIC = ('sdp', 'rfcomm', 'at', 'athf', 'avdtp', 'avctp')


# ---------------------------------------------------------------------------
# seeds: valid PDUs per channel (registry-built and captured from the set-up traffic)
# ---------------------------------------------------------------------------
AT_LINES = [
    b'AT+BRSF=159\r', b'AT+BAC=1,2\r', b'AT+CIND=?\r', b'AT+CIND?\r', b'AT+CMER=3,,,1\r', b'AT+CHLD=?\r',
    b'AT+BIND=1,2\r', b'AT+BIND=?\r', b'AT+BIND?\r', b'AT+CLCC\r', b'ATD123;\r', b'ATA\r', b'AT+VGS=5\r',
    b'AT+CMEE=1\r', b'AT+BIEV=1,1\r', b'AT+CHUP\r', b'AT+COPS=3,0\r', b'AT+COPS?\r', b'AT+NREC=0\r',
    b'AT+BVRA=1\r', b'AT+CLIP=1\r', b'AT+CCWA=1\r', b'AT+CHLD=1\r', b'AT+BCS=1\r', b'AT+BCC\r', b'AT+BIA=1,1,1\r',
    b'AT+VTS=1\r', b'AT+CNUM\r', b'AT+BLDN\r', b'AT+VGM=3\r', b'AT+CKPD=200\r', b'AT+XAPL=ABCD-1234-0100,10\r',
    b'AT+BIND=(1,(2,3)),"x"\r', b'AT+CMER=3, 0, 0, 1\r', b'AT+CIND?\r\n', b'\r\nAT+CIND=?\r\n', b'AT+VGS=7\r\r',
]
HF_LINES = [
    b'\r\nOK\r\n', b'\r\nERROR\r\n', b'\r\n+CME ERROR: 3\r\n', b'\r\n+CIEV: 1,1\r\n', b'\r\n+BRSF: 1023\r\n',
    b'\r\n+CIND: ("call",(0,1)),("service",(0,1))\r\n', b'\r\n+CIND: 0,1,0,3,0,5\r\n',
    b'\r\n+CLCC: 1,0,0,0,0,"123",129\r\n', b'\r\nRING\r\n', b'\r\n+CLIP: "123",129\r\n', b'\r\n+BCS: 1\r\n',
    b'\r\n+VGS: 5\r\n', b'\r\n+BIND: (1,2)\r\n', b'\r\n+BIND: 1,1\r\n', b'\r\n+CHLD: (0,1,2)\r\n',
    b'\r\n+COPS: 0,0,"op"\r\n', b'\r\n+BSIR: 1\r\n', b'\r\n+CCWA: "123",129\r\n', b'\r\n+BVRA: 1\r\n',
    b'\r\nNO CARRIER\r\n', b'\r\nBUSY\r\n', b'\r\n\r\nOK\r\n', b'\r\n+VGS: 7\r\n\r\n',
]
OTHER_CIDS_LE = [1, 2, 3, 7, 0x003A, 0x0040, 0x007F, 0xFFFF, 0]
OTHER_CIDS_CLASSIC = [3, 4, 5, 6, 0x003F, 0x0040, 0x0041, 0xFFFF, 0]


def pick(*strategies):
    """one_of without Hypothesis' flattening of nested one_of (keeps the intended weights)."""
    strategies = [x for x in strategies if x is not None]
    if len(strategies) == 1:
        return strategies[0]
    return st.integers(0, len(strategies) - 1).flatmap(lambda i: strategies[i])


@st.composite
def _fields(draw, fields, budget):
    """specgen.fields_strategy, falling back to raw bytes where the spec generator cannot serve a field."""
    try:
        return draw(specgen.fields_strategy(fields, budget))
    except specgen.UnknownSpec:
        return {}, draw(st.binary(max_size=min(budget, 24))), {}


def _wire_strategy(cls, head, budget=60, subst=None):
    """bytes of one instance of a registry class: head(values-wire) + spec-generated field wire."""

    def build(r):
        values, wire, _exp = r
        if subst is not None:
            try:
                v2 = subst(dict(values))
                if v2 is not None:
                    obj = cls(**v2)
                    return bytes(obj)
            except Exception:  # noqa: BLE001
                pass
        return head(wire)

    return _fields(cls.fields, budget).map(build)


def _registry(chan: str, info: dict):
    """Valid PDUs for `chan`: (strategies built from the protocol's registry, hand-made situational ones)."""
    b = B()
    out = []
    hand_out = []
    if chan in ('att', 'cid'):
        def subst_att(v):
            for k in list(v):
                if k.endswith('handle') and isinstance(v[k], int):
                    v[k] = 1 + v[k] % 12
            return v
        for op, cls in sorted(b.att.ATT_PDU.pdu_classes.items()):
            out.append(_wire_strategy(cls, lambda w, op=op: bytes([op]) + w, 40, subst_att))
        hand = [bytes([0x08, 1, 0, 0xFF, 0xFF, 0x03, 0x28]), bytes([0x10, 1, 0, 0xFF, 0xFF, 0x00, 0x28]),
                bytes([0x0E, 3, 0, 5, 0]), bytes([0x20, 3, 0, 5, 0]), bytes([0x02, 0x00, 0x02]), bytes([0x0A, 3, 0]),
                bytes([0x12, 5, 0, 1, 2, 3]), bytes([0x52, 5, 0, 1]), bytes([0x16, 5, 0, 0, 0, 1, 2]), bytes([0x18, 1]),
                bytes([0x04, 1, 0, 0xFF, 0xFF]), bytes([0x06, 1, 0, 0xFF, 0xFF, 0x00, 0x28, 1, 2]), bytes([0x1E]),
                bytes([0xD2, 3, 0, 1, 2, 3, 4, 5, 6, 7, 8, 9, 10, 11, 12, 13])]
        hand_out.append(st.sampled_from(hand))
    if chan in ('smp', 'smpbr', 'cid'):
        for code, cls in sorted(b.smp.SMP_Command.smp_classes.items()):
            out.append(_wire_strategy(cls, lambda w, code=code: bytes([int(code)]) + w, 70))
        hand_out.append(st.just(_smp_pairing_request()))
    if chan in ('sig', 'lesig', 'cid'):
        cids = info.get('victim_cids') or [0x40]
        pcids = info.get('peer_cids') or [0x40]

        def subst_sig(v, cids=cids, pcids=pcids):
            return v

        def head(code):
            return lambda w: bytes([code, 1 + len(w) % 200]) + struct.pack('<H', len(w)) + w

        for code, cls in sorted(b.l2cap.L2CAP_Control_Frame.classes.items()):
            out.append(_wire_strategy(cls, head(code), 60))
        # situational: requests that name real CIDs / PSMs of this world
        hand = []
        for psm in (1, 3, 0x17, 0x19, 0x1001, COC_PSM):
            hand.append(bytes([0x02, 0x31, 4, 0]) + struct.pack('<HH', psm, 0x0071))
        for v, p in zip(cids, pcids):
            hand.append(bytes([0x04, 0x32, 8, 0]) + struct.pack('<HH', v, 0) + bytes([1, 2, 0x30, 0]))  # configure req
            for k, opts in enumerate([bytes([1, 0]), bytes([2, 0]), bytes([0x81, 0]), bytes([1, 2, 0x30, 0, 5, 1, 0]),
                                      bytes([4, 9, 3, 1, 1, 0, 0, 0, 0, 0x10, 0]), bytes([3, 22]) + bytes(22), bytes([7, 2, 1, 0])]):
                hand.append(bytes([0x04, 0x40 + k]) + struct.pack('<HHH', 4 + len(opts), v, 0) + opts)
                hand.append(bytes([0x05, 0x50 + k]) + struct.pack('<HHHH', 6 + len(opts), p, 0, 0) + opts)
            hand.append(bytes([0x05, 0x33, 6, 0]) + struct.pack('<HHH', p, 0, 0))  # configure rsp
            hand.append(bytes([0x16, 0x34, 4, 0]) + struct.pack('<HH', p, 0xFFFF))  # credits
            hand.append(bytes([0x06, 0x35, 4, 0]) + struct.pack('<HH', v, p))  # disconnection request (valid)
        hand.append(bytes([0x0A, 0x36, 2, 0, 2, 0]))  # information request
        hand.append(bytes([0x12, 0x37, 8, 0]) + struct.pack('<HHHH', 6, 12, 0, 100))
        hand.append(bytes([0x14, 0x38, 10, 0]) + struct.pack('<HHHHH', COC_PSM, 0x0072, 64, 64, 5))
        hand.append(bytes([0x17, 0x39, 18, 0]) + struct.pack('<HHHH', COC_PSM, 64, 64, 5) + struct.pack('<HHHHH', 0x73, 0x74, 0x75, 0x76, 0x77))
        hand_out.append(st.sampled_from(hand))
    if chan == 'sdp':
        s = b.sdp
        uuid = s.DataElement.uuid(b.core.UUID(KNOWN_UUID128))
        ids = s.DataElement.sequence([s.DataElement.unsigned_integer_32(0x0000FFFF)])
        hand = [
            bytes(s.SDP_ServiceSearchRequest(transaction_id=1, service_search_pattern=s.DataElement.sequence([uuid]),
                                             maximum_service_record_count=10, continuation_state=b'\x00')),
            bytes(s.SDP_ServiceAttributeRequest(transaction_id=2, service_record_handle=SDP_HANDLE,
                                                maximum_attribute_byte_count=200, attribute_id_list=ids,
                                                continuation_state=b'\x00')),
            bytes(s.SDP_ServiceSearchAttributeRequest(transaction_id=3, service_search_pattern=s.DataElement.sequence([uuid]),
                                                      maximum_attribute_byte_count=20, attribute_id_list=ids,
                                                      continuation_state=b'\x00')),
            bytes(s.SDP_ServiceSearchAttributeRequest(transaction_id=4, service_search_pattern=s.DataElement.sequence([uuid]),
                                                      maximum_attribute_byte_count=7, attribute_id_list=ids,
                                                      continuation_state=bytes([4, 0x43, 0x4F, 0x4E, 0x54]))),
            bytes(s.SDP_ErrorResponse(transaction_id=5, error_code=s.ErrorCode.INVALID_REQUEST_SYNTAX)),
            bytes(s.SDP_ServiceSearchResponse(transaction_id=6, total_service_record_count=1,
                                              service_record_handle_list=[SDP_HANDLE], continuation_state=b'\x00')),
            bytes(s.SDP_ServiceSearchAttributeRequest(
                transaction_id=7, service_search_pattern=s.DataElement.sequence([
                    uuid, s.DataElement.uuid(b.core.UUID.from_16_bits(0x0100)), s.DataElement.alternative([uuid]),
                    s.DataElement.text_string(b'x'), s.DataElement.url('u'), s.DataElement.boolean(True),
                    s.DataElement.signed_integer_16(-2), s.DataElement(s.DataElement.NIL, None)]),
                maximum_attribute_byte_count=0xFFFF, attribute_id_list=s.DataElement.sequence(
                    [s.DataElement.unsigned_integer_16(0), s.DataElement.unsigned_integer_32(0x00010200)]),
                continuation_state=b'\x00')),
        ]
        hand_out.append(st.sampled_from(hand))
        hand_out.append(st.tuples(NEST_DEPTH, st.sampled_from([0x35, 0x36, 0x37, 0x3D, 0x3E]), st.sampled_from([2, 4, 6]),
                                  st.sampled_from([0, 0, 1, 2]))
                   .map(lambda t: sdp_nested(*t)))
    if chan == 'avdtp':
        seid = info.get('seid', 1)
        for sig, by_type in sorted(b.avdtp.Message.subclasses.items()):
            for mtype, cls in sorted(by_type.items()):
                out.append(st.tuples(st.integers(0, 15), _fields(cls.fields, 30)).map(
                    lambda t, sig=sig, mtype=mtype: bytes([t[0] << 4 | int(mtype), int(sig)]) + t[1][1]))
        hand = [bytes([0x10, 0x02, seid << 2]), bytes([0x20, 0x0C, seid << 2]), bytes([0x30, 0x04, seid << 2]),
                bytes([0x40, 0x03, seid << 2, 1 << 2, 1, 0, 7, 6, 0, 0, 0x21, 0x15, 2, 53]), bytes([0x50, 0x06, seid << 2]),
                bytes([0x60, 0x07, seid << 2]), bytes([0x70, 0x08, seid << 2]), bytes([0x80, 0x09, seid << 2]),
                bytes([0x90, 0x0A, seid << 2]), bytes([0xA0, 0x0B, seid << 2, 1, 2]), bytes([0xB0, 0x0D, seid << 2, 0, 5]),
                bytes([0xC0, 0x3F]), bytes([0x14, 0x03, 3, seid << 2, 4]), bytes([0x18, seid << 2, 1]), bytes([0x1C, 0, 7, 6]),
                bytes([0x24, 0x01, 0xFF]), bytes([0x28, 1]), bytes([0x2C, 2])]
        hand_out.append(st.sampled_from(hand))
    if chan == 'avctp':
        def avc_cmd(label, ptype, body, pid=0x110E, cr=0):
            return bytes([label << 4 | ptype << 2 | cr << 1]) + (struct.pack('>H', pid) if ptype in (0, 1) else b'') + body
        vend = lambda pdu, params, pt=0: bytes([0x01, 0x48, 0x00, 0x00, 0x19, 0x58, pdu, pt]) + struct.pack('>H', len(params)) + params
        hand = [avc_cmd(1, 0, bytes([0x01, 0xFF, 0x30, 0xFF, 0xFF, 0xFF, 0xFF, 0xFF])),  # unit info
                avc_cmd(2, 0, bytes([0x01, 0xFF, 0x31, 0x07, 0xFF, 0xFF, 0xFF, 0xFF])),  # subunit info
                avc_cmd(3, 0, bytes([0x00, 0x48, 0x7C, 0x44, 0x00])),  # pass through play
                avc_cmd(4, 0, bytes([0x00, 0x48, 0x7C, 0x7E, 0x05, 0x00, 0x19, 0x58, 0x00, 0x01])),  # vendor unique
                avc_cmd(5, 0, vend(0x10, bytes([2]))), avc_cmd(5, 0, vend(0x10, bytes([3]))),
                avc_cmd(6, 0, bytes([0x03]) + vend(0x31, bytes([1, 0, 0, 0, 0]))[1:]),
                avc_cmd(7, 0, vend(0x20, bytes(8) + bytes([1, 0, 0, 0, 1]))), avc_cmd(8, 0, vend(0x30, b'')),
                avc_cmd(9, 0, vend(0x50, bytes([100]))), avc_cmd(10, 0, vend(0x40, bytes([0x10]))),
                avc_cmd(11, 0, vend(0x41, bytes([0x10]))), avc_cmd(12, 0, vend(0x10, bytes([2]), pt=1)),
                avc_cmd(12, 0, vend(0x10, bytes([2]), pt=2)), avc_cmd(12, 0, vend(0x10, bytes([2]), pt=3)),
                avc_cmd(13, 0, b'\x00', pid=0x1234), avc_cmd(14, 1, bytes([3]) + bytes([0x01, 0x48, 0x00])),
                avc_cmd(14, 2, bytes([0x00, 0x19, 0x58])), avc_cmd(14, 3, bytes([0x10, 0, 0, 1, 2])),
                avc_cmd(15, 0, bytes([0x09, 0x48, 0x00, 0x00, 0x19, 0x58, 0x10, 0, 0, 1, 2]), cr=1),
                avc_cmd(0, 0, b'', cr=1), bytes([0x03, 0x11, 0x0E])]
        hand_out.append(st.sampled_from(hand))
    if chan == 'rfcomm':
        F = b.rfcomm.RFCOMM_Frame
        d = RF_CHANNEL << 1
        frames = []
        for dlci in (0, d, d | 1, 2, 61):
            for cr in (0, 1):
                frames += [F.sabm(cr, dlci), F.ua(cr, dlci), F.dm(cr, dlci), F.disc(cr, dlci),
                           F.uih(cr, dlci, b'AT+CIND?\r'), F.uih(cr, dlci, bytes([5]) + b'AT\r', p_f=1),
                           F.uih(cr, dlci, bytes([255]), p_f=1), _empty_credit_frame(cr, dlci), F.uih(cr, dlci, b''),
                           b.rfcomm.RFCOMM_Frame(b.rfcomm.FrameType.UI, cr, dlci, 0, b'xyz')]
        pn = lambda dl, cl=0xF0, size=100, cred=7: bytes(b.rfcomm.RFCOMM_MCC_PN(
            dlci=dl, cl=cl, priority=7, ack_timer=0, max_frame_size=size, max_retransmissions=0, initial_credits=cred))
        msc = lambda dl, fc=0: bytes(b.rfcomm.RFCOMM_MCC_MSC(dlci=dl, fc=fc, rtc=1, rtr=1, ic=0, dv=1))
        mccs = []
        for cr in (0, 1):
            mccs += [F.make_mcc(0x20, cr, pn(d)), F.make_mcc(0x20, cr, pn(d + 2)), F.make_mcc(0x20, cr, pn(d, size=0, cred=0)),
                     F.make_mcc(0x20, cr, pn(d | 1)), F.make_mcc(0x20, cr, pn(d + 4, cl=0)), F.make_mcc(0x38, cr, msc(d)),
                     F.make_mcc(0x38, cr, msc(d, 1)), F.make_mcc(0x38, cr, msc(4)), F.make_mcc(0x38, cr, msc(d) + b'\x01'),
                     F.make_mcc(0x08, cr, b'test'), F.make_mcc(0x28, cr, b''), F.make_mcc(0x18, cr, b''),
                     F.make_mcc(0x24, cr, bytes([d << 2 | 3, 3, 0, 0, 0, 0, 0, 0])), F.make_mcc(0x14, cr, bytes([d << 2 | 3, 1])),
                     F.make_mcc(0x04, cr, bytes([0x21])), F.make_mcc(0x3F, cr, b''), F.make_mcc(0x20, cr, b''),
                     F.make_mcc(0x20, cr, pn(d)[:3]), F.make_mcc(0x38, cr, b''), bytes([0x83]), bytes([0x83, 0x00, 0x00, 0x01]),
                     bytes([0xE3, 0x00, 0x00, 0x02])]
        for m in mccs:
            for cr in (0, 1):
                frames.append(F.uih(cr, 0, m))
        hand_out.append(st.sampled_from(sorted({bytes(f) for f in frames})))
    if chan == 'gattc':
        # what a hostile GATT *server* sends to the victim's client: responses (odd opcodes) first of all
        for op, cls in sorted(b.att.ATT_PDU.pdu_classes.items()):
            if op & 1:
                out.append(_wire_strategy(cls, lambda w, op=op: bytes([op]) + w, 40))
        hand_out.append(st.sampled_from(_client_hand('gattc')))
    if chan == 'sdpc':
        hand_out.append(st.sampled_from(_client_hand('sdpc')))
        # deeply nested attribute lists: parsed when the transaction completes
        hand_out.append(st.tuples(NEST_DEPTH, st.sampled_from([0x35, 0x36, 0x3D]), st.sampled_from([0, 0, 1, 2]), st.sampled_from([5, 7]),
                                  st.integers(0, 3)).map(
            lambda t: (lambda body: _sdp_pdu(t[3], t[4], struct.pack('>H', len(body) & 0xFFFF) + body + b'\x00'))(sdp_nested(t[0], t[1], 6, t[2])[5:-10])))
    if chan == 'avdtpc':
        for sig, by_type in sorted(b.avdtp.Message.subclasses.items()):
            for mtype, cls in sorted(by_type.items()):
                if int(mtype) == 0:
                    continue  # responses, accepts and rejects (commands come through the hand-made list)
                out.append(st.tuples(st.integers(0, 15), _fields(cls.fields, 30)).map(
                    lambda t, sig=sig, mtype=mtype: bytes([t[0] << 4 | int(mtype), int(sig)]) + t[1][1]))
        hand_out.append(st.sampled_from(_client_hand('avdtpc')))
    if chan == 'at':
        out.append(st.sampled_from(AT_LINES))
        out.append(st.lists(st.sampled_from(AT_LINES), min_size=2, max_size=4).map(b''.join))
    if chan == 'athf':
        out.append(st.sampled_from(HF_LINES))
        out.append(st.lists(st.sampled_from(HF_LINES), min_size=2, max_size=4).map(b''.join))
    if chan == 'coc':
        out.append(st.binary(min_size=0, max_size=80).map(lambda d: struct.pack('<H', len(d)) + d))
    if chan == 'connless':
        out.append(st.binary(min_size=0, max_size=20).map(lambda d: struct.pack('<H', 1) + d))
    if chan == 'hci':
        out.append(hci_seed_strategy(info))
    return out, hand_out


def _sdp_pdu(pid: int, tid: int, params: bytes) -> bytes:
    return bytes([pid]) + struct.pack('>HH', tid, len(params)) + params


_CLIENT_HAND: dict = {}


def _client_hand(chan: str) -> list:
    """Hand-made answers of a hostile SERVER / acceptor to the victim's client (valid ones and near misses)."""
    if chan in _CLIENT_HAND:
        return _CLIENT_HAND[chan]
    b = B()
    if chan == 'gattc':
        u16 = lambda *v: b''.join(struct.pack('<H', x) for x in v)
        hand = [bytes([0x01, rq]) + u16(h) + bytes([code]) for rq in (0x02, 0x04, 0x06, 0x08, 0x0A, 0x0C, 0x10, 0x12, 0x16, 0x18)
                for h, code in ((0x0031, 0x0A), (0x0001, 0x0A), (0, 0x01), (0xFFFF, 0x0E))]
        hand += [bytes([0x03]) + u16(23), bytes([0x03]) + u16(0), bytes([0x03]) + u16(0xFFFF), bytes([0x03]) + u16(5),
                 bytes([0x0B]) + b'value', bytes([0x0B]), bytes([0x0B]) + bytes(22), bytes([0x0B]) + bytes(63), bytes([0x0D]) + bytes(22),
                 bytes([0x0D]), bytes([0x0D]) + b'tail', bytes([0x13]), bytes([0x17]) + u16(0x32, 0) + b'C17', bytes([0x19]),
                 # Read By Group Type Response: length octet, then (handle, end group handle, uuid) entries
                 bytes([0x11, 6]) + u16(1, 5, 0x1800) + u16(6, 9, 0x180F), bytes([0x11, 6]) + u16(1, 0xFFFF, 0x1800),
                 bytes([0x11, 6]) + u16(1, 5, 0x1800) + u16(3, 2, 0x180F), bytes([0x11, 6]) + u16(9, 1, 0x1800),
                 bytes([0x11, 6]) + u16(1, 1, 0x1800), bytes([0x11, 6]) + u16(0xFFFE, 0xFFFE, 0x1800), bytes([0x11, 0]), bytes([0x11, 6]),
                 bytes([0x11, 4]) + u16(1, 5), bytes([0x11, 5]) + u16(1, 5) + b'\x18', bytes([0x11, 20]) + u16(1, 5) + bytes(16),
                 bytes([0x11, 255]) + u16(1, 5, 0x1800), bytes([0x11, 6]) + u16(1, 5, 0x1800) + u16(6),
                 # Read By Type Response: length octet, then (handle, value) entries
                 bytes([0x09, 7]) + u16(2) + bytes([0x02]) + u16(3, 0x2A19), bytes([0x09, 3]) + u16(0x31) + b'x',
                 bytes([0x09, 3]) + u16(0xFFFF) + b'x', bytes([0x09, 3]) + u16(0) + b'x', bytes([0x09, 2]) + u16(3), bytes([0x09, 0]),
                 bytes([0x09, 1]) + b'abc', bytes([0x09, 7]) + u16(2) + bytes([0x02]) + u16(3), bytes([0x09, 21]) + u16(2) + bytes(19),
                 # Find Information Response: format, then (handle, uuid) entries; Find By Type Value Response: handle ranges
                 bytes([0x05, 1]) + u16(1, 0x2800, 2, 0x2803), bytes([0x05, 1]) + u16(0xFFFF, 0x2800), bytes([0x05, 1]) + u16(0, 0x2800),
                 bytes([0x05, 2]) + u16(1) + bytes(16), bytes([0x05, 3]) + u16(1, 2), bytes([0x05, 1]), bytes([0x05, 1]) + u16(1),
                 bytes([0x05, 0]) + u16(1, 2), bytes([0x07]) + u16(1, 5), bytes([0x07]) + u16(1, 0xFFFF), bytes([0x07]) + u16(5, 1),
                 bytes([0x07]) + u16(1, 5, 6), bytes([0x07]), bytes([0x0F]) + bytes(8), bytes([0x21, 1, 2]),
                 # server-initiated: notifications, indications (the client must confirm), multiple-value notification
                 bytes([0x1B]) + u16(0x31) + b'n', bytes([0x1B]) + u16(0x31), bytes([0x1B, 0x31]), bytes([0x1D]) + u16(0x31) + b'i',
                 bytes([0x1D]) + u16(0), bytes([0x1D]), bytes([0x23]) + u16(0x31, 1) + b'm', bytes([0x23]) + u16(0x31, 9) + b'm',
                 # a request: the victim is a server at the same time
                 bytes([0x0A]) + u16(3), bytes([0x02]) + u16(100)]
    elif chan == 'sdpc':
        s = b.sdp
        rec = bytes(s.DataElement.sequence([s.DataElement.sequence([
            s.DataElement.unsigned_integer_16(0x0100), s.DataElement.text_string(b'hostile')])]))
        one = bytes(s.DataElement.sequence([s.DataElement.unsigned_integer_16(0x0100), s.DataElement.text_string(b'hostile')]))
        pdu = _sdp_pdu
        hand = []
        for tid in (0, 1, 2, 3):
            for cont in (b'\x00', b'\x01\x00', b'\x02\xAA\xBB', b'\x10' + bytes(16), b'\x11' + bytes(17), b''):
                hand.append(pdu(7, tid, struct.pack('>H', len(rec)) + rec + cont))
                hand.append(pdu(5, tid, struct.pack('>H', len(one)) + one + cont))
                hand.append(pdu(3, tid, struct.pack('>HH', 1, 1) + struct.pack('>I', SDP_HANDLE) + cont))
            hand.append(pdu(1, tid, struct.pack('>H', 3)))
            hand.append(pdu(1, tid, b''))
            hand.append(pdu(7, tid, struct.pack('>H', 0) + b'\x00'))
            hand.append(pdu(7, tid, struct.pack('>H', 2) + b'\x35\x00' + b'\x00'))
            hand.append(pdu(7, tid, struct.pack('>H', 3) + b'\x35\x08\x35' + b'\x00'))  # element longer than the list
            hand.append(pdu(7, tid, struct.pack('>H', 1) + b'\x08' + b'\x00'))  # an integer, not a sequence
            hand.append(pdu(7, tid, struct.pack('>H', 0xFFFF) + rec + b'\x00'))
            hand.append(pdu(5, tid, struct.pack('>H', 2) + b'\x35\x00' + b'\x00'))
            hand.append(pdu(3, tid, struct.pack('>HH', 0xFFFF, 0xFFFF) + b'\x00'))
            hand.append(pdu(3, tid, struct.pack('>HH', 1, 3) + struct.pack('>I', SDP_HANDLE) + b'\x00'))
            hand.append(pdu(3, tid, struct.pack('>HH', 0, 0) + b'\x00'))
            hand.append(pdu(6, tid, b'\x35\x03\x19\x11\x01\x00\x10\x35\x05\x0a\x00\x00\xff\xff\x00'))  # a request
    else:
        ep = lambda seid, in_use=0, mt=0, tsep=1: bytes([seid << 2 | in_use << 1, mt << 4 | tsep << 3])
        caps = bytes([1, 0, 7, 6, 0, 0, 0x21, 0x15, 2, 53])
        hand = []
        for lab in (0, 1, 2, 3):
            hand += [bytes([lab << 4 | 2, 0x01]) + ep(1), bytes([lab << 4 | 2, 0x01]) + ep(1) + ep(2) + ep(3, 1), bytes([lab << 4 | 2, 0x01]),
                     bytes([lab << 4 | 2, 0x01]) + ep(1)[:1], bytes([lab << 4 | 2, 0x01]) + ep(0) + ep(63) + ep(1), bytes([lab << 4 | 2, 0x01]) + ep(1) * 40,
                     bytes([lab << 4 | 2, 0x02]) + caps, bytes([lab << 4 | 2, 0x0C]) + caps, bytes([lab << 4 | 2, 0x0C]), bytes([lab << 4 | 2, 0x0C]) + caps[:5],
                     bytes([lab << 4 | 2, 0x0C, 7, 200]) + bytes(4), bytes([lab << 4 | 2, 0x0C, 99, 0, 1, 0]), bytes([lab << 4 | 2, 0x04]) + caps,
                     bytes([lab << 4 | 2, 0x04]), bytes([lab << 4 | 2, 0x03]), bytes([lab << 4 | 2, 0x06]), bytes([lab << 4 | 2, 0x3F]), bytes([lab << 4 | 2, 0x00]),
                     bytes([lab << 4 | 3, 0x01, 0x19]), bytes([lab << 4 | 3, 0x01]), bytes([lab << 4 | 3, 0x0C, 0x12]), bytes([lab << 4 | 3, 0x03, 1, 0x29]),
                     bytes([lab << 4 | 3, 0x04, 0x12]), bytes([lab << 4 | 1, 0x01]), bytes([lab << 4 | 1]), bytes([lab << 4 | 1, 0x3F]),
                     bytes([lab << 4 | 0x06, 0x01, 2]) + ep(1), bytes([lab << 4 | 0x0E]) + ep(2), bytes([lab << 4 | 0x0A]) + ep(2),
                     bytes([lab << 4 | 0x06, 0x0C, 3]) + caps[:4], bytes([lab << 4 | 0x0A]) + caps[4:8], bytes([lab << 4 | 0x0E]) + caps[8:],
                     bytes([lab << 4 | 0x06, 0x01, 0]), bytes([lab << 4 | 0x06, 0x01]), bytes([lab << 4 | 0x0E]),
                     bytes([lab << 4, 0x01]), bytes([lab << 4, 0x02, 1 << 2])]
    _CLIENT_HAND[chan] = hand
    return hand


# which hand-made answers are of the kind the victim's call is waiting for: (first-octet values | signal identifiers)
CLIENT_ANSWERS = {
    'gattc': {'read': (0x0B,), 'read_long': (0x0B, 0x0D), 'disc': (0x11,), 'disc_uuid': (0x07,), 'attrs': (0x05,), 'by_uuid': (0x09,),
              'write': (0x13,), 'mtu': (0x03,)},
    'sdpc': {'search_attributes': (7,), 'search_services': (3,), 'get_attributes': (5,)},
    'avdtpc': {'discover': (0x01, 0x0C), 'caps': (0x0C,), 'getcfg': (0x04,)},
}


def _client_good(target: str, f: bytes) -> bool:
    """Answers that are entirely well-formed (they complete the call or make its procedure go on)."""
    if target == 'gattc':
        u16 = lambda *v: b''.join(struct.pack('<H', x) for x in v)
        return f in (bytes([0x0B]) + b'value', bytes([0x0B]) + bytes(22), bytes([0x0D]) + bytes(22), bytes([0x0D]) + b'tail', bytes([0x13]),
                     bytes([0x03]) + u16(23), bytes([0x11, 6]) + u16(1, 5, 0x1800) + u16(6, 9, 0x180F), bytes([0x11, 6]) + u16(1, 1, 0x1800),
                     bytes([0x07]) + u16(1, 5), bytes([0x05, 1]) + u16(1, 0x2800, 2, 0x2803), bytes([0x09, 3]) + u16(0x31) + b'x',
                     bytes([0x09, 7]) + u16(2) + bytes([0x02]) + u16(3, 0x2A19))
    if target == 'sdpc':
        # a complete answer with a plausible byte count and no continuation (the parameter length says where it ends)
        return f[0] in (3, 5, 7) and len(f) in (14, 22, 24) and f[-1:] == b'\x00' and f[5:7] != b'\xff\xff'
    return len(f) > 2 and f[0] & 0x0F == 2 and f[1] in (0x01, 0x0C, 0x04) and len(f) in (4, 12)


def _client_matching(target: str, op: str) -> list:
    want = CLIENT_ANSWERS[target][op]
    if target == 'avdtpc':
        got = [f for f in _client_hand(target) if len(f) >= 2 and f[0] & 0x0C == 0 and f[0] & 3 and f[1] & 0x3F in want]
    else:
        got = [f for f in _client_hand(target) if f[:1] and f[0] in want]
    good = [f for f in got if _client_good(target, f)]
    return got + good * max(3, len(got) // max(1, len(good)))  # about one draw in two is entirely well-formed


# the DESIGN asks for 1..200; CPython's default recursion limit is only reached beyond ~450 levels here
NEST_DEPTH = st.one_of(st.integers(1, 40), st.integers(41, 400), st.integers(401, 1500))


def _empty_credit_frame(cr: int, dlci: int) -> bytes:
    """UIH with P/F=1 (credit octet expected) and an empty information field."""
    r = B().rfcomm
    head = bytes([(dlci << 2) | (cr << 1) | 1, int(r.FrameType.UIH) | 0x10])
    return head + bytes([0x01, r.compute_fcs(head)])


def sdp_nested(depth: int, kind: int, pdu_id: int, siblings: int = 0) -> bytes:
    """An SDP request whose service search pattern is a sequence nested `depth` deep; every level holds `siblings`
    other elements (NIL) in front of the nested container."""
    inner = bytes([0x19, 0x11, 0x01])
    for _ in range(depth):
        inner = b'\x00' * siblings + inner
        n = len(inner)
        if kind in (0x35, 0x3D) and n < 256:
            inner = bytes([kind, n]) + inner
        elif kind in (0x35, 0x36, 0x3D, 0x3E) and n < 65536:
            inner = bytes([(kind & 0xF8) | 6]) + struct.pack('>H', n) + inner
        else:
            inner = bytes([(kind & 0xF8) | 7]) + struct.pack('>I', n) + inner
    if pdu_id == 2:
        params = inner + struct.pack('>H', 10) + b'\x00'
    elif pdu_id == 4:
        params = struct.pack('>IH', SDP_HANDLE, 100) + inner + b'\x00'
    else:
        params = inner + struct.pack('>H', 100) + bytes([0x35, 0x05, 0x0A, 0, 0, 0xFF, 0xFF]) + b'\x00'
    return bytes([pdu_id, 0x00, 0x09]) + struct.pack('>H', len(params)) + params


def hci_seed_strategy(info: dict):
    b = B()
    vh = info.get('vhandle', 1)

    def subst(v):
        changed = False
        for k in list(v):
            if k in ('connection_handle', 'handle', 'sync_handle', 'cis_connection_handle') and isinstance(v[k], int):
                v[k] = vh
                changed = True
            if k == 'connection_handles' and isinstance(v[k], list):
                v[k] = [vh for _ in v[k]]
                changed = True
        return v if changed else None

    parts = []
    for code, cls in sorted(b.hci.HCI_Event.event_classes.items()):
        if code == b.hci.HCI_LE_META_EVENT:
            continue
        parts.append(st.tuples(st.booleans(), _fields(cls.fields, 120)).map(
            lambda t, code=code, cls=cls: _hci_event_bytes(cls, code, None, t[1], subst if t[0] else None)))
    for sub, cls in sorted(b.hci.HCI_LE_Meta_Event.subevent_classes.items()):
        parts.append(st.tuples(st.booleans(), _fields(cls.fields, 120)).map(
            lambda t, sub=sub, cls=cls: _hci_event_bytes(cls, b.hci.HCI_LE_META_EVENT, sub, t[1], subst if t[0] else None)))
    # vendor / unknown events, SCO, ISO, unknown packet types, commands (wrong direction)
    vendor = st.tuples(st.sampled_from([0xFF, 0xFE, 0x00, 0x3E, 0x57, 0x3D, 0x0E, 0x0F]), st.binary(max_size=20)).map(
        lambda t: bytes([4, t[0], len(t[1])]) + t[1])
    sco = st.tuples(st.sampled_from([vh, vh, 0x0EFF, 0]), st.integers(0, 3), st.binary(max_size=30)).map(
        lambda t: bytes([3]) + struct.pack('<H', t[0] | t[1] << 12) + bytes([len(t[2])]) + t[2])
    iso = st.tuples(st.sampled_from([vh, vh, 0x0EFF, 0]), st.integers(0, 15), st.binary(max_size=40)).map(
        lambda t: bytes([5]) + struct.pack('<HH', t[0] | t[1] << 12, len(t[2])) + t[2])
    other = st.one_of(
        st.tuples(st.sampled_from([0, 6, 7, 9, 0x80, 0xFF]), st.binary(max_size=12)).map(lambda t: bytes([t[0]]) + t[1]),
        st.tuples(st.sampled_from([0x0C03, 0x1009, 0x2001, 0xFC00]), st.binary(max_size=8)).map(
            lambda t: bytes([1]) + struct.pack('<H', t[0]) + bytes([len(t[1])]) + t[1]),
        st.tuples(st.sampled_from([0x0C03, 0x1009, 0x2006, 0x0406, 0x0000, 0xFC00]), st.integers(0, 2), st.sampled_from([0, 0, 0x0C, 0xFF])).map(
            lambda t: bytes([4, 0x0E, 4, t[1]]) + struct.pack('<H', t[0]) + bytes([t[2]])),
        st.tuples(st.sampled_from([0x0C03, 0x2006, 0x0406, 0x200D, 0x0000]), st.integers(0, 2), st.sampled_from([0, 0x0C])).map(
            lambda t: bytes([4, 0x0F, 4, t[2], t[1]]) + struct.pack('<H', t[0])),
        st.sampled_from([vh, 0x0EFF]).map(lambda h: bytes([4, 0x05, 4, 0]) + struct.pack('<H', h) + bytes([0x13])),
        st.sampled_from([vh, 0x0EFF]).map(lambda h: bytes([4, 0x05, 4, 0x0C]) + struct.pack('<H', h) + bytes([0x13])),
    )
    captured = info.get('captured_hci') or [bytes([4, 0x13, 5, 1]) + struct.pack('<HH', vh, 1)]
    return pick(st.one_of(*parts), st.one_of(*parts), st.one_of(*parts), other, other, vendor, sco, iso,
                st.sampled_from(captured))


def _hci_event_bytes(cls, code, sub, drawn, subst):
    values, wire, _exp = drawn
    if subst is not None:
        try:
            v2 = subst(dict(values))
            if v2 is not None:
                return bytes(cls(**v2))
        except Exception:  # noqa: BLE001
            pass
    params = (bytes([sub]) if sub is not None else b'') + wire
    return bytes([4, code, len(params) & 0xFF]) + params


# ---------------------------------------------------------------------------
# structure-aware mutation
# ---------------------------------------------------------------------------
LEN_FIELDS = {
    'sig': [(2, 2, 'little')], 'lesig': [(2, 2, 'little')], 'sdp': [(3, 2, 'big'), (6, 1, 'big'), (5, 1, 'big')],
    'rfcomm': [(2, 1, 'big')], 'coc': [(0, 2, 'little')], 'hci': [(2, 1, 'big'), (3, 2, 'little'), (5, 2, 'little')],
    'avctp': [(3 + 8, 2, 'big'), (3 + 6, 1, 'big')], 'avdtp': [(2, 1, 'big'), (3, 1, 'big')], 'att': [(1, 1, 'big')],
    'smp': [], 'smpbr': [], 'connless': [(0, 2, 'little')], 'at': [], 'athf': [], 'cid': [(2, 2, 'little')],
    'gattc': [(1, 1, 'big')], 'sdpc': [(3, 2, 'big'), (5, 2, 'big'), (7, 1, 'big'), (8, 1, 'big')], 'avdtpc': [(2, 1, 'big'), (3, 1, 'big')],
}
BAD_UTF8 = [b'\xff', b'\xc3\x28', b'\xe2\x82', b'\xf0\x9f', b'\x80', b'\x00']


@st.composite
def mutated(draw, chan: str, seed: bytes) -> list:
    """Returns a list of frames (bytes): the seed with 1..4 mutations; split/duplicate may give several frames."""
    data = bytes(seed)
    frames = None
    nops = draw(st.integers(1, 4))
    text = chan in ('at', 'athf')
    for _ in range(nops):
        ops = ['truncate', 'extend', 'flip', 'setlen', 'dupslice', 'dupframe', 'byte']
        if text:
            ops += ['split', 'unterminate', 'overlong', 'badutf8', 'split', 'unterminate', 'blank', 'blank']
        op = draw(st.sampled_from(ops))
        n = len(data)
        if op == 'truncate':
            data = data[: draw(st.integers(0, max(0, n - 1)))]
        elif op == 'extend':
            extra = draw(st.one_of(st.binary(min_size=1, max_size=8), st.integers(1, 700).map(lambda k: b'\x00' * k),
                                   st.integers(1, 300).map(lambda k: b'\xff' * k)))
            data = data + extra
        elif op == 'flip' and n:
            i = draw(st.integers(0, n * 8 - 1))
            data = data[: i // 8] + bytes([data[i // 8] ^ (1 << (i % 8))]) + data[i // 8 + 1 :]
        elif op == 'byte' and n:
            i = draw(st.integers(0, n - 1))
            data = data[:i] + bytes([draw(st.sampled_from([0, 1, 0x7F, 0x80, 0xFF, 0x35, 0x0D, 0x0A, 0x22, 0x28, 0x2C]))]) + data[i + 1 :]
        elif op == 'setlen' and n:
            table = [f for f in LEN_FIELDS.get(chan, []) if f[0] + f[1] <= n]
            if table and draw(st.integers(0, 3)):
                off, width, order = draw(st.sampled_from(table))
            else:
                width = draw(st.sampled_from([1, 2]))
                width = min(width, n)
                off = draw(st.integers(0, n - width))
                order = draw(st.sampled_from(['little', 'big']))
            rest = n - off - width
            top = (1 << (8 * width)) - 1
            val = draw(st.sampled_from([0, top, max(0, rest - 1), rest + 1, rest, 1, top - 1])) & top
            data = data[:off] + val.to_bytes(width, order) + data[off + width :]
        elif op == 'dupslice' and n:
            i = draw(st.integers(0, n - 1))
            j = draw(st.integers(i + 1, n))
            data = data[:j] + data[i:j] * draw(st.integers(1, 3)) + data[j:]
        elif op == 'dupframe':
            frames = [data] * draw(st.integers(2, 3))
        elif op == 'split' and n > 1:
            cuts = sorted(set(draw(st.lists(st.integers(1, n - 1), min_size=1, max_size=3))))
            frames = [data[a:c] for a, c in zip([0] + cuts, cuts + [n])]
        elif op == 'unterminate':
            data = data.rstrip(b'\r\n')
        elif op == 'overlong':
            k = draw(st.sampled_from([64, 300, 2000, 9000]))
            i = draw(st.integers(0, n))
            data = data[:i] + draw(st.sampled_from([b'A', b'1', b',', b'(', b'"', b' ', b'+'])) * k + data[i:]
        elif op == 'blank':
            # empty / whitespace-only lines and doubled terminators, at the start, at the end or at a line boundary
            filler = draw(st.sampled_from([b'\r', b'\r\n', b'\r\r', b' \r', b'\n\r', b'\r\n\r\n', b'\t \r', b'\n', b'\r\n\r']))
            spots = [0, n] + [i + 1 for i in range(n) if data[i:i + 1] in (b'\r', b'\n')]
            i = draw(st.sampled_from(spots))
            data = data[:i] + filler + data[i:]
        elif op == 'badutf8':
            i = draw(st.integers(0, n))
            data = data[:i] + draw(st.sampled_from(BAD_UTF8)) + data[i:]
        if frames is not None and op not in ('split', 'dupframe'):
            frames = None
    return frames if frames is not None else [data]


@st.composite
def acl_fragments(draw, info: dict, payload_strategy, cids):
    """One L2CAP PDU as 1..4 raw ACL packets with generated PB flags / length lies (frames for chan 'hci')."""
    vh = info.get('vhandle', 1)
    cid = draw(st.sampled_from(cids))
    payload = draw(payload_strategy)
    true_len = len(payload)
    lie = draw(st.sampled_from(['ok', 'ok', 'ok', 'zero', 'max', 'minus', 'plus', 'big']))
    length = {'ok': true_len, 'zero': 0, 'max': 0xFFFF, 'minus': max(0, true_len - 1), 'plus': true_len + 1,
              'big': true_len + 300}[lie] & 0xFFFF
    pdu = struct.pack('<HH', length, cid) + payload
    n = len(pdu)
    cuts = sorted(set(draw(st.lists(st.integers(1, max(1, n - 1)), min_size=0, max_size=3))))
    parts = [pdu[a:c] for a, c in zip([0] + cuts, cuts + [n])]
    out = []
    for i, part in enumerate(parts):
        right = 2 if i == 0 else 1
        pb = draw(st.sampled_from([right, right, right, right, 0, 1, 2, 3]))
        handle = draw(st.sampled_from([vh, vh, vh, vh, vh, 0x0EFF]))
        bc = draw(st.sampled_from([0, 0, 0, 1, 2, 3]))
        total = len(part)
        tl = draw(st.sampled_from(['ok', 'ok', 'ok', 'ok', 'minus', 'plus', 'zero']))
        total = {'ok': total, 'minus': max(0, total - 1), 'plus': total + 1, 'zero': 0}[tl]
        out.append(bytes([2]) + struct.pack('<HH', handle | pb << 12 | bc << 14, total) + part)
    if draw(st.integers(0, 5)) == 0:
        k = draw(st.integers(0, len(out)))
        out.insert(k, out[draw(st.integers(0, len(out) - 1))])
    return out


LE_TARGETS = ['att', 'lesig', 'smp', 'coc', 'cid', 'hci', 'acl']
CLASSIC_TARGETS = ['sig', 'smpbr', 'connless', 'cid', 'sdp', 'rfcomm', 'at', 'athf', 'avdtp', 'avctp', 'hci', 'acl']


def case_strategy():
    def frames_for(kind, target, opens):
        info = info_for(kind, target)
        fixed = ['att', 'lesig', 'smp'] if kind == 'le' else ['sig', 'smpbr', 'connless']

        def one(chan_choice):
            chan = chan_choice
            if chan == 'acl':
                # fragments carry PDUs of a protocol the world has open
                inner = [c for c in (fixed + sorted(opens)) if c not in ('at', 'athf', 'acl', 'hci')]
                proto = inner[0] if not inner else None
                def carrier(fr, via_peer):
                    if via_peer and kind == 'le':
                        # the same fragments as raw ACL packets of the peer (its controller sees the PB flags)
                        return [[f'pacl:{(f[2] >> 4) & 3}', f[5:], 'mut'] for f in fr]
                    return [['hci', f, 'mut'] for f in fr]

                return st.tuples(st.sampled_from(inner), st.sampled_from([False, False, False, True])).flatmap(
                    lambda t: acl_fragments(info, payload_for(kind, t[0], info),
                                            [info['vcid'].get(t[0], 0x40)] * 4 + [0x40, 0x7F, 0]).map(
                        lambda fr: carrier(fr, t[1])))
            if chan == 'cid':
                others = OTHER_CIDS_LE if kind == 'le' else OTHER_CIDS_CLASSIC
                return st.tuples(st.sampled_from(others), payload_for(kind, 'cid', info), st.booleans()).flatmap(
                    lambda t: (mutated('cid', t[1]) if t[2] else st.just([t[1]])).map(
                        lambda fr: [[f'cid:{t[0]}', f, 'mut'] for f in fr]))
            seeds = seed_for(kind, chan, info)
            mut = seeds.flatmap(lambda s: mutated(chan, s)).map(lambda fr: [[chan, f, 'mut'] for f in fr])
            return pick(mut, mut, mut, mut, seeds.map(lambda s: [[chan, s, 'valid']]), seeds.map(lambda s: [[chan, s, 'valid']]),
                        st.binary(min_size=0, max_size=40).map(lambda d: [[chan, d, 'rand']]),
                        st.binary(min_size=0, max_size=700).map(lambda d: [[chan, d, 'rand']]))

        side = [c for c in fixed + ['hci'] if c != target]
        # mostly the primary target, sometimes another channel of the same world
        main = one(target)
        group = pick(main, main, main, main, main, main, st.sampled_from(side).flatmap(one))
        return st.lists(group, min_size=1, max_size=8).map(lambda groups: [f for g in groups for f in g][:20])

    def build(kind, target):
        opens = list(OPEN_SETS[(kind, target)])
        return frames_for(kind, target, opens).map(
            lambda fr: {'kind': 'world', 'world': kind, 'target': target, 'open': opens, 'frames': fr})

    le = st.sampled_from(LE_TARGETS).flatmap(lambda t: build('le', t))
    classic = st.sampled_from(CLASSIC_TARGETS).flatmap(lambda t: build('classic', t))
    # 'stream': the victim's host sits behind bumble.transport.common.PacketParser, as with every byte-stream transport
    return st.tuples(st.one_of(le, classic, classic), st.sampled_from([False, False, True])).map(
        lambda t: {**t[0], 'stream': True} if t[1] else t[0])


LE_CLIENT_TARGETS = ['gattc']
CLASSIC_CLIENT_TARGETS = ['sdpc', 'avdtpc']


def client_case_strategy(kind: str, target: str, op):
    """Client role: the victim has calls of its own outstanding (`op`, sometimes a second one; op None = none) that
    nobody answered while the hostile peer sends mutated RESPONSES; '...p' origins carry the transaction identifier
    of the victim's latest request."""
    opens = list(OPEN_SETS[(kind, target)])
    info = info_for(kind, target)
    seeds = seed_for(kind, target, info)
    tag = lambda origin: (lambda fr: [[target, f, origin] for f in (fr if isinstance(fr, list) else [fr])])
    mut = seeds.flatmap(lambda s: mutated(target, s))
    groups = [mut.map(tag('mutp')), mut.map(tag('mutp')), mut.map(tag('mut')), seeds.map(tag('validp')),
              seeds.map(tag('valid')), st.binary(min_size=0, max_size=40).map(tag('rand'))]
    if op is not None:
        # answers of the kind the outstanding call waits for (the procedures loop over such answers)
        match = st.sampled_from(_client_matching(target, op))
        groups += [match.map(tag('validp')), match.map(tag('validp')), match.map(tag('validp')), match.flatmap(lambda s: mutated(target, s)).map(tag('mutp')),
                   match.flatmap(lambda s: mutated(target, s)).map(tag('mutp'))]
    if target == 'gattc':
        # the GATT client gives up after 30 s: the peer stays silent across that deadline, then goes on
        groups.append(st.sampled_from([29, 31]).map(lambda k: [[f'sleep:{k}', b'', 'valid']]))
    frames = st.lists(pick(*groups), min_size=1, max_size=6).map(lambda gs: [f for g in gs for f in g][:16])
    second = st.one_of(st.just([]), st.just([]), st.sampled_from(CLIENT_OPS[target]).map(lambda o: [o]))
    pending = st.just([]) if op is None else second.map(lambda more: [op] + more)
    return st.tuples(frames, pending, st.sampled_from([1, 1, 1, 2, 4])).map(
        lambda t: {'kind': 'world', 'world': kind, 'target': target, 'open': opens, 'frames': t[0], 'pending': t[1],
                   **({'burst': t[2]} if t[2] != 1 else {})})


def burst_case_strategy():
    """The ordinary world cases, but 2 / 3 / all frames arrive back to back: the loop does not run in between."""
    return st.tuples(case_strategy(), st.sampled_from([2, 3, 20])).map(lambda t: {**t[0], 'burst': t[1]})


def sdp_continuation_cases() -> list:
    """Directed: a request that leaves a partial response behind (small maximum byte count), then 1..3 requests of
    each kind carrying the server's continuation state."""
    s = B().sdp
    uuid = s.DataElement.sequence([s.DataElement.uuid(B().core.UUID(KNOWN_UUID128))])
    ids = s.DataElement.sequence([s.DataElement.unsigned_integer_32(0x0000FFFF)])
    cont = s.Server.CONTINUATION_STATE

    def req(kind, tid, limit, state):
        if kind == 'ss':
            return bytes(s.SDP_ServiceSearchRequest(transaction_id=tid, service_search_pattern=uuid,
                                                    maximum_service_record_count=limit, continuation_state=state))
        if kind == 'sa':
            return bytes(s.SDP_ServiceAttributeRequest(transaction_id=tid, service_record_handle=SDP_HANDLE,
                                                       maximum_attribute_byte_count=limit, attribute_id_list=ids,
                                                       continuation_state=state))
        return bytes(s.SDP_ServiceSearchAttributeRequest(transaction_id=tid, service_search_pattern=uuid,
                                                         maximum_attribute_byte_count=limit, attribute_id_list=ids,
                                                         continuation_state=state))

    out = []
    for first in ('sa', 'ssa'):
        for limit in (0, 1, 7, 20):
            for second in ('ss', 'sa', 'ssa'):
                for limit2 in (0, 7, 0xFFFF):
                    for repeat in (1, 3):
                        frames = [['sdp', req(first, 0x10, limit, b'\x00'), 'valid']]
                        frames += [['sdp', req(second, 0x11 + k, limit2, cont), 'valid'] for k in range(repeat)]
                        out.append({'kind': 'world', 'world': 'classic', 'target': 'sdp', 'open': ['sdp'], 'frames': frames,
                                    'family': f'sdp_cont:{first}>{second}'})
    return out


_SEED_CACHE: dict = {}


def seed_for(kind: str, chan: str, info: dict):
    key = (kind, chan)
    if key not in _SEED_CACHE:
        reg, hand = _registry(chan, info)
        captured = info['captured'].get(chan)
        groups = [st.one_of(*reg) if reg else None, st.one_of(*hand) if hand else None,
                  st.sampled_from(captured) if captured else None]
        groups = [g for g in groups if g is not None] or [st.binary(max_size=30)]
        _SEED_CACHE[key] = pick(*groups)
    return _SEED_CACHE[key]


def payload_for(kind: str, proto: str, info: dict):
    seeds = seed_for(kind, proto, info)
    return pick(seeds, seeds, seeds.flatmap(lambda s: mutated(proto, s)).map(lambda fr: fr[0]),
                st.binary(max_size=60))


# ---------------------------------------------------------------------------
# calibration: handles, CIDs and captured traffic per (world, opened protocols)
# ---------------------------------------------------------------------------
OPEN_SETS = {
    ('le', 'att'): [], ('le', 'lesig'): ['coc'], ('le', 'smp'): [], ('le', 'coc'): ['coc'], ('le', 'cid'): [],
    ('le', 'hci'): ['coc'], ('le', 'acl'): ['coc'],
    ('classic', 'sig'): ['sdp'], ('classic', 'smpbr'): [], ('classic', 'connless'): [], ('classic', 'cid'): [],
    ('classic', 'sdp'): ['sdp'], ('classic', 'rfcomm'): ['rfcomm'], ('classic', 'at'): ['at'],
    ('classic', 'athf'): ['athf'], ('classic', 'avdtp'): ['avdtp'], ('classic', 'avctp'): ['avctp'],
    ('classic', 'hci'): ['sdp'], ('classic', 'acl'): ['sdp', 'avdtp'],
    # client role (the victim's own requests are outstanding)
    ('le', 'gattc'): ['gattc'], ('classic', 'sdpc'): ['sdpc'], ('classic', 'avdtpc'): ['avdtpc'],
}
_INFOS: dict = {}
_CALIB = {'max_wellformed_events': 0}


def calibrate(kind: str, opens) -> dict:
    key = (kind, tuple(opens))
    if key in _INFOS:
        return _INFOS[key]
    loop = vloop.new_loop()
    try:
        rig = Rig(loop, kind, opens)
        try:
            loop.complete(BUILDERS[kind](rig, {}), horizon=200)
        except HarnessError:
            raise
        except Exception as e:  # noqa: BLE001
            raise HarnessError(f'C17 calibration world {key} failed: {e!r}') from e
        end = len(rig.link.acl_log)
        info = {'vhandle': rig.vhandle, 'vcid': {}, 'pcid': {}, 'captured': {}, 'seid': 1}
        for name, c in rig.chans.items():
            if 'victim_cid' in c:
                info['vcid'][name] = c['victim_cid']
                info['pcid'][name] = c['peer_cid']
                cap = rig.to_victim(0, c['victim_cid'], end)
                if cap:
                    info['captured'][name] = sorted(set(cap))
        dyn = [n for n, c in rig.chans.items() if 'channel' in c or n == 'coc']
        info['victim_cids'] = [info['vcid'][n] for n in dyn] or [0x40]
        info['peer_cids'] = [info['pcid'][n] for n in dyn] or [0x40]
        if 'rfcomm' in info['captured']:
            lines = []
            for f in info['captured']['rfcomm']:
                try:
                    fr = B().rfcomm.RFCOMM_Frame.from_bytes(f)
                    if fr.dlci == RF_CHANNEL << 1 and fr.information and b'AT' in fr.information:
                        lines.append(bytes(fr.information[1:] if fr.p_f else fr.information))
                except Exception:  # noqa: BLE001
                    pass
            if lines:
                info['captured']['at'] = sorted(set(lines))
        hci_cap = sorted({bytes(p) for _t, d, p in rig.victim.tap.log if d == world.C2H and len(p) < 80})
        info['captured_hci'] = hci_cap[:80]
        # cost of well-formed traffic: the reference requests under the meter
        for name, _needs, fn in rig.refs:
            r = fn(rig)
            if r not in (None, 'skip'):
                # a well-formed request that is not answered with NO hostile frame at all: reported by run()
                _CALIB.setdefault('untouched_failures', []).append((kind, list(opens), name, r))
        _CALIB['max_wellformed_events'] = max(_CALIB['max_wellformed_events'], rig.max_events)
        if loop.errors:
            raise HarnessError(f'C17 calibration world {key}: loop errors {loop.errors[:2]}')
        _INFOS[key] = info
        return info
    finally:
        loop.shutdown()


def info_for(kind: str, target: str) -> dict:
    return calibrate(kind, OPEN_SETS[(kind, target)])


# ---------------------------------------------------------------------------
# one world case
# ---------------------------------------------------------------------------
def inject(rig: Rig, chan: str, data: bytes) -> None:
    if chan == 'hci':
        try:
            rig.victim.host.on_packet(data)
        except Exception as e:  # noqa: BLE001 - what the transport's packet pump would see
            rig.sync_errors.append(e)
        return
    try:
        if chan.startswith('cid:'):
            rig.raw_send(int(chan[4:]), data)
        elif chan in rig.chans:
            rig.chans[chan]['send'](data)
    except Exception as e:  # noqa: BLE001 - the peer's own objects refuse (closed DLC, ...)
        rig.peer_errors.append(e)


def closing_effects(rig: Rig, frames) -> set:
    closed = set()
    vh = rig.vhandle
    for fr in frames:
        chan, data = fr[0], bytes(fr[1])
        if chan == 'hci' and len(data) >= 7 and data[0] == 4 and data[1] == 5 and data[3] == 0 \
                and (struct.unpack_from('<H', data, 4)[0] & 0x0FFF) == (vh & 0x0FFF):
            closed.add('link')
        # a (LE / enhanced / classic) Connection Complete with status 0 that re-announces the SAME handle: the
        # controller validly declares a new connection in place of the old one
        if chan == 'hci' and len(data) >= 7 and data[0] == 4:
            if data[1] == 0x03 and data[3] == 0 and (struct.unpack_from('<H', data, 4)[0] & 0x0FFF) == (vh & 0x0FFF):
                closed.add('link')
            if data[1] == 0x3E and data[3] in (0x01, 0x0A, 0x29) and data[4] == 0 \
                    and (struct.unpack_from('<H', data, 5)[0] & 0x0FFF) == (vh & 0x0FFF):
                closed.add('link')
        for name, c in rig.chans.items():
            if 'channel' not in c and name != 'coc':
                continue
            # Disconnection Request naming the victim-side CID; Bumble does not look at the length field or
            # the source CID, so neither does this classification (both outcomes are accepted then)
            pat = struct.pack('<H', c['victim_cid'])
            i = data.find(pat)
            while i >= 0:
                if i >= 4 and data[i - 4] == 0x06:
                    closed.add('chan:' + name)
                i = data.find(pat, i + 1)
        if chan == 'rfcomm' and len(data) >= 2 and (data[1] & 0xEF) in (0x43, 0x0F):
            closed.add('rfcomm')
    if 'chan:rfcomm' in closed:
        closed.add('rfcomm')
    return closed


def coc_clean(rig: Rig, frames) -> bool:
    if 'coc' not in rig.chans:
        return True
    vcid = struct.pack('<H', rig.chans['coc']['victim_cid'])
    n = 0
    acl_stream = b''  # payload of all injected raw ACL packets: a PDU header may be split over fragments
    for fr in frames:
        chan, data = fr[0], bytes(fr[1])
        if chan == 'hci' and data[:1] == b'\x02':
            acl_stream += data[5:]
            if vcid in acl_stream:
                return False
        if chan.startswith('pacl:'):
            acl_stream += data
            if vcid in acl_stream:
                return False
        if chan == 'coc':
            n += 1
            if len(data) < 2 or struct.unpack_from('<H', data, 0)[0] != len(data) - 2 or len(data) > 64:
                return False
        elif chan == 'hci' and len(data) > 9 and data[0] == 2 and vcid in data[5:11]:
            return False
        elif chan in ('lesig', 'hci') and (b'\x16' in data or vcid in data):
            return False
        elif chan.startswith('pacl:') and vcid in data[:6]:
            return False
    return n <= 30


class Result:
    def __init__(self):
        self.fails: list = []
        self.labels: set = set()
        self.nontrivial = False
        self.trip = None
        self.max_events = 0
        self.exc_labels: set = set()


def exec_world(case, cap_scale: int = 1) -> Result:
    kind, target = case['world'], case.get('target', '?')
    frames = [(f[0], bytes(f[1]), (f[2] if len(f) > 2 else 'mut')) for f in case['frames']]
    res = Result()
    loop = vloop.new_loop()
    loop.max_iterations = 400_000
    with _Logs() as catcher:
        try:
            rig = Rig(loop, kind, case.get('open') or [])
            rig.cap = CAP * cap_scale
            try:
                loop.complete(BUILDERS[kind](rig, case), horizon=200)
            except HarnessError:
                raise
            except Exception as e:  # noqa: BLE001
                raise HarnessError(f'C17 {kind} world set-up failed: {e!r}') from e
            n_loop_errors = len(loop.errors)
            del catcher.excs[:]
            replied = raised = False
            mark_frames = len(rig.link.acl_log)
            burst = max(1, int(case.get('burst') or 1))
            for i, (chan, data, _origin) in enumerate(frames):
                mark_acl, mark_hci = len(rig.link.acl_log), len(rig.victim.tap.log)
                mark_err = len(loop.errors) + len(rig.sync_errors) + len(catcher.excs)
                if _origin.endswith('p') and chan in CLIENT_OPS:
                    data = _client_patch(rig, chan, data)
                METER.start(rig.cap, loop)
                quiet = True
                try:
                    if chan.startswith('sleep:'):
                        # the hostile peer stays silent for a while (virtual seconds): time-outs of pending requests
                        loop.run_for(float(chan[6:]))
                        if loop.budget_hit:
                            quiet = False
                    else:
                        inject(rig, chan, data)
                    # burst > 1: `burst` frames arrive back to back, the loop does not run in between
                    if (i + 1) % burst == 0 or i + 1 == len(frames):
                        quiet = settle(loop) and quiet
                except _Trip:
                    pass
                finally:
                    n = METER.stop()
                res.max_events = max(res.max_events, n)
                if METER.tripped or not quiet:
                    res.trip = (i, chan, METER.trip_site or 'zero_delay_storm')
                    break
                if chan != 'hci' and rig.victim_activity(mark_acl, mark_hci):
                    replied = True
                if chan == 'hci' and any(d == world.H2C for _t, d, _p in rig.victim.tap.log[mark_hci:]):
                    replied = True
                if len(loop.errors) + len(rig.sync_errors) + len(catcher.excs) > mark_err:
                    raised = True
            if res.trip is None:
                try:
                    rig.run(QUIET_AFTER)
                except BusyLoop as e:
                    res.trip = (len(frames), 'quiet', e.site)
            # exceptions: RecursionError / MemoryError are violations, the rest is bucketed
            seen = [e.get('exception') for e in loop.errors[n_loop_errors:]] + rig.sync_errors + catcher.excs
            for exc in seen:
                if exc is None or isinstance(exc, _Trip):
                    continue
                if isinstance(exc, (RecursionError, MemoryError)):
                    res.fails.append((f'{type(exc).__name__}/{target}/{_site(exc)}',
                                      f'{type(exc).__name__} while processing a hostile frame on {target} (at {_site(exc)})'))
                else:
                    res.exc_labels.add(f'exc:{type(exc).__name__}@{_site(exc)}')
            origins = {o for _c, _d, o in frames}
            res.labels |= {f'world:{kind}', f'target:{kind}/{target}'} | {f'origin:{o}' for o in origins}
            res.labels |= {f'chan:{c.split(":")[0]}' for c, _d, _o in frames}
            if replied:
                res.labels.add('victim_replied')
            if raised:
                res.labels.add('stack_raised')
            for _c, d, _o in frames:
                if _c == 'hci' and d[:1] in (b'\x02', b'\x03', b'\x04', b'\x05'):
                    res.labels.add({2: 'hci:acl', 3: 'hci:sco', 4: 'hci:event', 5: 'hci:iso'}[d[0]])
                elif _c == 'hci':
                    res.labels.add('hci:other_type')
            res.nontrivial = bool(origins & {'mut', 'mutp', 'validp'}) or replied or raised
            if case.get('family'):
                res.labels.add(case['family'])
            if 'sdp' in rig.chans and any(c == 'sdp' for c, _d, _o in frames):
                state = B().sdp.Server.CONTINUATION_STATE
                answers = rig.from_victim(mark_frames, rig.chans['sdp']['peer_cid'])
                if any(a[:1] != b'\x01' and a.endswith(state) for a in answers):
                    res.labels.add('sdp:victim_offers_continuation')
                if any(d.endswith(state) for c, d, _o in frames if c == 'sdp') and any(
                        a[:1] in (b'\x03', b'\x05', b'\x07') and a[1:3] == d[1:3]
                        for a in answers for c, d, _o in frames if c == 'sdp' and d.endswith(state) and len(d) > 3):
                    res.labels.add('sdp:continuation_served')
            if burst > 1 and len(frames) > 1:
                res.labels.add('burst')
            if case.get('stream'):
                res.labels.add('victim_behind_packet_parser')
                res.labels.add(f'victim_behind_packet_parser:{case["world"]}')
            if any(c.startswith('sleep:') for c, _d, _o in frames):
                res.labels.add('peer_silent_30s')
            for op, task, box in rig.state.get('pending') or []:
                res.labels.add(f'client_pending:{target}/{op}')
                if task.done() and not box.get('early'):
                    # a hostile frame (or a time-out) ended a call of the victim's own client
                    res.labels.add(f'client_call_ended_by_hostile:{target}')
                    res.labels.add('client_call_ended:' + ('result' if 'result' in box else type(box.get('exc')).__name__))
                    res.nontrivial = True
            if target in CLIENT_OPS and len(_client_requests(rig, target)) > len(rig.state.get('pending') or []):
                res.labels.add(f'client_followed_up:{target}')  # a hostile answer made the client send a further request
            if res.trip is None:
                _references(rig, case, frames, res)
            res.max_events = max(res.max_events, rig.max_events)
            if rig.peer_errors:
                res.labels.add('peer_side_refused_to_send')
        finally:
            METER.stop()
            loop.shutdown()
    return res


def _references(rig: Rig, case, frames, res: Result) -> None:
    target = case.get('target', '?')
    closed = closing_effects(rig, frames)
    rig.state['coc_clean'] = coc_clean(rig, frames)
    if closed:
        res.labels.add('valid_disconnect')
    if 'link' not in closed and rig.vhandle not in rig.victim.device.connections:
        res.fails.append((f'connection_lost/{rig.kind}/{target}',
                          'the connection is no longer in Device.connections although no valid disconnect was sent'))
        closed.add('link')
    for name, needs, fn in rig.refs:
        if needs & closed:
            res.labels.add(f'ref_skipped:{name}')
            continue
        try:
            r = fn(rig)
        except BusyLoop as e:
            res.trip = (len(frames), f'ref_{name}', e.site)
            return
        if r == 'skip':
            res.labels.add(f'ref_skipped:{name}')
        elif r is None:
            res.labels.add(f'ref_ok:{name}')
        else:
            res.fails.append((f'ref/{name}/{r[0]}/after_{rig.kind}_{target}', r[1]))


def run_world_case(ctx, case, record=True) -> None:
    res = exec_world(case)
    if res.trip is not None:
        res2 = exec_world(case, cap_scale=10)
        if res2.trip is not None:
            i, chan, site = res2.trip
            ctx.fail(f'busy_loop/{case.get("target")}/{site}',
                     f'processing frame {i} ({chan}) did not reach quiescence within {CAP * 10} interpreter events '
                     f'(busy loop / no prompt termination; last site {site})', case)
        else:
            ctx.label('cap_hit_once')
            res = res2
    for sig, what in res.fails:
        ctx.fail(sig, what, case)
    ctx.extra['max_events_per_frame'] = max(ctx.extra.get('max_events_per_frame', 0), res.max_events)
    if record:
        for lab in res.exc_labels:
            ctx.label(lab)
        fp = (case['world'], case.get('open'), [[f[0], bytes(f[1])] for f in case['frames']])
        if case.get('pending') or case.get('burst', 1) != 1:
            fp = fp + (case.get('pending'), case.get('burst'))
        ctx.case(fp, res.nontrivial,
                 res.labels, sample={'world': case['world'], 'target': case.get('target'),
                                     **({'pending': case['pending']} if case.get('pending') else {}),
                                     **({'burst': case['burst']} if case.get('burst', 1) != 1 else {}),
                                     'frames': [[f[0], bytes(f[1]).hex()[:60]] for f in case['frames'][:4]]})


# ---------------------------------------------------------------------------
# layer (b): parsers, assemblers, AT readers - fresh objects per input
# ---------------------------------------------------------------------------
PARSER_CAP = 2_000_000


class _StubChannel:
    EVENT_CLOSE = 'close'
    connection = None

    def on(self, *_a, **_k):
        return None

    once = on


class _StubMux:
    def __init__(self):
        self.l2cap_channel = _StubChannel()


class _StubDlc:
    def __init__(self):
        self.sink = None
        self.out: list = []
        self.multiplexer = _StubMux()
        self.dlci = RF_CHANNEL << 1

    def write(self, data) -> None:
        self.out.append(data.encode() if isinstance(data, str) else bytes(data))

    def on(self, *_a, **_k):
        return None


def _p_l2cap(d):
    return B().l2cap.L2CAP_Control_Frame.from_bytes(d)


def _p_rfcomm(d):
    r = B().rfcomm
    f = r.RFCOMM_Frame.from_bytes(d)
    if f.type == r.FrameType.UIH and f.dlci == 0:
        t, _cr, value = r.RFCOMM_Frame.parse_mcc(f.information)
        if t == r.MccType.PN:
            return r.RFCOMM_MCC_PN.from_bytes(value)
        if t == r.MccType.MSC:
            return r.RFCOMM_MCC_MSC.from_bytes(value)
    return f


def _p_mcc(d):
    r = B().rfcomm
    t, _cr, value = r.RFCOMM_Frame.parse_mcc(d)
    if t == r.MccType.PN:
        return r.RFCOMM_MCC_PN.from_bytes(value)
    if t == r.MccType.MSC:
        return r.RFCOMM_MCC_MSC.from_bytes(value)
    return value


def _p_at(d):
    a = B().at
    a.tokenize_parameters(d)
    return a.parse_parameters(d)


SINGLE_PARSERS = {
    'l2cap_control': _p_l2cap,
    'att_pdu': lambda d: B().att.ATT_PDU.from_bytes(d),
    'smp_command': lambda d: B().smp.SMP_Command.from_bytes(d),
    'sdp_data_element': lambda d: B().sdp.DataElement.from_bytes(d),
    'sdp_pdu': lambda d: B().sdp.SDP_PDU.from_bytes(d),
    'rfcomm_frame': _p_rfcomm,
    'rfcomm_mcc': _p_mcc,
    'at_parameters': _p_at,
    'hci_packet': lambda d: B().hci.HCI_Packet.from_bytes(d),
    'advertising_data': lambda d: B().core.AdvertisingData.from_bytes(d),
    'avc_frame': lambda d: B().avc.Frame.from_bytes(d),
}
STATEFUL_PARSERS = ('avdtp_assembler', 'avctp_assembler', 'at_reader_ag', 'at_reader_hf')
PARSER_TARGETS = tuple(SINGLE_PARSERS) + STATEFUL_PARSERS


def chunks_of(data: bytes) -> list:
    """Deterministic split of one fuzz input into 1..8 chunks (first byte of each chunk = its length)."""
    out = []
    i = 0
    while i < len(data) and len(out) < 8:
        n = data[i]
        out.append(data[i + 1 : i + 1 + n])
        i += 1 + n
    return out or [b'']


def exec_parser(target: str, payload) -> dict:
    """payload: bytes for single-shot parsers, list of bytes for the stateful ones.
    Returns {'violation': (sig, what) | None, 'accepted': bool, 'exc': str | None}."""
    out = {'violation': None, 'accepted': False, 'exc': None, 'mid': False, 'events': 0}
    loop = None
    try:
        if target in SINGLE_PARSERS:
            fn = SINGLE_PARSERS[target]
            METER.start(PARSER_CAP)
            try:
                obj = fn(bytes(payload))
                str(obj)  # Bumble formats what it parsed in its debug logging
                out['accepted'] = True
            except _Trip:
                pass
            except (RecursionError, MemoryError) as e:
                out['violation'] = (f'parser/{target}/{type(e).__name__}', f'{target}: {type(e).__name__} at {_site(e)}')
            except Exception as e:  # noqa: BLE001 - ordinary exception: acceptable
                out['exc'] = f'{type(e).__name__}@{_site(e)}'
            finally:
                out['events'] = METER.stop()
            if METER.tripped:
                out['violation'] = (f'parser/{target}/busy/{METER.trip_site}',
                                    f'{target}: no result within {PARSER_CAP} interpreter events (at {METER.trip_site})')
            return out
        chunks = [bytes(c) for c in payload]
        b = B()
        delivered: list = []
        excs: list = []
        if target in ('at_reader_ag', 'at_reader_hf'):
            loop = vloop.new_loop()
        if target == 'avdtp_assembler':
            asm = b.avdtp.MessageAssembler(lambda label, msg: delivered.append((label, msg)))
            feed = asm.on_pdu
            follow = [bytes([0x90, 0x01])]
            good = lambda: any(lab == 9 and int(m.signal_identifier) == 1 for lab, m in delivered)
            mid = lambda: asm.message is not None
        elif target == 'avctp_assembler':
            asm = b.avctp.MessageAssembler(lambda *a: delivered.append(a))
            feed = asm.on_pdu
            follow = [bytes([0x90, 0x11, 0x0E]) + b'C17']
            good = lambda: any(a[0] == 9 and a[3] == 0x110E and bytes(a[4]) == b'C17' for a in delivered)
            mid = lambda: bool(getattr(asm, 'payload', b'')) or getattr(asm, 'state', 0) not in (0, getattr(type(asm), 'State', type('x', (), {'IDLE': 0})).IDLE if hasattr(type(asm), 'State') else 0)
        elif target == 'at_reader_ag':
            dlc = _StubDlc()
            ag = b.hfp.AgProtocol(dlc, _ag_config())
            feed = dlc.sink
            follow = [b'AT+CIND?\r', b'AT+CIND?\r']

            def good():
                text = b''.join(dlc.out[mark[0]:])
                return b'+CIND:' in text and text.rstrip().endswith(b'OK')

            mid = lambda: bool(ag.read_buffer)
        else:
            dlc = _StubDlc()
            hf = b.hfp.HfProtocol(dlc, _hf_config())
            feed = dlc.sink
            follow = [b'\r\n+VGS: 7\r\n', b'\r\n+VGS: 9\r\n']

            def good():
                got = []
                while not hf.unsolicited_queue.empty():
                    got.append(hf.unsolicited_queue.get_nowait())
                return any(r.code == '+VGS' and r.parameters == [b'9'] for r in got)

            mid = lambda: bool(hf.read_buffer)
        mark = [0]
        METER.start(PARSER_CAP)
        try:
            for c in chunks:
                try:
                    feed(c)
                except _Trip:
                    break
                except (RecursionError, MemoryError):
                    raise
                except Exception as e:  # noqa: BLE001
                    excs.append(e)
            if not METER.tripped:
                try:
                    out['mid'] = bool(mid())
                except Exception:  # noqa: BLE001
                    out['mid'] = False
                for k, f in enumerate(follow):
                    if k == len(follow) - 1 and target == 'at_reader_ag':
                        mark[0] = len(dlc.out)
                    if k == len(follow) - 1 and target == 'at_reader_hf':
                        while not hf.unsolicited_queue.empty():
                            hf.unsolicited_queue.get_nowait()
                    try:
                        feed(f)
                    except _Trip:
                        break
                    except (RecursionError, MemoryError):
                        raise
                    except Exception as e:  # noqa: BLE001
                        excs.append(e)
        except (RecursionError, MemoryError) as e:
            out['violation'] = (f'parser/{target}/{type(e).__name__}', f'{target}: {type(e).__name__} at {_site(e)}')
        finally:
            out['events'] = METER.stop()
        if METER.tripped:
            out['violation'] = (f'parser/{target}/busy/{METER.trip_site}',
                                f'{target}: no result within {PARSER_CAP} interpreter events (at {METER.trip_site})')
        elif out['violation'] is None:
            out['accepted'] = bool(delivered) or not excs
            if excs:
                out['exc'] = f'{type(excs[-1]).__name__}@{_site(excs[-1])}'
            if not good():
                out['violation'] = (f'parser/{target}/wedged',
                                    f'{target}: after the hostile chunks a following well-formed message was not '
                                    f'delivered/answered (exceptions: {[repr(e)[:60] for e in excs[-2:]]})')
        return out
    finally:
        METER.stop()
        if loop is not None:
            loop.shutdown()


def parser_seeds(target: str) -> list:
    """Valid inputs per parser target (hand-made; the registry-built ones come through Hypothesis)."""
    b = B()
    s = b.sdp
    if target == 'l2cap_control':
        return [bytes([0x02, 1, 4, 0, 1, 0, 0x40, 0]), bytes([0x08, 2, 3, 0, 1, 2, 3]), bytes([0x0A, 3, 2, 0, 2, 0]),
                bytes([0x14, 4, 10, 0]) + struct.pack('<HHHHH', 0x81, 0x40, 64, 64, 5), bytes([0x04, 5, 8, 0, 0x40, 0, 0, 0, 1, 2, 0x30, 0])]
    if target == 'att_pdu':
        return [bytes([0x0A, 3, 0]), bytes([0x08, 1, 0, 0xFF, 0xFF, 0x03, 0x28]), bytes([0x02, 23, 0]), bytes([0x12, 3, 0, 1]),
                bytes([0x09, 7, 3, 0, 2, 4, 0, 0, 0x2A]), bytes([0x05, 1, 1, 0, 0, 0x28])]
    if target == 'smp_command':
        return [_smp_pairing_request(), bytes([0x05, 0x08]), bytes([0x03]) + bytes(16), bytes([0x0C]) + bytes(64), bytes([0x0B, 1])]
    if target == 'sdp_data_element':
        return [bytes(s.DataElement.sequence([s.DataElement.uuid(b.core.UUID(KNOWN_UUID128)), s.DataElement.text_string(b'x')])),
                bytes([0x35, 3, 0x19, 0x11, 0x01]), bytes([0x09, 1, 2]), bytes([0x25, 2, 0x41, 0x42]), sdp_nested(3, 0x35, 6)[5:-10]]
    if target == 'sdp_pdu':
        return [sdp_nested(1, 0x35, 6), sdp_nested(2, 0x35, 2), sdp_nested(1, 0x35, 4), bytes([1, 0, 1, 0, 2, 0, 3])]
    if target == 'rfcomm_frame':
        F = b.rfcomm.RFCOMM_Frame
        return [bytes(F.sabm(1, 0)), bytes(F.uih(1, 10, b'AT\r')), bytes(F.uih(1, 10, b'\x05AT\r', p_f=1)),
                bytes(F.uih(1, 0, F.make_mcc(0x20, 1, bytes(8)))), bytes(F.uih(1, 0, F.make_mcc(0x38, 1, bytes([0x2B, 0x8D])))), bytes(F.disc(1, 10))]
    if target == 'rfcomm_mcc':
        F = b.rfcomm.RFCOMM_Frame
        return [F.make_mcc(0x20, 1, bytes(8)), F.make_mcc(0x38, 1, bytes([0x2B, 0x8D])), F.make_mcc(0x38, 0, bytes([0x2B, 0x8D, 1]))]
    if target == 'at_parameters':
        return [b'1,2', b'3,,,1', b'("call",(0,1)),("service",(0,1))', b'"a,b",(1,(2,3))', b' 1 , "x y" ']
    if target == 'hci_packet':
        return [bytes([4, 0x0E, 4, 1, 3, 0x0C, 0]), bytes([4, 0x05, 4, 0, 1, 0, 0x13]), bytes([2, 1, 0x20, 5, 0, 1, 0, 4, 0, 0x0A]),
                bytes([4, 0x3E, 19, 1, 0, 1, 0, 0, 0]) + bytes(6) + bytes([6, 0, 0, 0, 0x48, 0, 0]), bytes([5, 1, 0, 4, 0, 1, 2, 3, 4]),
                bytes([4, 0x13, 5, 1, 1, 0, 1, 0]), bytes([1, 3, 0x0C, 0]), bytes([3, 1, 0, 2, 1, 2])]
    if target == 'advertising_data':
        return [bytes([2, 1, 6, 5, 9, 0x41, 0x42, 0x43, 0x44]), bytes([3, 3, 0x0F, 0x18]), bytes([0]), bytes([17, 7]) + bytes(16)]
    if target == 'avc_frame':
        return [bytes([0x01, 0xFF, 0x30, 0xFF, 0xFF, 0xFF, 0xFF, 0xFF]), bytes([0x00, 0x48, 0x7C, 0x44, 0x00]),
                bytes([0x01, 0x48, 0x00, 0x00, 0x19, 0x58, 0x10, 0, 0, 1, 2])]
    if target == 'avdtp_assembler':
        return [[bytes([0x10, 0x01])], [bytes([0x14, 0x03, 2, 4]), bytes([0x1C, 1, 2])], [bytes([0x14, 0x03, 3, 4]), bytes([0x18, 9]), bytes([0x1C, 1])],
                [bytes([0x22, 0x01, 4, 8])]]
    if target == 'avctp_assembler':
        return [[bytes([0x10, 0x11, 0x0E, 1, 2])], [bytes([0x14, 2, 0x11, 0x0E, 1]), bytes([0x1C, 2])],
                [bytes([0x14, 3, 0x11, 0x0E, 1]), bytes([0x18, 2]), bytes([0x1C, 3])], [bytes([0x13, 0x11, 0x0E])]]
    if target == 'at_reader_ag':
        return [[l] for l in AT_LINES[:12]] + [[b'AT+CI', b'ND?\r'], [b'AT+BRSF=159\rAT+CIND=?\r']]
    if target == 'at_reader_hf':
        return [[l] for l in HF_LINES[:12]] + [[b'\r\n+CIEV: ', b'1,1\r\n'], [b'\r\nOK\r\n\r\n+CIEV: 1,1\r\n']]
    return [b'']


def parser_strategy(target: str):
    seeds = parser_seeds(target)
    reg = {'l2cap_control': 'sig', 'att_pdu': 'att', 'smp_command': 'smp', 'sdp_pdu': 'sdp', 'rfcomm_frame': 'rfcomm',
           'hci_packet': 'hci'}.get(target)
    chan = {'at_parameters': 'at', 'at_reader_ag': 'at', 'at_reader_hf': 'athf', 'avdtp_assembler': 'avdtp',
            'avctp_assembler': 'avctp', 'sdp_data_element': 'sdp'}.get(target, reg or 'cid')
    if target in STATEFUL_PARSERS:
        seq = st.sampled_from(seeds)
        extra = {'at_reader_ag': AT_LINES, 'at_reader_hf': HF_LINES}.get(target)
        if extra:
            seq = st.one_of(seq, st.lists(st.sampled_from(extra), min_size=1, max_size=4))
        elif target == 'avdtp_assembler':
            seq = st.one_of(seq, st.lists(st.one_of(*sum(_registry('avdtp', {}), [])), min_size=1, max_size=4))
        else:
            seq = st.one_of(seq, st.lists(st.one_of(*sum(_registry('avctp', {}), [])), min_size=1, max_size=4))

        def mutate_seq(chs):
            return st.tuples(*[st.one_of(st.just([c]), mutated(chan, c), mutated(chan, c)) for c in chs]).map(
                lambda parts: [f for p in parts for f in p][:12])

        return st.one_of(seq.flatmap(mutate_seq), seq.flatmap(mutate_seq),
                         st.lists(st.binary(max_size=40), min_size=1, max_size=6))
    base = [st.sampled_from(seeds)]
    if reg:
        r_, h_ = _registry(reg, {'vhandle': 1, 'captured': {}})
        base += [pick(st.one_of(*r_), st.one_of(*h_)) if r_ and h_ else st.one_of(*(r_ + h_))]
    if target == 'sdp_data_element':
        base.append(st.tuples(NEST_DEPTH, st.sampled_from([0x35, 0x36, 0x37, 0x3D]), st.sampled_from([0, 0, 1, 2])).map(
            lambda t: sdp_nested(t[0], t[1], 6, t[2])[5:-10]))
    seed = st.one_of(*base)
    return st.one_of(seed.flatmap(lambda s: mutated(chan, s)).map(lambda fr: fr[0]),
                     seed.flatmap(lambda s: mutated(chan, s)).map(lambda fr: fr[0]), seed,
                     st.binary(max_size=64), st.binary(max_size=600))


def run_parser_case(ctx, target: str, payload, record=True, origin='hyp') -> None:
    stateful = target in STATEFUL_PARSERS
    case = {'kind': 'parser', 'target': target, **({'chunks': [bytes(c) for c in payload]} if stateful else {'data': bytes(payload)})}
    out = exec_parser(target, payload)
    if out['violation'] is not None and '/busy/' in out['violation'][0]:
        # second chance with a 10x budget, as for world frames
        global PARSER_CAP
        keep = PARSER_CAP
        PARSER_CAP = keep * 10
        try:
            out = exec_parser(target, payload)
        finally:
            PARSER_CAP = keep
    if out['violation'] is not None:
        ctx.fail(out['violation'][0], out['violation'][1], case)
    if record:
        labels = {f'parser:{target}', 'parser_accepted' if out['accepted'] else 'parser_rejected'}
        if out['mid']:
            labels.add('assembler_mid_message')
        if out['exc']:
            ctx.label(f'pexc:{target}:{out["exc"]}')
        ctx.extra['max_events_parser'] = max(ctx.extra.get('max_events_parser', 0), out['events'])
        fp = ('p', target, [bytes(c) for c in payload] if stateful else bytes(payload))
        ctx.case(fp, out['accepted'] or out['mid'], labels,
                 sample={'parser': target, 'input': (b'|'.join(bytes(c) for c in payload) if stateful else bytes(payload)).hex()[:80]})


# ---------------------------------------------------------------------------
# atheris (thorough tier): one subprocess per target
# ---------------------------------------------------------------------------
def fuzz_main(argv) -> int:
    import argparse

    ap = argparse.ArgumentParser()
    ap.add_argument('--fuzz', required=True)
    ap.add_argument('--runs', type=int, default=20000)
    ap.add_argument('--seed', type=int, default=1)
    ap.add_argument('--out', required=True)
    ap.add_argument('--corpus', required=True)
    ap.add_argument('--max-len', type=int, default=1024)
    args = ap.parse_args(argv)
    logging.disable(logging.CRITICAL)
    target = args.fuzz
    state = {'target': target, 'executed': 0, 'findings': {}, 'atheris': True, 'done': False}

    def flush():
        with open(args.out + '.tmp', 'w') as f:
            json.dump(state, f)
        os.replace(args.out + '.tmp', args.out)

    atheris = _ATHERIS
    if atheris is None or isinstance(atheris, Exception):
        state['atheris'] = False
        state['error'] = repr(atheris)
        flush()
        return 0
    B()
    flush()
    METER.keep_on = True
    stateful = target in STATEFUL_PARSERS

    def one(data: bytes):
        state['executed'] += 1
        payload = chunks_of(data) if stateful else data
        out = exec_parser(target, payload)
        if out['violation'] is not None and out['violation'][0] not in state['findings']:
            state['findings'][out['violation'][0]] = {
                'what': out['violation'][1],
                **({'chunks': [c.hex() for c in payload]} if stateful else {'data': data.hex()})}
            flush()
        if state['executed'] % 2000 == 0 or state['executed'] >= args.runs:
            state['done'] = state['executed'] >= args.runs
            flush()

    atheris.Setup([sys.argv[0], args.corpus, f'-runs={args.runs}', f'-seed={args.seed}', f'-max_len={args.max_len}',
                   '-verbosity=' + os.environ.get('C17_FUZZ_VERBOSE', '0'), '-print_final_stats=0', '-close_fd_mask=' + ('0' if os.environ.get('C17_FUZZ_VERBOSE') else '3'), '-timeout=120', '-rss_limit_mb=4096', '-max_total_time=90'], one)
    atheris.Fuzz()
    return 0


def run_atheris(ctx) -> None:
    """Thorough tier: every shard fuzzes the targets i % nshards == shard."""
    mine = [t for i, t in enumerate(PARSER_TARGETS) if i % ctx.nshards == ctx.shard]
    for target in mine:
        runs = 40000 if target in STATEFUL_PARSERS else 150000
        if ctx.out_of_time():
            ctx.label('budget_hit:atheris')
            return
        corpus = ctx.outdir('corpus', target)
        for k, seed in enumerate(parser_seeds(target)):
            data = b''.join(bytes([min(len(c), 255)]) + bytes(c)[:255] for c in seed) if target in STATEFUL_PARSERS else bytes(seed)
            with open(os.path.join(corpus, f'seed_{k}'), 'wb') as f:
                f.write(data)
        out = os.path.join(ctx.outdir('fuzz'), f'{target}.json')
        if os.path.exists(out):
            os.unlink(out)
        env = dict(os.environ)
        cmd = [sys.executable, '-m', 'checks.c17_hostile_input', '--fuzz', target, '--runs', str(runs),
               '--seed', str(ctx.subseed('atheris/' + target) or 1), '--out', out, '--corpus', corpus]
        try:
            proc = subprocess.run(cmd, env=env, cwd=os.path.dirname(os.path.dirname(os.path.abspath(__file__))),
                                  stdout=subprocess.DEVNULL, stderr=subprocess.DEVNULL, timeout=220)
            rc = proc.returncode
        except subprocess.TimeoutExpired:
            rc = 'timeout'
        state = None
        if os.path.exists(out):
            with open(out) as f:
                state = json.load(f)
        if state is None or not state.get('atheris', False):
            note = f'atheris target {target} skipped: {(state or {}).get("error", f"no result file (rc={rc})")}'
            if note not in ctx.notes:
                ctx.notes.append(note)
            ctx.label('atheris_skipped')
            continue
        ctx.label(f'atheris:{target}')
        ctx.extra['sum_atheris_executions'] = ctx.extra.get('sum_atheris_executions', 0) + int(state.get('executed', 0))
        if rc not in (0,) and not state.get('done'):
            ctx.notes.append(f'atheris target {target}: process ended rc={rc} after {state.get("executed")} inputs')
        for _sig, finding in sorted(state.get('findings', {}).items()):
            # confirm in this process through the ordinary replay path
            if 'chunks' in finding:
                run_parser_case(ctx, target, [bytes.fromhex(c) for c in finding['chunks']], origin='atheris')
            else:
                run_parser_case(ctx, target, bytes.fromhex(finding['data']), origin='atheris')


# ---------------------------------------------------------------------------
def selftest() -> None:
    """The meter must stop a busy loop (exit 2 otherwise)."""
    def spin():
        x = 0
        while True:
            x += 1

    METER.start(20_000)
    try:
        spin()
        raise HarnessError('meter did not stop a busy loop')
    except _Trip:
        pass
    finally:
        METER.stop()
    if not METER.tripped:
        raise HarnessError('meter did not trip')


def run(ctx) -> None:
    vloop.selftest()
    selftest()
    B()
    for (kind, target), opens in sorted(OPEN_SETS.items()):
        calibrate(kind, opens)
    most = _CALIB['max_wellformed_events']
    ctx.extra['max_wellformed_events'] = most
    ctx.extra['event_cap'] = CAP
    if most * 50 > CAP:
        raise HarnessError(f'event cap {CAP} is below 50x the most expensive well-formed frame ({most})')
    for kind, opens, name, r in _CALIB.get('untouched_failures', []):
        ctx.fail(f'ref/{name}/{r[0]}/after_{kind}_none', f'with no hostile frame at all: {r[1]}',
                 {'kind': 'world', 'world': kind, 'target': 'none', 'open': opens, 'frames': []})
    if not ctx.quick:
        # keep the whole thorough shard within ~10 minutes whatever the machine load (cases are then cut short and
        # the 'budget_hit:*' labels say so)
        # (480 s for the families of the first build + 120 s for the client-role / burst / directed families)
        ctx.budget_s = min(ctx.budget_s, 600.0)
        run_atheris(ctx)
    # batches, so that an exhausted time budget stops the generation (each batch has its own derived seed)
    total, batch, k = ctx.n(1100, 120000), ctx.pick(1100, 500), 0
    # thorough: fuzzing + world cases may use the first 336 s (as before), the client-role / burst families run until
    # 144 s are left, the parser batches take the rest (144 s, as before)
    world_until, extra_until = ctx.budget_s - 336.0, 144.0
    strategy = case_strategy()
    while total > 0 and not (not ctx.quick and ctx.time_left() < world_until):
        ctx.hyp(f'world/{k}', lambda c: run_world_case(ctx, c), strategy, max_examples=min(batch, total))
        total -= batch
        k += 1
    if total > 0:
        ctx.labels['budget_hit:world'] += total
    # client role (the victim's own requests outstanding) and bursts (no loop iteration between frames)
    strata = [(kind, t, op) for kind, targets in (('le', LE_CLIENT_TARGETS), ('classic', CLASSIC_CLIENT_TARGETS)) for t in targets
              for op in [None] + sorted(set(CLIENT_OPS[t]))]
    batches = [(f'client/{t}/{op}', client_case_strategy(kind, t, op), ctx.n(9, 24000 // len(strata))) for kind, t, op in strata]
    batches.append(('burst', burst_case_strategy(), ctx.n(70, 12000)))
    # directed: SDP requests that carry the server's own continuation state (every shard runs the whole family)
    for i, c in enumerate(sdp_continuation_cases()):
        if ctx.quick and i % 6 != ctx.seed % 6:
            continue
        if ctx.out_of_time():
            ctx.labels['budget_hit:sdp_cont'] += 1
            break
        run_world_case(ctx, c)
    # (thorough: four rounds over all strata, so that a short budget thins every stratum instead of dropping the last ones)
    rounds = ctx.pick(1, 4)
    for r in range(rounds):
        for name, strat, total in batches:
            part = -(-total // rounds)
            if not ctx.quick and ctx.time_left() < extra_until:
                ctx.labels[f'budget_hit:{name.split("/")[0]}'] += part
                continue
            ctx.hyp(f'{name}/{r}', lambda c: run_world_case(ctx, c), strat, max_examples=part)
    total, batch, k = ctx.n(200, 48000), ctx.pick(200, 400), 0
    strategies = {t: parser_strategy(t) for t in PARSER_TARGETS}
    while total > 0 and not ctx.out_of_time():
        for target in PARSER_TARGETS:
            ctx.hyp(f'parser/{target}/{k}', lambda p, target=target: run_parser_case(ctx, target, p), strategies[target],
                    max_examples=min(batch, total))
        total -= batch
        k += 1
    if total > 0:
        ctx.labels['budget_hit:parser'] += total
    for kind, targets in (('le', LE_TARGETS), ('classic', CLASSIC_TARGETS)):
        for t in targets:
            ctx.floor(f'target:{kind}/{t}', 8)
    ctx.floor('victim_behind_packet_parser:le', 20)
    ctx.floor('victim_behind_packet_parser:classic', 20)
    for lab in ('victim_replied', 'stack_raised', 'origin:mut', 'origin:rand', 'hci:event', 'hci:acl', 'hci:sco', 'hci:iso',
                'hci:other_type', 'valid_disconnect', 'assembler_mid_message', 'ref_ok:att', 'ref_ok:echo', 'ref_ok:sdp',
                'ref_ok:at', 'ref_ok:athf', 'ref_ok:avdtp', 'ref_ok:avctp', 'ref_ok:smp', 'ref_ok:lesig', 'ref_ok:hci',
                'ref_ok:coc', 'ref_ok:smpbr', 'ref_ok:sigrej', 'chan:pacl'):
        ctx.floor(lab, 5)
    for target in PARSER_TARGETS:
        ctx.floor(f'parser:{target}', 20)
    for kind, targets in (('le', LE_CLIENT_TARGETS), ('classic', CLASSIC_CLIENT_TARGETS)):
        for t in targets:
            ctx.floor(f'target:{kind}/{t}', 25)
            ctx.floor(f'ref_ok:{t}', 15)
            ctx.floor(f'client_call_ended_by_hostile:{t}', {'gattc': 15, 'avdtpc': 5}.get(t, 2))
            for op in sorted(set(CLIENT_OPS[t])):
                ctx.floor(f'client_pending:{t}/{op}', 2)
    for lab, least in (('burst', 20), ('sdp:victim_offers_continuation', 8), ('sdp:continuation_served', 5), ('peer_silent_30s', 5),
                       ('client_followed_up:gattc', 2), ('client_followed_up:sdpc', 2)):
        ctx.floor(lab, least)


def replay(ctx, case) -> None:
    kind = case.get('kind')
    if kind == 'world':
        B()
        run_world_case(ctx, case)
    elif kind == 'parser':
        B()
        target = case['target']
        run_parser_case(ctx, target, case['chunks'] if 'chunks' in case else case['data'])
    else:
        raise ValueError(kind)


if __name__ == '__main__':
    sys.exit(fuzz_main(sys.argv[1:]))
