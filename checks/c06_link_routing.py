"""
C06 - The virtual link connects the right peers and delivers only between them.

Operation histories (plain data) over a world of 2..4 full devices on one LocalLink:
connect (public/random own addresses on either end, legacy/extended advertising, LE and
BR/EDR), overlapping incoming/outgoing connects, data on a test fixed channel, disconnects
by either side, scanning (active/passive). A routing model kept by the harness says who must
have received what.
"""

from __future__ import annotations

import asyncio

from hypothesis import strategies as st

from bumble import hci
from bumble.core import PhysicalTransport
from vlib import vloop, world

PROPERTY = 'C06'
LEVEL = 'exploration'
RULE = (
    'histories of connect(i->j, own-address types of both ends)/cross-connect (k->i arriving while i->j is '
    'pending)/classic connect/send(payload on a test fixed channel)/disconnect(either side)/scan(active|passive) '
    'over 2..4 devices with per-device legacy/extended advertising, generated HCI delays and link iteration order; '
    'oracle = routing model (right peer, exactly once, in order, nowhere else; both ends report matching '
    'addresses and live distinct handles; disconnection reported to both and tables emptied; advertising and '
    'scan-response data byte for byte). non-trivial = (>=3 devices or a public own-address or extended '
    'advertising or an overlapping connect) and at least one payload transferred or a scan; distinct by history.'
)
ASSUMPTIONS = [
    'link/HCI delays are order-preserving; the harness fixes the link iteration order per case',
    'a connect() to a peer that advertises succeeds within the virtual horizon (no RF loss in the virtual link)',
]

CID = 0x3A  # a fixed channel id nobody else uses
HORIZON = 120.0


def ops_strategy(n):
    dev = st.integers(0, n - 1)
    pair = st.tuples(dev, dev).filter(lambda p: p[0] != p[1])
    op = st.one_of(
        st.tuples(st.just('connect'), pair, st.booleans(), st.booleans()),
        st.tuples(st.just('connect'), pair, st.booleans(), st.booleans()),
        st.tuples(st.just('cross'), st.permutations(range(n)).map(lambda p: tuple(p[:3])), st.booleans()) if n >= 3 else
        st.tuples(st.just('connect'), pair, st.booleans(), st.booleans()),
        st.tuples(st.just('classic'), pair),
        st.tuples(st.just('advset'), pair, st.booleans()),
        st.tuples(st.just('send'), st.integers(0, 5), st.integers(0, 1), st.integers(1, 60)),
        st.tuples(st.just('send'), st.integers(0, 5), st.integers(0, 1), st.integers(1, 60)),
        st.tuples(st.just('send'), st.integers(0, 5), st.integers(0, 1), st.integers(1, 60)),
        st.tuples(st.just('disc'), st.integers(0, 5), st.integers(0, 1), st.sampled_from([0, 0, 1, 3])),
        st.tuples(st.just('scan'), dev, st.booleans(), st.integers(1, 2 ** n - 1), st.booleans()),
    )
    return st.lists(op, min_size=1, max_size=10)


def case_strategy():
    return st.integers(2, 4).flatmap(
        lambda n: st.fixed_dictionaries(
            {
                'n': st.just(n),
                'ext': st.lists(st.booleans(), min_size=n, max_size=n),
                'delays': st.lists(st.sampled_from([0, 0, 0, 2, 9, 40]), max_size=5),
                'order': st.permutations(range(n)).map(list),
                'ops': ops_strategy(n),
            }
        )
    )


def _plain(x):
    if isinstance(x, (list, tuple)):
        return [_plain(v) for v in x]
    return x


def run_case(ctx, case) -> None:
    n = case['n']
    ops = [_plain(o) for o in case['ops']]
    loop = vloop.new_loop()
    loop.max_iterations = 400_000
    labels = set()
    state = {'step': -1, 'moved': 0, 'scanned': 0}

    def fail(sig, what):
        c = dict(case)
        c['ops'] = ops[: state['step'] + 1]
        c['kind'] = 'history'
        ctx.fail(sig, what, c)
        raise _Abort()

    async def main():
        w = world.World(n, delays=case['delays'] or None, classic=True, link_order=case['order'])
        for i, node in enumerate(w.nodes):
            feat = int(node.controller.le_features)
            if case['ext'][i]:
                feat |= int(hci.LeFeatureMask.LE_EXTENDED_ADVERTISING)
            else:
                feat &= ~int(hci.LeFeatureMask.LE_EXTENDED_ADVERTISING)
            node.controller.le_features = hci.LeFeatureMask(feat)
        await w.power_on()
        for node in w.nodes:
            await node.device.set_connectable(True)
            await node.device.set_discoverable(False)
        inbox = {i: [] for i in range(n)}  # (handle, payload) per device
        events = {i: [] for i in range(n)}  # connection events per device
        discs = {i: [] for i in range(n)}
        for i, node in enumerate(w.nodes):
            node.device.l2cap_channel_manager.register_fixed_channel(
                CID, lambda handle, pdu, i=i: inbox[i].append((handle, bytes(pdu)))
            )

            def on_conn(c, i=i):
                events[i].append(c)
                c.on('disconnection', lambda reason, i=i, c=c: discs[i].append(c))

            node.device.on('connection', on_conn)
        conns = []  # dicts: a, b, ca, cb, alive, expect_a (payloads b must deliver to a) ...
        counter = [0]

        def own_address(i, public, transport=PhysicalTransport.LE):
            if transport == PhysicalTransport.BR_EDR or public:
                return w[i].controller.public_address
            return w[i].device.random_address

        async def settle():
            await asyncio.sleep(0.3 + 0.1 * sum(case['delays'] or [0]))

        def same_addr(x, y):
            return bytes(x) == bytes(y) and x.is_public == y.is_public

        async def establish(i, j, ci_public, pj_public, check=True):
            """i connects to j over LE; returns the conn record."""
            before = {k: len(events[k]) for k in range(n)}
            oat = hci.OwnAddressType.PUBLIC if pj_public else hci.OwnAddressType.RANDOM
            await w[j].device.start_advertising(
                own_address_type=oat, advertising_interval_min=2000.0, advertising_interval_max=2000.0
            )
            target = own_address(j, pj_public)
            try:
                ca = await w[i].device.connect(
                    target,
                    own_address_type=hci.OwnAddressType.PUBLIC if ci_public else hci.OwnAddressType.RANDOM,
                    timeout=30.0,
                )
            except Exception as e:  # noqa: BLE001
                fail(f'connect_failed/{type(e).__name__}/{"ext" if case["ext"][j] else "legacy"}_adv',
                     f'connect({i}->{j}) to an advertising peer failed: {e!r}')
            await settle()
            try:
                await w[j].device.stop_advertising()
            except Exception:
                pass
            return ca, before

        def check_new_connection(i, j, ca, before, transport, ci_public, pj_public, others_ok=()):
            # caller got a connection to j
            want_peer = own_address(j, pj_public, transport)
            if not same_addr(ca.peer_address, want_peer):
                fail('caller_wrong_connection', f'connect({i}->{j}) returned a connection to {ca.peer_address}, wanted {want_peer}')
            new_j = events[j][before[j]:]
            want_initiator = own_address(i, ci_public, transport)
            match = [c for c in new_j if same_addr(c.peer_address, want_initiator)]
            if len(match) != 1:
                fail(f'peer_connection_report/{transport.name}/{"public" if ci_public else "random"}_initiator',
                     f'{j} reported {[str(c.peer_address) for c in new_j]} for the connection from {i} ({want_initiator})')
            for k in range(n):
                if k not in (i, j) and k not in others_ok and len(events[k]) != before[k]:
                    fail('bystander_connection', f'device {k} got a connection event for connect({i}->{j})')
            cb = match[0]
            # handles live and distinct
            for k, c in ((i, ca), (j, cb)):
                handles = [x.handle for x in w[k].device.connections.values()]
                if len(handles) != len(set(handles)) or c.handle not in handles:
                    fail('handles', f'device {k}: handles {handles} not distinct/live')
                if w[k].controller.find_connection_by_handle(c.handle) is None:
                    fail('handles', f'device {k}: handle {c.handle} unknown to its controller')
            rec = {'a': i, 'b': j, 'ca': ca, 'cb': cb, 'alive': True, 'transport': transport}
            conns.append(rec)
            return rec

        def live_between(i, j, transport):
            return any(c['alive'] and {c['a'], c['b']} == {i, j} and c['transport'] == transport for c in conns)

        for step, op in enumerate(ops):
            state['step'] = step
            kind = op[0]
            if kind == 'connect':
                (i, j), ci_public, pj_public = op[1], op[2], op[3]
                if live_between(i, j, PhysicalTransport.LE):
                    continue
                ca, before = await establish(i, j, ci_public, pj_public)
                check_new_connection(i, j, ca, before, PhysicalTransport.LE, ci_public, pj_public)
                labels.add('le_connect')
                if ci_public or pj_public:
                    labels.add('public_own_address')
                if case['ext'][j]:
                    labels.add('extended_advertising')
            elif kind == 'cross':
                (i, j, k), pub = op[1], op[2]
                if live_between(i, j, PhysicalTransport.LE) or live_between(k, i, PhysicalTransport.LE):
                    continue
                labels.add('overlapping_connect')
                before = {d: len(events[d]) for d in range(n)}
                # i advertises (so k can connect to it) and is itself connecting to j, which
                # starts advertising only later: the incoming connection arrives first.
                await w[i].device.start_advertising(advertising_interval_min=2000.0, advertising_interval_max=2000.0)
                t_out = loop.create_task(w[i].device.connect(w[j].device.random_address, timeout=60.0))
                await asyncio.sleep(0.05)
                try:
                    ck = await w[k].device.connect(w[i].device.random_address, timeout=30.0)
                except Exception as e:  # noqa: BLE001
                    t_out.cancel()
                    fail(f'connect_failed/{type(e).__name__}/cross', f'connect({k}->{i}) failed while {i} was connecting out: {e!r}')
                await settle()
                if t_out.done():
                    got = t_out.result() if not t_out.exception() else None
                    fail('caller_wrong_connection/incoming_completes_outgoing',
                         f'connect({i}->{j}) completed with {got.peer_address if got else t_out.exception()!r} '
                         f'when only the incoming connection from {k} had been made')
                await w[j].device.start_advertising(advertising_interval_min=2000.0, advertising_interval_max=2000.0)
                try:
                    ca = await asyncio.wait_for(t_out, 40.0)
                except Exception as e:  # noqa: BLE001
                    fail(f'connect_failed/{type(e).__name__}/cross_outgoing', f'connect({i}->{j}) failed: {e!r}')
                await settle()
                for d in (i, j):
                    try:
                        await w[d].device.stop_advertising()
                    except Exception:
                        pass
                b2 = dict(before)
                check_new_connection(k, i, ck, before, PhysicalTransport.LE, False, False, others_ok=(j,))
                b2[i] = len(events[i]) - 0
                # i's outgoing connection: i itself got 2 events (one incoming, one outgoing)
                if not same_addr(ca.peer_address, w[j].device.random_address):
                    fail('caller_wrong_connection', f'connect({i}->{j}) returned a connection to {ca.peer_address}')
                new_j = [c for c in events[j][before[j]:] if same_addr(c.peer_address, w[i].device.random_address)]
                if len(new_j) != 1:
                    fail('peer_connection_report/LE/random_initiator', f'{j} reported {len(new_j)} connections from {i}')
                conns.append({'a': i, 'b': j, 'ca': ca, 'cb': new_j[0], 'alive': True, 'transport': PhysicalTransport.LE})
            elif kind == 'advset':
                # j advertises with an extended advertising SET that has its own random address
                # (different from the device's random address); i connects to that address.
                (i, j), ci_public = op[1], op[2]
                if not case['ext'][j] or live_between(i, j, PhysicalTransport.LE):
                    continue
                from bumble.device import AdvertisingParameters

                set_address = hci.Address(bytes([0x5A, j, i, step & 0xFF, 0x11, 0xC0 | j]), hci.Address.RANDOM_DEVICE_ADDRESS)
                before = {k: len(events[k]) for k in range(n)}
                try:
                    adv_set = await w[j].device.create_advertising_set(
                        advertising_parameters=AdvertisingParameters(
                            own_address_type=hci.OwnAddressType.RANDOM, primary_advertising_interval_min=2000.0,
                            primary_advertising_interval_max=2000.0),
                        random_address=set_address,
                    )
                    ca = await w[i].device.connect(
                        set_address,
                        own_address_type=hci.OwnAddressType.PUBLIC if ci_public else hci.OwnAddressType.RANDOM,
                        timeout=30.0,
                    )
                except Exception as e:  # noqa: BLE001
                    fail(f'connect_failed/{type(e).__name__}/advertising_set_address',
                         f'connect({i}->{j}) to an advertising set with its own random address failed: {e!r}')
                await settle()
                if not same_addr(ca.peer_address, set_address):
                    fail('caller_wrong_connection', f'connect({i}->set of {j}) returned a connection to {ca.peer_address}')
                want_initiator = own_address(i, ci_public)
                match = [c for c in events[j][before[j]:] if same_addr(c.peer_address, want_initiator)]
                if len(match) != 1:
                    fail('peer_connection_report/LE/advertising_set', f'{j} reported {len(match)} connections from {i}')
                for k in range(n):
                    if k not in (i, j) and len(events[k]) != before[k]:
                        fail('bystander_connection', f'device {k} got a connection event for connect({i}->{j})')
                conns.append({'a': i, 'b': j, 'ca': ca, 'cb': match[0], 'alive': True, 'transport': PhysicalTransport.LE})
                try:
                    await adv_set.remove()
                except Exception:
                    pass
                labels.add('advertising_set_own_address')
            elif kind == 'classic':
                i, j = op[1]
                if live_between(i, j, PhysicalTransport.BR_EDR):
                    continue
                before = {d: len(events[d]) for d in range(n)}
                try:
                    ca = await w[i].device.connect(w[j].controller.public_address, transport=PhysicalTransport.BR_EDR, timeout=30.0)
                except Exception as e:  # noqa: BLE001
                    fail(f'connect_failed/{type(e).__name__}/classic', f'classic connect({i}->{j}) failed: {e!r}')
                await settle()
                check_new_connection(i, j, ca, before, PhysicalTransport.BR_EDR, True, True)
                labels.add('classic_connect')
            elif kind == 'send':
                live = [c for c in conns if c['alive']]
                if not live:
                    continue
                c = live[op[1] % len(live)]
                side, length = op[2], op[3]
                counter[0] += 1
                payload = bytes([counter[0] & 0xFF, c['a'], c['b']]) + bytes((counter[0] + x) & 0xFF for x in range(length))
                snd, rcv = (c['a'], c['b']) if side == 0 else (c['b'], c['a'])
                sconn, rconn = (c['ca'], c['cb']) if side == 0 else (c['cb'], c['ca'])
                marks = {d: len(inbox[d]) for d in range(n)}
                sconn.send_l2cap_pdu(CID, payload)
                await settle()
                got = inbox[rcv][marks[rcv]:]
                if got != [(rconn.handle, payload)]:
                    pub = (c['ca'].self_address.is_public, c['cb'].self_address.is_public)
                    fail(f'delivery/{c["transport"].name}/central_public={pub[0]}/peripheral_public={pub[1]}/{"c2p" if side == 0 else "p2c"}',
                         f'payload sent {snd}->{rcv} arrived as {[(h, p.hex()) for h, p in got]} (expected once on handle {rconn.handle})')
                for d in range(n):
                    if d != rcv and len(inbox[d]) != marks[d]:
                        fail('delivery/misrouted', f'payload for {rcv} also/instead delivered to device {d}')
                state['moved'] += 1
                labels.add('payload')
            elif kind == 'disc':
                live = [c for c in conns if c['alive']]
                if not live:
                    continue
                c = live[op[1] % len(live)]
                side = op[2]
                who = c['ca'] if side == 0 else c['cb']
                marks = {d: len(discs[d]) for d in range(n)}
                # PDUs put on the connection immediately before the disconnection (no loop iteration in between):
                # they were sent on a live connection and the link is order preserving
                trail = int(op[3]) if len(op) > 3 else 0
                rcv = c['b'] if side == 0 else c['a']
                rconn = c['cb'] if side == 0 else c['ca']
                imark = {d: len(inbox[d]) for d in range(n)}
                trailing = []
                for _ in range(trail):
                    counter[0] += 1
                    payload = bytes([counter[0] & 0xFF, c['a'], c['b'], 0xDD]) + bytes((counter[0] + x) & 0xFF for x in range(5))
                    trailing.append((rconn.handle, payload))
                    who.send_l2cap_pdu(CID, payload)
                try:
                    await asyncio.wait_for(who.disconnect(), 30.0)
                except Exception as e:  # noqa: BLE001
                    fail(f'disconnect_failed/{type(e).__name__}', f'disconnect raised {e!r}')
                await settle()
                if trail:
                    labels.add('payload_right_before_disconnect')
                    got = inbox[rcv][imark[rcv]:]
                    if got != trailing:
                        fail(f'delivery/before_disconnect/{c["transport"].name}',
                             f'{trail} PDU(s) sent right before disconnect() arrived as {[(h, p.hex()) for h, p in got]}')
                    for d in range(n):
                        if d != rcv and len(inbox[d]) != imark[d]:
                            fail('delivery/misrouted', f'payload for {rcv} also/instead delivered to device {d}')
                c['alive'] = False
                labels.add('disconnect_by_central' if side == 0 else 'disconnect_by_peripheral')
                for d, conn in ((c['a'], c['ca']), (c['b'], c['cb'])):
                    if conn not in discs[d][marks[d]:]:
                        fail(f'disconnection_not_reported/{c["transport"].name}/{"initiating" if conn is who else "remote"}_end',
                             f'device {d} got no disconnection event')
                    if conn.handle in w[d].device.connections and w[d].device.connections[conn.handle] is conn:
                        fail('stale_connection/device', f'device {d} still lists the connection')
                    if conn.handle in w[d].host.connections:
                        fail('stale_connection/host', f'host {d} still lists handle {conn.handle}')
                    ctrl = w[d].controller
                    tbl = ctrl.le_connections if c['transport'] == PhysicalTransport.LE else ctrl.classic_connections
                    if any(x.handle == conn.handle for x in tbl.values()):
                        fail('stale_connection/controller', f'controller {d} still lists handle {conn.handle}')
            elif kind == 'scan':
                s, active, mask, legacy_api = op[1], op[2], op[3], op[4]
                advertisers = [d for d in range(n) if d != s and mask >> d & 1]
                if not advertisers:
                    continue
                adv = {}
                self_adv = bool(mask >> s & 1)  # the scanner advertises too: it must not hear itself
                if self_adv:
                    labels.add('scanner_also_advertises')
                for d in advertisers + ([s] if self_adv else []):
                    counter[0] += 1
                    adv_data = bytes([2, 0x01, 0x06, 3, 0xFF, d, counter[0] & 0xFF])
                    rsp_data = bytes([4, 0x09, 0x41 + d, 0x42, counter[0] & 0xFF])
                    adv[d] = (adv_data, rsp_data)
                    await w[d].device.start_advertising(
                        advertising_data=adv_data, scan_response_data=rsp_data,
                        advertising_interval_min=500.0, advertising_interval_max=500.0,
                    )
                mark = len(w[s].tap.log)
                # the virtual controller implements the legacy scan commands only
                await w[s].device.start_scanning(legacy=True, active=active, filter_duplicates=False)
                await asyncio.sleep(2.0)
                await w[s].device.stop_scanning(legacy=True)
                for d in advertisers + ([s] if self_adv else []):
                    await w[d].device.stop_advertising()
                await settle()
                reports = collect_reports(w[s].tap.log[mark:])
                labels.add('scan_active' if active else 'scan_passive')
                state['scanned'] += 1
                for d in advertisers:
                    addr = bytes(w[d].device.random_address)
                    mine = [r for r in reports if r[0] == addr]
                    adv_reports = [r for r in mine if not r[1]]
                    rsp_reports = [r for r in mine if r[1]]
                    if not adv_reports:
                        fail('scan/no_report', f'scanner {s} got no advertising report for advertiser {d}')
                    if any(r[2] != adv[d][0] for r in adv_reports):
                        fail('scan/adv_data', f'advertising report data {adv_reports[0][2].hex()} != advertised {adv[d][0].hex()}')
                    if any(r[2] != adv[d][1] for r in rsp_reports):
                        # recorded without aborting the history (known finding F06c): the search goes on
                        c = dict(case)
                        c['ops'] = ops[: step + 1]
                        c['kind'] = 'history'
                        ctx.fail(f'scan/scan_response_data/{"active" if active else "passive"}',
                                 f'report flagged scan response carries {rsp_reports[0][2].hex()}, scan-response data is {adv[d][1].hex()}', c)
                        ctx.exclude('scan_response_mismatch_not_aborting')
                    if active and not rsp_reports:
                        fail('scan/no_scan_response', f'active scanner {s} got no scan response for advertiser {d}')
                foreign = [r for r in reports if r[0] not in [bytes(w[d].device.random_address) for d in advertisers]]
                if foreign:
                    fail('scan/phantom_report', f'report for an address nobody advertises: {foreign[0][0].hex()}')

    outcome = None
    try:
        loop.complete(main(), horizon=HORIZON * 20)
    except _Abort:
        pass
    except vloop.Stalled:
        outcome = 'stalled'
    except vloop.HorizonExceeded:
        outcome = 'horizon'
    except vloop.BudgetExceeded:
        labels.add('iteration_budget_hit')
    finally:
        loop.shutdown()
    if outcome:
        c = dict(case)
        c['ops'] = ops[: state['step'] + 1]
        c['kind'] = 'history'
        op = ops[state['step']][0] if state['step'] >= 0 else 'setup'
        ctx.fail(f'hang/{op}/{outcome}', f'operation {op} never completed ({outcome})', c)
    interesting = n >= 3 or bool(labels & {'public_own_address', 'extended_advertising', 'overlapping_connect', 'classic_connect'})
    ctx.case((n, case['ext'], case['delays'], case['order'], ops), interesting and (state['moved'] > 0 or state['scanned'] > 0),
             labels | {f'devices:{n}'}, sample={'n': n, 'ext': case['ext'], 'delays': case['delays'], 'ops': ops})


class _Abort(Exception):
    pass


def collect_reports(log):
    """(address bytes, is_scan_response, data) for every advertising report the scanner's controller sent."""
    out = []
    for _t, d, pkt in log:
        if d != world.C2H or pkt[0] != 0x04 or pkt[1] != 0x3E:
            continue
        ev = hci.HCI_Packet.from_bytes(pkt)
        if isinstance(ev, hci.HCI_LE_Advertising_Report_Event):
            for r in ev.reports:
                out.append((bytes(r.address), r.event_type == hci.HCI_LE_Advertising_Report_Event.EventType.SCAN_RSP, bytes(r.data)))
        elif isinstance(ev, hci.HCI_LE_Extended_Advertising_Report_Event):
            for r in ev.reports:
                is_rsp = bool(int(r.event_type) & (1 << 3))
                out.append((bytes(r.address), is_rsp, bytes(r.data)))
    return out


def run(ctx) -> None:
    vloop.selftest()
    ctx.hyp('histories', lambda c: run_case(ctx, c), case_strategy(), max_examples=ctx.n(1400, 30000))
    for label in ('le_connect', 'classic_connect', 'public_own_address', 'extended_advertising',
                  'overlapping_connect', 'payload', 'disconnect_by_central', 'disconnect_by_peripheral',
                  'scan_active', 'scan_passive', 'devices:4', 'scanner_also_advertises',
                  'advertising_set_own_address'):
        ctx.floor(label, 8)


def replay(ctx, case) -> None:
    run_case(ctx, case)
