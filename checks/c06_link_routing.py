"""
C06 - The virtual link connects the right peers and delivers only between them.

Operation histories (plain data) over a world of 2..4 full devices on one LocalLink:
connect (public/random own addresses on either end, legacy/extended advertising, LE and
BR/EDR), overlapping incoming/outgoing connects, data on a test fixed channel, disconnects
by either side, scanning (active/passive). A routing model kept by the harness says who must
have received what.

Second family ("overlaps"): the same alphabet plus what the first family never produces -
other devices (and the initiator itself) advertising while a connect is pending, connects to
an address that nobody advertises at that moment, two connects in flight at once (same
advertiser = a race, distinct advertisers, chains), PDUs sent the moment a connection is
reported (no quiescence), back-to-back bursts over several connections and both directions,
disconnects issued by both ends at once, advertising payloads of 0..31 bytes, and HCI delays
that differ per device.
"""

from __future__ import annotations

import asyncio

from hypothesis import strategies as st

from bumble import hci
from bumble.core import PhysicalTransport
from vlib import vloop, world

PROPERTY = 'C06'
LEVEL = 'exploration'
RULE = (
    'histories of connect(i->j, own-address types of both ends)/cross-connect (k->i arriving while i->j is '
    'pending)/classic connect/send(payload on a test fixed channel)/disconnect(either side)/scan(active|passive) '
    'over 2..4 devices with per-device legacy/extended advertising, generated HCI delays and link iteration order; '
    'oracle = routing model (right peer, exactly once, in order, nowhere else; both ends report matching '
    'addresses and live distinct handles; disconnection reported to both and tables emptied; advertising and '
    'scan-response data byte for byte). non-trivial = (>=3 devices or a public own-address or extended '
    'advertising or an overlapping connect) and at least one payload transferred or a scan; distinct by history. '
    'Family "largest": PDUs of 65531..65535 payload bytes (the ACL PDU no longer fits one HCI ACL packet) both '
    'ways over LE and BR/EDR. Family "overlaps": same histories with per-device HCI delays and additional operations: connect with other '
    'devices (possibly the initiator too, public or random own address) advertising while the connect is pending '
    'and a PDU sent by the central the moment connect() returns / by either end from inside its own connection '
    'event, with the host attached to the controller through a pipe or directly (host.controller = controller); '
    'miss = connect to an address that is not advertised at that moment (other own-address type of an advertising '
    'peer, a silent peer among advertising bystanders, an unowned BD_ADDR over BR/EDR): nobody may get a '
    'connection; multi = two connects in flight at once (same advertiser, distinct advertisers, chain through a '
    'device that is central and peripheral): no half-open connection may remain, every live one is reported by '
    'both ends; burst = PDUs written back to back on several connections and in both directions with no loop '
    'iteration in between: per connection exactly once, in order, nowhere else; disc by both ends at once: '
    'reported to both, tables emptied, neither disconnect() hangs; scans with advertising / scan-response '
    'payloads of 0..31 bytes.'
)
ASSUMPTIONS = [
    'link/HCI delays are order-preserving; the harness fixes the link iteration order per case',
    'a connect() to a peer that advertises succeeds within the virtual horizon (no RF loss in the virtual link)',
    'when two initiators race for one legacy/extended advertiser at least one of them is connected; what happens '
    'to the other is left open by the property (it may fail, stay pending until its timeout, or be reported a '
    'connection that is then reported disconnected) as long as no end keeps a live connection the other end '
    'does not have',
    'PDUs written right before BOTH ends disconnect at once are not judged (the receiver may already be gone)',
]

CID = 0x3A  # a fixed channel id nobody else uses
HORIZON = 120.0


def ops_strategy(n):
    dev = st.integers(0, n - 1)
    pair = st.tuples(dev, dev).filter(lambda p: p[0] != p[1])
    op = st.one_of(
        st.tuples(st.just('connect'), pair, st.booleans(), st.booleans()),
        st.tuples(st.just('connect'), pair, st.booleans(), st.booleans()),
        st.tuples(st.just('cross'), st.permutations(range(n)).map(lambda p: tuple(p[:3])), st.booleans()) if n >= 3 else
        st.tuples(st.just('connect'), pair, st.booleans(), st.booleans()),
        st.tuples(st.just('classic'), pair),
        st.tuples(st.just('advset'), pair, st.booleans()),
        st.tuples(st.just('send'), st.integers(0, 5), st.integers(0, 1), st.integers(1, 60)),
        st.tuples(st.just('send'), st.integers(0, 5), st.integers(0, 1), st.integers(1, 60)),
        st.tuples(st.just('send'), st.integers(0, 5), st.integers(0, 1), st.integers(1, 60)),
        st.tuples(st.just('disc'), st.integers(0, 5), st.integers(0, 1), st.sampled_from([0, 0, 1, 3])),
        st.tuples(st.just('scan'), dev, st.booleans(), st.integers(1, 2 ** n - 1), st.booleans()),
    )
    return st.lists(op, min_size=1, max_size=10)


def case_strategy():
    return st.integers(2, 4).flatmap(
        lambda n: st.fixed_dictionaries(
            {
                'n': st.just(n),
                'ext': st.lists(st.booleans(), min_size=n, max_size=n),
                'delays': st.lists(st.sampled_from([0, 0, 0, 2, 9, 40]), max_size=5),
                'order': st.permutations(range(n)).map(list),
                'ops': ops_strategy(n),
            }
        )
    )


def _multi_pairs(n):
    """Two connects in flight at once: [[i, j], [k, l]] with i != k."""
    # (one_of() drops repeated strategy OBJECTS: weights need separately built strategies)
    def perm():
        return st.permutations(range(n))

    shapes = [
        perm().map(lambda p: [[p[0], p[2]], [p[1], p[2]]]),  # two initiators race for one advertiser
        perm().map(lambda p: [[p[0], p[2]], [p[1], p[2]]]),
        perm().map(lambda p: [[p[0], p[1]], [p[1], p[2]]]),  # chain: p1 is peripheral and central at once
        perm().map(lambda p: [[p[0], p[1]], [p[2], p[0]]]),  # p0 connects out while p2 connects to it
    ]
    if n >= 4:
        # disjoint pairs, two advertisers
        shapes += [perm().map(lambda p: [[p[0], p[1]], [p[2], p[3]]]) for _ in range(3)]
    return st.one_of(*shapes)


# (advertising data length, scan response data length)
PAYLOAD_SHAPES = [(7, 5), (0, 0), (31, 31), (31, 0), (0, 31), (3, 30), (30, 2), (1, 1), (16, 17), (0, 9), (31, 7)]


def ops_strategy_overlaps(n):
    dev = st.integers(0, n - 1)
    pair = st.tuples(dev, dev).filter(lambda p: p[0] != p[1])

    def connect():
        return st.tuples(st.just('connect'), pair, st.booleans(), st.booleans(), st.integers(0, 255), st.integers(0, 7))

    def burst():
        return st.tuples(
            st.just('burst'),
            st.lists(st.tuples(st.integers(0, 5), st.integers(0, 1), st.integers(1, 4)), min_size=1, max_size=4),
            st.booleans(), st.sampled_from([1, 9, 23, 24, 60, 80]),
        )

    def multi():
        return st.tuples(st.just('multi'), _multi_pairs(n), st.booleans()) if n >= 3 else connect()

    op = st.one_of(
        connect(), connect(),
        multi(), multi(),
        burst(), burst(),
        st.tuples(st.just('miss'), pair, st.integers(0, 3), st.integers(0, 15)),
        st.tuples(st.just('miss'), pair, st.integers(0, 3), st.integers(1, 15)),
        st.tuples(st.just('classic'), pair, st.integers(0, 7)),
        st.tuples(st.just('advset'), pair, st.booleans()),
        st.tuples(st.just('cross'), st.permutations(range(n)).map(lambda p: tuple(p[:3])), st.booleans()) if n >= 3 else connect(),
        st.tuples(st.just('send'), st.integers(0, 5), st.integers(0, 1), st.integers(1, 60)),
        st.tuples(st.just('disc'), st.integers(0, 5), st.integers(0, 2), st.sampled_from([0, 0, 1, 3])),
        st.tuples(st.just('disc'), st.integers(0, 5), st.just(2), st.sampled_from([0, 2])),
        st.tuples(st.just('scan'), dev, st.booleans(), st.integers(1, 2 ** n - 1), st.booleans(),
                  st.integers(0, len(PAYLOAD_SHAPES) - 1)),
        st.tuples(st.just('scan'), dev, st.booleans(), st.integers(1, 2 ** n - 1), st.booleans(),
                  st.integers(1, len(PAYLOAD_SHAPES) - 1)),
    )
    return st.lists(op, min_size=1, max_size=10)


def case_strategy_overlaps():
    delay = st.lists(st.sampled_from([0, 0, 0, 2, 9, 40]), max_size=3)
    return st.integers(2, 4).flatmap(
        lambda n: st.fixed_dictionaries(
            {
                'n': st.just(n),
                'ext': st.lists(st.booleans(), min_size=n, max_size=n),
                # one delay cycle per device: the devices do not see HCI traffic at the same pace
                'delays': st.one_of(st.just([]), st.lists(delay, min_size=n, max_size=n)),
                'order': st.permutations(range(n)).map(list),
                'ops': ops_strategy_overlaps(n),
                # hosts attached to their controller the way `host.controller = controller` does (what the host sends
                # reaches the controller synchronously), instead of through a pipe with one more hop
                'direct': st.booleans(),
            }
        )
    )


def case_strategy_largest():
    """The largest L2CAP PDUs the 16-bit length field allows (payload 65531..65535: the ACL PDU with its 4-byte
    header is 65535..65539 bytes and no longer fits one HCI ACL packet), both transports, both directions."""
    size = st.sampled_from([65528, 65529, 65530, 65531, 65532, 65532, 65500])  # the 'send' op adds a 3-byte header
    send = st.tuples(st.just('send'), st.integers(0, 1), st.integers(0, 1), size)
    small = st.tuples(st.just('send'), st.integers(0, 1), st.integers(0, 1), st.integers(1, 60))
    link = st.one_of(st.tuples(st.just('connect'), st.sampled_from([(0, 1), (1, 0)]), st.booleans(), st.booleans()),
                     st.tuples(st.just('classic'), st.sampled_from([(0, 1), (1, 0)])))
    return st.fixed_dictionaries(
        {
            'n': st.just(2),
            'ext': st.lists(st.booleans(), min_size=2, max_size=2),
            'delays': st.lists(st.sampled_from([0, 0, 2]), max_size=2),
            'order': st.just([0, 1]),
            'ops': st.tuples(link, send, small, send, link, send, small).map(list),
        }
    )


def _plain(x):
    if isinstance(x, (list, tuple)):
        return [_plain(v) for v in x]
    return x


def run_case(ctx, case) -> None:
    n = case['n']
    ops = [_plain(o) for o in case['ops']]
    loop = vloop.new_loop()
    loop.max_iterations = 400_000
    labels = set()
    state = {'step': -1, 'moved': 0, 'scanned': 0}

    def fail(sig, what):
        c = dict(case)
        c['ops'] = ops[: state['step'] + 1]
        c['kind'] = 'history'
        ctx.fail(sig, what, c)
        raise _Abort()

    delays = case['delays'] or None
    per_device = bool(delays) and isinstance(delays[0], (list, tuple))
    delay_sum = sum(sum(d) for d in delays) if per_device else sum(delays or [0])
    if per_device:
        labels.add('per_device_delays')
    if case.get('direct'):
        labels.add('host_attached_directly')
        if not delay_sum:
            labels.add('host_attached_directly_no_delay')

    async def main():
        w = world.World(n, delays=[list(d) for d in delays] if per_device else delays, classic=True,
                        link_order=case['order'], direct=bool(case.get('direct')))
        for i, node in enumerate(w.nodes):
            feat = int(node.controller.le_features)
            if case['ext'][i]:
                feat |= int(hci.LeFeatureMask.LE_EXTENDED_ADVERTISING)
            else:
                feat &= ~int(hci.LeFeatureMask.LE_EXTENDED_ADVERTISING)
            node.controller.le_features = hci.LeFeatureMask(feat)
        await w.power_on()
        for node in w.nodes:
            await node.device.set_connectable(True)
            await node.device.set_discoverable(False)
        inbox = {i: [] for i in range(n)}  # (handle, payload) per device
        events = {i: [] for i in range(n)}  # connection events per device
        discs = {i: [] for i in range(n)}
        for i, node in enumerate(w.nodes):
            node.device.l2cap_channel_manager.register_fixed_channel(
                CID, lambda handle, pdu, i=i: inbox[i].append((handle, bytes(pdu)))
            )

            def on_conn(c, i=i):
                events[i].append(c)
                c.on('disconnection', lambda reason, i=i, c=c: discs[i].append(c))

            node.device.on('connection', on_conn)
        conns = []  # dicts: a, b, ca, cb, alive, expect_a (payloads b must deliver to a) ...
        counter = [0]

        def own_address(i, public, transport=PhysicalTransport.LE):
            if transport == PhysicalTransport.BR_EDR or public:
                return w[i].controller.public_address
            return w[i].device.random_address

        async def settle():
            await asyncio.sleep(0.3 + 0.1 * delay_sum)

        def same_addr(x, y):
            return bytes(x) == bytes(y) and x.is_public == y.is_public

        async def establish(i, j, ci_public, pj_public, check=True):
            """i connects to j over LE; returns the conn record."""
            before = {k: len(events[k]) for k in range(n)}
            oat = hci.OwnAddressType.PUBLIC if pj_public else hci.OwnAddressType.RANDOM
            await w[j].device.start_advertising(
                own_address_type=oat, advertising_interval_min=2000.0, advertising_interval_max=2000.0
            )
            target = own_address(j, pj_public)
            try:
                ca = await w[i].device.connect(
                    target,
                    own_address_type=hci.OwnAddressType.PUBLIC if ci_public else hci.OwnAddressType.RANDOM,
                    timeout=30.0,
                )
            except Exception as e:  # noqa: BLE001
                fail(f'connect_failed/{type(e).__name__}/{"ext" if case["ext"][j] else "legacy"}_adv',
                     f'connect({i}->{j}) to an advertising peer failed: {e!r}')
            await settle()
            try:
                await w[j].device.stop_advertising()
            except Exception:
                pass
            return ca, before

        def check_new_connection(i, j, ca, before, transport, ci_public, pj_public, others_ok=()):
            # caller got a connection to j
            want_peer = own_address(j, pj_public, transport)
            if not same_addr(ca.peer_address, want_peer):
                fail('caller_wrong_connection', f'connect({i}->{j}) returned a connection to {ca.peer_address}, wanted {want_peer}')
            new_j = events[j][before[j]:]
            want_initiator = own_address(i, ci_public, transport)
            match = [c for c in new_j if same_addr(c.peer_address, want_initiator)]
            if len(match) != 1:
                fail(f'peer_connection_report/{transport.name}/{"public" if ci_public else "random"}_initiator',
                     f'{j} reported {[str(c.peer_address) for c in new_j]} for the connection from {i} ({want_initiator})')
            for k in range(n):
                if k not in (i, j) and k not in others_ok and len(events[k]) != before[k]:
                    fail('bystander_connection', f'device {k} got a connection event for connect({i}->{j})')
            cb = match[0]
            # handles live and distinct
            for k, c in ((i, ca), (j, cb)):
                handles = [x.handle for x in w[k].device.connections.values()]
                if len(handles) != len(set(handles)) or c.handle not in handles:
                    fail('handles', f'device {k}: handles {handles} not distinct/live')
                if w[k].controller.find_connection_by_handle(c.handle) is None:
                    fail('handles', f'device {k}: handle {c.handle} unknown to its controller')
            rec = {'a': i, 'b': j, 'ca': ca, 'cb': cb, 'alive': True, 'transport': transport}
            conns.append(rec)
            return rec

        def live_between(i, j, transport):
            return any(c['alive'] and {c['a'], c['b']} == {i, j} and c['transport'] == transport for c in conns)

        async def start_adv(d, public=False):
            await w[d].device.start_advertising(
                own_address_type=hci.OwnAddressType.PUBLIC if public else hci.OwnAddressType.RANDOM,
                advertising_interval_min=2000.0, advertising_interval_max=2000.0,
            )

        async def stop_adv(d):
            try:
                await w[d].device.stop_advertising()
            except Exception:
                pass

        def next_payload(c, tag, length=5):
            counter[0] += 1
            return bytes([counter[0] & 0xFF, c[0], c[1], tag]) + bytes((counter[0] + x) & 0xFF for x in range(length))

        def eager_hooks(i, j, eager, sent):
            """bit 1: the accepting side writes a PDU from inside its 'connection' event."""
            if eager & 2:
                def hook(c):
                    payload = next_payload((i, j), 0xE2)
                    sent['p2c'] = payload
                    c.send_l2cap_pdu(CID, payload)

                w[j].device.once('connection', hook)
            if eager & 4:
                # bit 2: the initiating side writes a PDU from inside its own 'connection' event (before connect()
                # has returned to its caller)
                def hook_c(c):
                    payload = next_payload((i, j), 0xE4)
                    sent['c2p_event'] = payload
                    c.send_l2cap_pdu(CID, payload)

                w[i].device.once('connection', hook_c)

        def eager_central(i, j, ca, eager, sent):
            """bit 0: the initiator writes a PDU the moment connect() has returned (no loop iteration in between)."""
            if eager & 1:
                payload = next_payload((i, j), 0xE1)
                sent['c2p'] = payload
                ca.send_l2cap_pdu(CID, payload)

        def check_eager(rec, sent, imark):
            i, j = rec['a'], rec['b']
            want = {d: [] for d in range(n)}
            if 'c2p_event' in sent:
                want[j].append((rec['cb'].handle, sent['c2p_event']))
            if 'c2p' in sent:
                want[j].append((rec['cb'].handle, sent['c2p']))
            if 'p2c' in sent:
                want[i].append((rec['ca'].handle, sent['p2c']))
            for d in range(n):
                got = inbox[d][imark[d]:]
                if got != want[d]:
                    which = 'misrouted' if d not in (i, j) else ('c2p' if d == j else 'p2c')
                    if which == 'c2p' and 'c2p_event' in sent and (rec['cb'].handle, sent['c2p_event']) not in got:
                        which = 'c2p_from_connection_event'
                    fail(f'delivery/right_after_connect/{rec["transport"].name}/{which}',
                         f'PDU(s) written the moment the connection {i}->{j} was reported: device {d} received '
                         f'{[(h, p.hex()) for h, p in got]}, expected {[(h, p.hex()) for h, p in want[d]]}')
            if sent:
                state['moved'] += len(sent)
                labels.add('payload_right_after_connect')
                for k in sent:
                    labels.add(f'payload_right_after_connect:{rec["transport"].name}:{k}')

        for step, op in enumerate(ops):
            state['step'] = step
            kind = op[0]
            if kind == 'connect' and len(op) > 5 and (op[4] or op[5]):
                # connect while other devices advertise too; PDUs the moment the connection is reported
                (i, j), ci_public, pj_public, amb, eager = op[1], op[2], op[3], int(op[4]), int(op[5])
                if live_between(i, j, PhysicalTransport.LE):
                    continue
                byst = [d for d in range(n) if d != j and amb >> d & 1]
                before = {k: len(events[k]) for k in range(n)}
                imark = {d: len(inbox[d]) for d in range(n)}
                sent = {}
                eager_hooks(i, j, eager, sent)
                target = own_address(j, pj_public)
                if not byst:
                    # connect() awaited directly: the eager PDU is written in the very step connect() returns
                    await start_adv(j, pj_public)
                t_out = w[i].device.connect(
                    target, own_address_type=hci.OwnAddressType.PUBLIC if ci_public else hci.OwnAddressType.RANDOM,
                    timeout=40.0)
                if byst:
                    # the initiator is pending when the bystanders' advertisements go out; j is still silent
                    t_out = asyncio.ensure_future(t_out)
                    await asyncio.sleep(0.3)
                    for d in byst:
                        await start_adv(d, public=bool(amb >> (4 + d) & 1))
                    await asyncio.sleep(0.3)
                    if t_out.done():
                        got = t_out.result() if not t_out.exception() else None
                        for d in byst:
                            await stop_adv(d)
                        fail('caller_wrong_connection/bystander_advertisement_completes_connect',
                             f'connect({i}->{j}, {target}) completed with '
                             f'{got.peer_address if got else repr(t_out.exception())} when only {byst} were advertising')
                    await start_adv(j, pj_public)
                try:
                    ca = await t_out  # (Device.connect has its own 40 s timeout)
                except Exception as e:  # noqa: BLE001
                    fail(f'connect_failed/{type(e).__name__}/{"ext" if case["ext"][j] else "legacy"}_adv/bystanders',
                         f'connect({i}->{j}) to an advertising peer failed while {byst} advertise too: {e!r}')
                eager_central(i, j, ca, eager, sent)
                await settle()
                for d in [j] + byst:
                    await stop_adv(d)
                rec = check_new_connection(i, j, ca, before, PhysicalTransport.LE, ci_public, pj_public)
                check_eager(rec, sent, imark)
                labels.add('le_connect')
                if byst:
                    labels.add('connect_among_advertisers')
                    if i in byst:
                        labels.add('initiator_also_advertises')
                    if any(amb >> (4 + d) & 1 for d in byst):
                        labels.add('bystander_public_address')
                if ci_public or pj_public:
                    labels.add('public_own_address')
                if case['ext'][j]:
                    labels.add('extended_advertising')
            elif kind == 'connect':
                (i, j), ci_public, pj_public = op[1], op[2], op[3]
                if live_between(i, j, PhysicalTransport.LE):
                    continue
                ca, before = await establish(i, j, ci_public, pj_public)
                check_new_connection(i, j, ca, before, PhysicalTransport.LE, ci_public, pj_public)
                labels.add('le_connect')
                if ci_public or pj_public:
                    labels.add('public_own_address')
                if case['ext'][j]:
                    labels.add('extended_advertising')
            elif kind == 'cross':
                (i, j, k), pub = op[1], op[2]
                if live_between(i, j, PhysicalTransport.LE) or live_between(k, i, PhysicalTransport.LE):
                    continue
                labels.add('overlapping_connect')
                before = {d: len(events[d]) for d in range(n)}
                # i advertises (so k can connect to it) and is itself connecting to j, which
                # starts advertising only later: the incoming connection arrives first.
                await w[i].device.start_advertising(advertising_interval_min=2000.0, advertising_interval_max=2000.0)
                t_out = loop.create_task(w[i].device.connect(w[j].device.random_address, timeout=60.0))
                await asyncio.sleep(0.05)
                try:
                    ck = await w[k].device.connect(w[i].device.random_address, timeout=30.0)
                except Exception as e:  # noqa: BLE001
                    t_out.cancel()
                    fail(f'connect_failed/{type(e).__name__}/cross', f'connect({k}->{i}) failed while {i} was connecting out: {e!r}')
                await settle()
                if t_out.done():
                    got = t_out.result() if not t_out.exception() else None
                    fail('caller_wrong_connection/incoming_completes_outgoing',
                         f'connect({i}->{j}) completed with {got.peer_address if got else t_out.exception()!r} '
                         f'when only the incoming connection from {k} had been made')
                await w[j].device.start_advertising(advertising_interval_min=2000.0, advertising_interval_max=2000.0)
                try:
                    ca = await asyncio.wait_for(t_out, 40.0)
                except Exception as e:  # noqa: BLE001
                    fail(f'connect_failed/{type(e).__name__}/cross_outgoing', f'connect({i}->{j}) failed: {e!r}')
                await settle()
                for d in (i, j):
                    try:
                        await w[d].device.stop_advertising()
                    except Exception:
                        pass
                b2 = dict(before)
                check_new_connection(k, i, ck, before, PhysicalTransport.LE, False, False, others_ok=(j,))
                b2[i] = len(events[i]) - 0
                # i's outgoing connection: i itself got 2 events (one incoming, one outgoing)
                if not same_addr(ca.peer_address, w[j].device.random_address):
                    fail('caller_wrong_connection', f'connect({i}->{j}) returned a connection to {ca.peer_address}')
                new_j = [c for c in events[j][before[j]:] if same_addr(c.peer_address, w[i].device.random_address)]
                if len(new_j) != 1:
                    fail('peer_connection_report/LE/random_initiator', f'{j} reported {len(new_j)} connections from {i}')
                conns.append({'a': i, 'b': j, 'ca': ca, 'cb': new_j[0], 'alive': True, 'transport': PhysicalTransport.LE})
            elif kind == 'advset':
                # j advertises with an extended advertising SET that has its own random address
                # (different from the device's random address); i connects to that address.
                (i, j), ci_public = op[1], op[2]
                if not case['ext'][j] or live_between(i, j, PhysicalTransport.LE):
                    continue
                from bumble.device import AdvertisingParameters

                set_address = hci.Address(bytes([0x5A, j, i, step & 0xFF, 0x11, 0xC0 | j]), hci.Address.RANDOM_DEVICE_ADDRESS)
                before = {k: len(events[k]) for k in range(n)}
                try:
                    adv_set = await w[j].device.create_advertising_set(
                        advertising_parameters=AdvertisingParameters(
                            own_address_type=hci.OwnAddressType.RANDOM, primary_advertising_interval_min=2000.0,
                            primary_advertising_interval_max=2000.0),
                        random_address=set_address,
                    )
                    ca = await w[i].device.connect(
                        set_address,
                        own_address_type=hci.OwnAddressType.PUBLIC if ci_public else hci.OwnAddressType.RANDOM,
                        timeout=30.0,
                    )
                except Exception as e:  # noqa: BLE001
                    fail(f'connect_failed/{type(e).__name__}/advertising_set_address',
                         f'connect({i}->{j}) to an advertising set with its own random address failed: {e!r}')
                await settle()
                if not same_addr(ca.peer_address, set_address):
                    fail('caller_wrong_connection', f'connect({i}->set of {j}) returned a connection to {ca.peer_address}')
                want_initiator = own_address(i, ci_public)
                match = [c for c in events[j][before[j]:] if same_addr(c.peer_address, want_initiator)]
                if len(match) != 1:
                    fail('peer_connection_report/LE/advertising_set', f'{j} reported {len(match)} connections from {i}')
                for k in range(n):
                    if k not in (i, j) and len(events[k]) != before[k]:
                        fail('bystander_connection', f'device {k} got a connection event for connect({i}->{j})')
                conns.append({'a': i, 'b': j, 'ca': ca, 'cb': match[0], 'alive': True, 'transport': PhysicalTransport.LE})
                try:
                    await adv_set.remove()
                except Exception:
                    pass
                labels.add('advertising_set_own_address')
            elif kind == 'classic':
                i, j = op[1]
                eager = int(op[2]) if len(op) > 2 else 0
                if live_between(i, j, PhysicalTransport.BR_EDR):
                    continue
                before = {d: len(events[d]) for d in range(n)}
                imark = {d: len(inbox[d]) for d in range(n)}
                sent = {}
                eager_hooks(i, j, eager, sent)
                try:
                    ca = await w[i].device.connect(w[j].controller.public_address, transport=PhysicalTransport.BR_EDR, timeout=30.0)
                except Exception as e:  # noqa: BLE001
                    fail(f'connect_failed/{type(e).__name__}/classic', f'classic connect({i}->{j}) failed: {e!r}')
                eager_central(i, j, ca, eager, sent)
                await settle()
                rec = check_new_connection(i, j, ca, before, PhysicalTransport.BR_EDR, True, True)
                check_eager(rec, sent, imark)
                labels.add('classic_connect')
            elif kind == 'miss':
                # a connection attempt to an address that nobody advertises (owns) at this moment reaches nobody
                (i, j), variant, amb = op[1], int(op[2]), int(op[3])
                if variant != 3 and live_between(i, j, PhysicalTransport.LE):
                    continue
                before = {d: len(events[d]) for d in range(n)}
                tables = {d: (len(w[d].controller.le_connections), len(w[d].controller.classic_connections),
                              len(w[d].device.connections)) for d in range(n)}
                byst = [d for d in range(n) if d not in (i, j) and amb >> d & 1]
                advertising = list(byst)
                transport = PhysicalTransport.LE
                if variant == 0:  # j advertises its public address, i asks for j's random address
                    target, adv_public = own_address(j, False), True
                    advertising.append(j)
                elif variant == 1:  # j advertises its random address, i asks for j's public address
                    target, adv_public = own_address(j, True), False
                    advertising.append(j)
                elif variant == 2:  # j is silent (connectable, but not advertising); the others advertise
                    target, adv_public = own_address(j, False), False
                else:  # BR/EDR page of a BD_ADDR that no controller on the link owns
                    target = hci.Address(bytes([0xE0 | j, 0x10 | i, 0x5E, 0x5E, 0x5E, 0xE0 | j]), hci.Address.PUBLIC_DEVICE_ADDRESS)
                    transport = PhysicalTransport.BR_EDR
                for d in byst:
                    await start_adv(d, public=bool(amb >> (4 + d) & 1))
                if variant in (0, 1):
                    await start_adv(j, adv_public)
                got = None
                try:
                    if transport == PhysicalTransport.LE:
                        got = await w[i].device.connect(target, timeout=4.0)
                    else:
                        got = await w[i].device.connect(target, transport=transport, timeout=4.0)
                except Exception:  # noqa: BLE001 - the attempt has to fail, how is not prescribed
                    pass
                await settle()
                for d in advertising:
                    await stop_adv(d)
                tag = ('other_address_type_public_advertised', 'other_address_type_random_advertised',
                       'silent_peer', 'unowned_bd_addr')[variant]
                if got is not None:
                    fail(f'caller_wrong_connection/address_not_advertised/{tag}',
                         f'connect({i}->{target}) returned a connection to {got.peer_address} although nobody '
                         f'advertises/owns that address (advertising: {advertising})')
                for d in range(n):
                    if len(events[d]) != before[d]:
                        fail(f'bystander_connection/address_not_advertised/{tag}',
                             f'device {d} got a connection event for connect({i}->{target}), an address nobody advertises')
                    now = (len(w[d].controller.le_connections), len(w[d].controller.classic_connections),
                           len(w[d].device.connections))
                    if now != tables[d]:
                        fail(f'phantom_connection/address_not_advertised/{tag}',
                             f'device {d}: connection tables went {tables[d]} -> {now} for connect({i}->{target})')
                labels.add('connect_address_not_advertised')
                labels.add(f'connect_address_not_advertised:{tag}')
                if byst:
                    labels.add('miss_among_advertisers')
            elif kind == 'multi':
                # two connects in flight at once
                (i, j), (k, l) = op[1][0], op[1][1]
                adv_first = bool(op[2])
                if len({i, k}) != 2 or i == j or k == l or (i == l and j == k) or max(i, j, k, l) >= n:
                    continue
                if live_between(i, j, PhysicalTransport.LE) or live_between(k, l, PhysicalTransport.LE):
                    continue
                shape = 'same_advertiser' if j == l else ('chain' if (j == k or i == l) else 'distinct_advertisers')
                before = {d: len(events[d]) for d in range(n)}
                attempts = [(i, j), (k, l)]
                advertisers = sorted({j, l})

                def launch():
                    return [loop.create_task(w[a].device.connect(w[b].device.random_address, timeout=8.0))
                            for a, b in attempts]

                if adv_first:
                    for d in advertisers:
                        await start_adv(d)
                    tasks = launch()
                else:
                    tasks = launch()
                    await asyncio.sleep(0.3)
                    for d in advertisers:
                        await start_adv(d)
                results = await asyncio.gather(*tasks, return_exceptions=True)
                await settle()
                for d in advertisers:
                    await stop_adv(d)
                labels.add('concurrent_connects')
                labels.add(f'concurrent_connects:{shape}')
                made = []
                for (a, b), r in zip(attempts, results):
                    a_addr, b_addr = w[a].device.random_address, w[b].device.random_address
                    peer_side = [c for c in events[b][before[b]:] if same_addr(c.peer_address, a_addr)]
                    peer_live = [c for c in peer_side if c not in discs[b]]
                    if isinstance(r, BaseException):
                        if not isinstance(r, Exception):
                            raise r
                        ca = None
                    else:
                        ca = r
                        if not same_addr(ca.peer_address, b_addr):
                            fail('caller_wrong_connection/concurrent',
                                 f'connect({a}->{b}) returned a connection to {ca.peer_address} ({shape})')
                    a_live = ca is not None and ca not in discs[a]
                    if len(peer_side) > 1:
                        fail(f'peer_connection_report/LE/concurrent/{shape}',
                             f'{b} reported {len(peer_side)} connections from {a}')
                    if a_live and not peer_live:
                        fail(f'half_open_connection/{shape}/initiator_only',
                             f'connect({a}->{b}) handed its caller a live connection (handle {ca.handle}) that {b} '
                             f'never reported: {b} saw {[str(c.peer_address) for c in events[b][before[b]:]]}')
                    if peer_live and not a_live:
                        fail(f'half_open_connection/{shape}/advertiser_only',
                             f'{b} holds a live connection from {a} whose connect() ended with {r!r}')
                    if a_live:
                        made.append({'a': a, 'b': b, 'ca': ca, 'cb': peer_live[0], 'alive': True,
                                     'transport': PhysicalTransport.LE})
                    elif shape != 'same_advertiser':
                        how = type(r).__name__ if ca is None else 'connected_then_disconnected'
                        fail(f'connect_failed/{how}/concurrent/{shape}',
                             f'connect({a}->{b}) to an advertising peer failed while both of {attempts} were in flight: {r!r}')
                if not made:
                    fail(f'connect_failed/concurrent/{shape}/nobody_connected',
                         f'neither of {attempts} was connected: {results!r}')
                for d in range(n):
                    if d not in (i, j, k, l) and len(events[d]) != before[d]:
                        fail('bystander_connection', f'device {d} got a connection event for the connects {attempts}')
                for rec in made:
                    for d, c in ((rec['a'], rec['ca']), (rec['b'], rec['cb'])):
                        handles = [x.handle for x in w[d].device.connections.values()]
                        if len(handles) != len(set(handles)) or c.handle not in handles:
                            fail('handles', f'device {d}: handles {handles} not distinct/live')
                        if w[d].controller.find_connection_by_handle(c.handle) is None:
                            fail('handles', f'device {d}: handle {c.handle} unknown to its controller')
                    conns.append(rec)
                if len(made) == 2:
                    labels.add('concurrent_connects:both_connected')
                else:
                    labels.add('concurrent_connects:one_connected')
            elif kind == 'burst':
                # PDUs written back to back (no loop iteration in between) on several connections, both directions
                live = [c for c in conns if c['alive']]
                if not live:
                    continue
                entries, rr, base = op[1], bool(op[2]), int(op[3])
                plan = []
                for e_i, (sel, side, count) in enumerate(entries):
                    c = live[sel % len(live)]
                    sconn, rconn, rcv = (c['ca'], c['cb'], c['b']) if side == 0 else (c['cb'], c['ca'], c['a'])
                    plan.append([(sconn, rcv, rconn.handle, next_payload((c['a'], c['b']), 0xB0 | e_i, base + 7 * ((3 * q + e_i) % 4)))
                                 for q in range(int(count))])
                if rr:
                    seq = [x for rnd in range(4) for lst in plan if rnd < len(lst) for x in [lst[rnd]]]
                else:
                    seq = [x for lst in plan for x in lst]
                imark = {d: len(inbox[d]) for d in range(n)}
                want = {d: {} for d in range(n)}
                for sconn, rcv, handle, payload in seq:
                    want[rcv].setdefault(handle, []).append(payload)
                    sconn.send_l2cap_pdu(CID, payload)
                await settle()
                for d in range(n):
                    got = {}
                    for h, p in inbox[d][imark[d]:]:
                        got.setdefault(h, []).append(p)
                    if got != want[d]:
                        stray = [h for h in got if h not in want[d]]
                        fail('delivery/burst/' + ('misrouted' if stray else 'lost_duplicated_or_reordered'),
                             f'burst of {len(seq)} PDUs: device {d} received per handle '
                             f'{ {h: [p[:4].hex() for p in v] for h, v in got.items()} }, expected '
                             f'{ {h: [p[:4].hex() for p in v] for h, v in want[d].items()} }')
                state['moved'] += len(seq)
                labels.add('burst')
                used = {(sel % len(live), side) for sel, side, count in entries}
                if len({u[0] for u in used}) >= 2:
                    labels.add('burst_several_connections')
                if len(used) > len({u[0] for u in used}):
                    labels.add('burst_both_directions')
                if any(len(x[3]) > 27 for x in seq):
                    labels.add('burst_fragmented_pdu')
            elif kind == 'send':
                live = [c for c in conns if c['alive']]
                if not live:
                    continue
                c = live[op[1] % len(live)]
                side, length = op[2], op[3]
                counter[0] += 1
                payload = bytes([counter[0] & 0xFF, c['a'], c['b']]) + bytes((counter[0] + x) & 0xFF for x in range(length))
                snd, rcv = (c['a'], c['b']) if side == 0 else (c['b'], c['a'])
                sconn, rconn = (c['ca'], c['cb']) if side == 0 else (c['cb'], c['ca'])
                marks = {d: len(inbox[d]) for d in range(n)}
                sconn.send_l2cap_pdu(CID, payload)
                await settle()
                got = inbox[rcv][marks[rcv]:]
                if got != [(rconn.handle, payload)]:
                    pub = (c['ca'].self_address.is_public, c['cb'].self_address.is_public)
                    fail(f'delivery/{c["transport"].name}/central_public={pub[0]}/peripheral_public={pub[1]}/{"c2p" if side == 0 else "p2c"}',
                         f'payload sent {snd}->{rcv} arrived as {[(h, p.hex()) for h, p in got]} (expected once on handle {rconn.handle})')
                for d in range(n):
                    if d != rcv and len(inbox[d]) != marks[d]:
                        fail('delivery/misrouted', f'payload for {rcv} also/instead delivered to device {d}')
                state['moved'] += 1
                labels.add('payload')
                if len(payload) + 4 > 0xFFFF:
                    labels.add(f'payload_acl_pdu_over_65535:{c["transport"].name}')
            elif kind == 'disc':
                live = [c for c in conns if c['alive']]
                if not live:
                    continue
                c = live[op[1] % len(live)]
                side = op[2]
                if side == 2:
                    # both ends disconnect at once: each must be told, neither call may hang
                    marks = {d: len(discs[d]) for d in range(n)}
                    both = [loop.create_task(asyncio.wait_for(x.disconnect(), 30.0)) for x in (c['ca'], c['cb'])]
                    res = await asyncio.gather(*both, return_exceptions=True)
                    await settle()
                    c['alive'] = False
                    labels.add('disconnect_by_both_ends')
                    for end, r in zip(('central', 'peripheral'), res):
                        if isinstance(r, (asyncio.TimeoutError, TimeoutError)):
                            fail(f'disconnect_failed/TimeoutError/both_ends/{c["transport"].name}',
                                 f'disconnect() of the {end} never finished when both ends disconnected at once')
                        if isinstance(r, BaseException) and not isinstance(r, Exception):
                            raise r
                        if isinstance(r, Exception):
                            labels.add('disconnect_by_both_ends:one_call_refused')
                    for d, conn in ((c['a'], c['ca']), (c['b'], c['cb'])):
                        if conn not in discs[d][marks[d]:]:
                            fail(f'disconnection_not_reported/{c["transport"].name}/both_ends',
                                 f'device {d} got no disconnection event when both ends disconnected at once')
                        if conn.handle in w[d].device.connections and w[d].device.connections[conn.handle] is conn:
                            fail('stale_connection/device', f'device {d} still lists the connection')
                        if conn.handle in w[d].host.connections:
                            fail('stale_connection/host', f'host {d} still lists handle {conn.handle}')
                        ctrl = w[d].controller
                        tbl = ctrl.le_connections if c['transport'] == PhysicalTransport.LE else ctrl.classic_connections
                        if any(x.handle == conn.handle for x in tbl.values()):
                            fail('stale_connection/controller', f'controller {d} still lists handle {conn.handle}')
                    continue
                who = c['ca'] if side == 0 else c['cb']
                marks = {d: len(discs[d]) for d in range(n)}
                # PDUs put on the connection immediately before the disconnection (no loop iteration in between):
                # they were sent on a live connection and the link is order preserving
                trail = int(op[3]) if len(op) > 3 else 0
                rcv = c['b'] if side == 0 else c['a']
                rconn = c['cb'] if side == 0 else c['ca']
                imark = {d: len(inbox[d]) for d in range(n)}
                trailing = []
                for _ in range(trail):
                    counter[0] += 1
                    payload = bytes([counter[0] & 0xFF, c['a'], c['b'], 0xDD]) + bytes((counter[0] + x) & 0xFF for x in range(5))
                    trailing.append((rconn.handle, payload))
                    who.send_l2cap_pdu(CID, payload)
                try:
                    await asyncio.wait_for(who.disconnect(), 30.0)
                except Exception as e:  # noqa: BLE001
                    fail(f'disconnect_failed/{type(e).__name__}', f'disconnect raised {e!r}')
                await settle()
                if trail:
                    labels.add('payload_right_before_disconnect')
                    got = inbox[rcv][imark[rcv]:]
                    if got != trailing:
                        fail(f'delivery/before_disconnect/{c["transport"].name}',
                             f'{trail} PDU(s) sent right before disconnect() arrived as {[(h, p.hex()) for h, p in got]}')
                    for d in range(n):
                        if d != rcv and len(inbox[d]) != imark[d]:
                            fail('delivery/misrouted', f'payload for {rcv} also/instead delivered to device {d}')
                c['alive'] = False
                labels.add('disconnect_by_central' if side == 0 else 'disconnect_by_peripheral')
                for d, conn in ((c['a'], c['ca']), (c['b'], c['cb'])):
                    if conn not in discs[d][marks[d]:]:
                        fail(f'disconnection_not_reported/{c["transport"].name}/{"initiating" if conn is who else "remote"}_end',
                             f'device {d} got no disconnection event')
                    if conn.handle in w[d].device.connections and w[d].device.connections[conn.handle] is conn:
                        fail('stale_connection/device', f'device {d} still lists the connection')
                    if conn.handle in w[d].host.connections:
                        fail('stale_connection/host', f'host {d} still lists handle {conn.handle}')
                    ctrl = w[d].controller
                    tbl = ctrl.le_connections if c['transport'] == PhysicalTransport.LE else ctrl.classic_connections
                    if any(x.handle == conn.handle for x in tbl.values()):
                        fail('stale_connection/controller', f'controller {d} still lists handle {conn.handle}')
            elif kind == 'scan':
                s, active, mask, legacy_api = op[1], op[2], op[3], op[4]
                adv_len, rsp_len = PAYLOAD_SHAPES[int(op[5]) % len(PAYLOAD_SHAPES)] if len(op) > 5 else PAYLOAD_SHAPES[0]
                advertisers = [d for d in range(n) if d != s and mask >> d & 1]
                if not advertisers:
                    continue
                adv = {}
                self_adv = bool(mask >> s & 1)  # the scanner advertises too: it must not hear itself
                if self_adv:
                    labels.add('scanner_also_advertises')
                for d in advertisers + ([s] if self_adv else []):
                    counter[0] += 1
                    adv_data = bytes([2, 0x01, 0x06, 3, 0xFF, d, counter[0] & 0xFF])
                    rsp_data = bytes([4, 0x09, 0x41 + d, 0x42, counter[0] & 0xFF])
                    if len(op) > 5 and (adv_len, rsp_len) != PAYLOAD_SHAPES[0]:
                        # one manufacturer-specific AD structure that fills exactly adv_len / rsp_len bytes
                        adv_data = (bytes([max(adv_len - 1, 0), 0xFF, d, counter[0] & 0xFF]) + bytes(range(0x30, 0x30 + 31)))[:adv_len]
                        rsp_data = (bytes([max(rsp_len - 1, 0), 0xFF, 0x80 | d, counter[0] & 0xFF]) + bytes(range(0x60, 0x60 + 31)))[:rsp_len]
                    adv[d] = (adv_data, rsp_data)
                    await w[d].device.start_advertising(
                        advertising_data=adv_data, scan_response_data=rsp_data,
                        advertising_interval_min=500.0, advertising_interval_max=500.0,
                    )
                mark = len(w[s].tap.log)
                # the virtual controller implements the legacy scan commands only
                await w[s].device.start_scanning(legacy=True, active=active, filter_duplicates=False)
                await asyncio.sleep(2.0)
                await w[s].device.stop_scanning(legacy=True)
                for d in advertisers + ([s] if self_adv else []):
                    await w[d].device.stop_advertising()
                await settle()
                reports = collect_reports(w[s].tap.log[mark:])
                labels.add('scan_active' if active else 'scan_passive')
                state['scanned'] += 1
                if adv_len == 31:
                    labels.add('advertising_data_31_bytes')
                if adv_len == 0:
                    labels.add('advertising_data_empty')
                for d in advertisers:
                    addr = bytes(w[d].device.random_address)
                    mine = [r for r in reports if r[0] == addr]
                    adv_reports = [r for r in mine if not r[1]]
                    rsp_reports = [r for r in mine if r[1]]
                    if not adv_reports:
                        fail('scan/no_report', f'scanner {s} got no advertising report for advertiser {d}')
                    if any(r[2] != adv[d][0] for r in adv_reports):
                        fail('scan/adv_data', f'advertising report data {adv_reports[0][2].hex()} != advertised {adv[d][0].hex()}')
                    if any(r[2] != adv[d][1] for r in rsp_reports):
                        # recorded without aborting the history (known finding F06c): the search goes on
                        c = dict(case)
                        c['ops'] = ops[: step + 1]
                        c['kind'] = 'history'
                        ctx.fail(f'scan/scan_response_data/{"active" if active else "passive"}',
                                 f'report flagged scan response carries {rsp_reports[0][2].hex()}, scan-response data is {adv[d][1].hex()}', c)
                        ctx.exclude('scan_response_mismatch_not_aborting')
                    if active and not rsp_reports:
                        fail('scan/no_scan_response', f'active scanner {s} got no scan response for advertiser {d}')
                foreign = [r for r in reports if r[0] not in [bytes(w[d].device.random_address) for d in advertisers]]
                if foreign:
                    fail('scan/phantom_report', f'report for an address nobody advertises: {foreign[0][0].hex()}')

    outcome = None
    try:
        loop.complete(main(), horizon=HORIZON * 20)
    except _Abort:
        pass
    except vloop.Stalled:
        outcome = 'stalled'
    except vloop.HorizonExceeded:
        outcome = 'horizon'
    except vloop.BudgetExceeded:
        labels.add('iteration_budget_hit')
    finally:
        loop.shutdown()
    if outcome:
        c = dict(case)
        c['ops'] = ops[: state['step'] + 1]
        c['kind'] = 'history'
        op = ops[state['step']][0] if state['step'] >= 0 else 'setup'
        ctx.fail(f'hang/{op}/{outcome}', f'operation {op} never completed ({outcome})', c)
    interesting = n >= 3 or bool(labels & {'public_own_address', 'extended_advertising', 'overlapping_connect', 'classic_connect',
                                           'connect_among_advertisers', 'concurrent_connects'})
    ctx.case((n, case['ext'], case['delays'], case['order'], ops), interesting and (state['moved'] > 0 or state['scanned'] > 0),
             labels | {f'devices:{n}'}, sample={'n': n, 'ext': case['ext'], 'delays': case['delays'], 'ops': ops})


class _Abort(Exception):
    pass


def collect_reports(log):
    """(address bytes, is_scan_response, data) for every advertising report the scanner's controller sent."""
    out = []
    for _t, d, pkt in log:
        if d != world.C2H or pkt[0] != 0x04 or pkt[1] != 0x3E:
            continue
        ev = hci.HCI_Packet.from_bytes(pkt)
        if isinstance(ev, hci.HCI_LE_Advertising_Report_Event):
            for r in ev.reports:
                out.append((bytes(r.address), r.event_type == hci.HCI_LE_Advertising_Report_Event.EventType.SCAN_RSP, bytes(r.data)))
        elif isinstance(ev, hci.HCI_LE_Extended_Advertising_Report_Event):
            for r in ev.reports:
                is_rsp = bool(int(r.event_type) & (1 << 3))
                out.append((bytes(r.address), is_rsp, bytes(r.data)))
    return out


def run(ctx) -> None:
    vloop.selftest()
    ctx.hyp('histories', lambda c: run_case(ctx, c), case_strategy(), max_examples=ctx.n(1400, 30000))
    ctx.hyp('overlaps', lambda c: run_case(ctx, c), case_strategy_overlaps(), max_examples=ctx.n(450, 12000))
    ctx.hyp('largest', lambda c: run_case(ctx, c), case_strategy_largest(), max_examples=ctx.n(24, 640))
    for label in ('payload_acl_pdu_over_65535:LE', 'payload_acl_pdu_over_65535:BR_EDR'):
        ctx.floor(label, 4)
    for label in ('le_connect', 'classic_connect', 'public_own_address', 'extended_advertising',
                  'overlapping_connect', 'payload', 'disconnect_by_central', 'disconnect_by_peripheral',
                  'scan_active', 'scan_passive', 'devices:4', 'scanner_also_advertises',
                  'advertising_set_own_address'):
        ctx.floor(label, 8)
    # classes only the "overlaps" family produces (random families: every shard reaches them)
    for label in ('connect_among_advertisers', 'initiator_also_advertises', 'bystander_public_address',
                  'payload_right_after_connect:LE:c2p', 'payload_right_after_connect:LE:p2c',
                  'payload_right_after_connect:BR_EDR:c2p', 'payload_right_after_connect:BR_EDR:p2c',
                  'payload_right_after_connect:LE:c2p_event', 'payload_right_after_connect:BR_EDR:c2p_event',
                  'connect_address_not_advertised:other_address_type_public_advertised',
                  'connect_address_not_advertised:other_address_type_random_advertised',
                  'connect_address_not_advertised:silent_peer', 'connect_address_not_advertised:unowned_bd_addr',
                  'miss_among_advertisers',
                  'concurrent_connects:same_advertiser', 'concurrent_connects:chain',
                  'concurrent_connects:distinct_advertisers',
                  'burst_several_connections', 'burst_both_directions', 'burst_fragmented_pdu',
                  'disconnect_by_both_ends', 'per_device_delays', 'host_attached_directly', 'host_attached_directly_no_delay',
                  'advertising_data_31_bytes', 'advertising_data_empty'):
        ctx.floor(label, 5)


def replay(ctx, case) -> None:
    run_case(ctx, case)
