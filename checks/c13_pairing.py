"""
C13 - Pairing ends the same way on both sides, with honest authentication.

Part 1 (exhaustive): every (initiator IO, responder IO, sc/mitm/OOB on each side) cell is run
through the real `smp.Session` request/response handlers of an initiator-role and a
responder-role session (stub manager/connection, nothing else of the stack) and the association
model + display/input roles each of them selects are compared with the harness's own
transcription of Core Vol 3 Part H 2.3.5.1 (Tables 2.6-2.8).

Part 2 (generated): two full devices on vlib.world.World(2) pair over LE with generated,
independently drawn configurations, user answers, HCI delays, optional corruption of one SMP PDU,
and an optional reconnection phase (same roles, swapped roles). The virtual controller never asks
the peripheral host for a key, so the harness emulates the LE Long Term Key Request for every
LE Enable Encryption command of the central and compares the two keys.

Part 2 also holds three families beyond the single pairing on a fresh link:
  again  - a second pairing of the same two devices, judged by the same oracle: on the same link after the
           first pairing failed (retry) or completed (re-pairing, e.g. to raise the security level), or on a
           new link after a disconnection, in the same or in swapped roles (connection handle re-used, real
           bond of the first pairing in both stores); then the reconnection phase on the bond that must be
           in the stores (the second one if it completed, the first one if the second failed);
  oob    - OOB association end to end (SC: data about the peer on both sides / one side / foreign data;
           legacy: equal or different TKs), so that the "authenticated iff MITM-protected model" and
           "mismatching confirm value never yields keys" clauses are judged for OOB as well;
  pkbit  - passkey entry with a typed passkey that differs from the right one in exactly one bit
           (bit 0..19 x {legacy, SC} x the three role assignments), enumerated.

Harness trust base: TABLE_2_8/reference_method (own transcription of the specification), the
UserDelegate user model, FaultFilter, LtkEmulation and the encryption-start hold in front of Tap._forward.
"""

from __future__ import annotations

import asyncio
import contextlib
import copy
import hashlib
import random as _random
import secrets as _secrets

from hypothesis import strategies as st

from bumble import crypto, hci, smp, utils
from bumble.core import PhysicalTransport
from bumble.device import Connection
from bumble.keys import PairingKeys
from bumble.pairing import PairingConfig, PairingDelegate
from vlib import vloop, world
from vlib.runner import HarnessError

PROPERTY = 'C13'
LEVEL = 'exploration'
RULE = (
    'table: all 5x5 IO capabilities x sc on each side x MITM on each side x OOB data state on each side '
    '(none / own data only / peer data present), exhaustively, through the real request/response '
    'handlers of an initiator and a responder Session; every cell distinct. '
    'pair: end-to-end LE pairings of two devices, stratified so that every IO pair x {legacy, SC} occurs; '
    'per side sc, mitm, bonding, initiator/responder key-distribution masks 0..15, identity address type, '
    'user answers (accept, confirm, numeric comparison, passkey right/wrong/none, think time), who starts '
    '(central pair() / peripheral security request), order-preserving HCI delays per device, optional flip '
    'of one byte of one Confirm/Random/DHKey-check/Public-key PDU, optional pre-existing bond, optional '
    'reconnection in the same and in swapped roles. non-trivial = the two configurations differ in '
    'IO/sc/mitm/bonding/masks, or an answer is negative/wrong, or a PDU was corrupted, or a reconnection '
    'phase ran; distinct by (configurations, start, answers, fault, prebond, reconnect). '
    'again: two pairings of the same two devices - the first aimed at failing (responder rejects / negative '
    'answers / one corrupted PDU) or at completing - and the second one on the same link, or after a '
    'disconnection on a new link in the same or in swapped roles; every device keeps its IO capability, '
    'sc/mitm/key-distribution masks may change in between; answers of the second pairing positive, negative or '
    'a rejection; both pairings and the final reconnection phase are judged; always non-trivial; distinct by '
    'both rounds. oob: at least one side has an OOB configuration (own context only / valid data of the peer / '
    'data of a foreign device; legacy TK equal or different), stratified over the 13 state pairs x sc on each '
    'side, x everything of a pair case. '
    'pkbit: passkey entry where one typist enters the passkey with exactly bit k flipped, k = 0..19 x '
    '{legacy, SC} x roles {initiator displays, responder displays, both type}; quick: every third cell, '
    'thorough: all 120 in every shard.'
)
ASSUMPTIONS = [
    '"never hangs" is decided as: pair() finishes without the virtual loop stalling and within '
    f'600 virtual seconds, and both sides have reported an outcome 30 virtual seconds later',
    'the virtual controller encrypts without asking the peripheral host for a key; the harness injects the '
    'LE Long Term Key Request event (same Rand/EDIV as the central\'s LE Enable Encryption command) into the '
    'peripheral host through its HCI tap and reads the key from its (Negative) Reply command; the reply '
    'reaches the virtual controller, which answers Command Complete/Unknown Command (harmless); Encryption '
    'Change events and ACL data towards both hosts wait until that reply crossed the tap, as a real '
    'controller finishes the encryption start procedure only then',
    'both devices use their static random address on the link (at the time of writing the virtual link '
    'mis-routed LE data of public-address connections, see C06); reconnection phases are generated only with '
    'the static random address as identity address (or no identity distribution), so that a store lookup by '
    'link address is the lookup by identity',
    'which LTK is the right one for a role is not decided; only that central and peripheral select the same '
    'key for the same request',
    'only the LE central initiates pairing; CTKD/BR-EDR pairing is out of scope',
    'OOB end to end: every side with an OOB configuration has an own SC context and a legacy TK (well-formed '
    'PairingConfig.OobConfig); valid data about a peer exists only if that peer has a context; "foreign data" '
    'is the shared data of a third context. How an OOB configuration maps to the OOB data flag is read from '
    'the wire (the generator\'s expectation is only a floor). A legacy pairing in which Table 2.6 does not '
    'select OOB although a side has a TK configured may end either way (the statement is silent about a TK '
    'that has no use; Bumble keeps it as the Just Works TK); the two sides must still agree',
    'a second pairing on a link is started only after the first one has ended on both sides (30 virtual '
    'seconds of settling); the two devices use bonding and the static random address as identity in both '
    'rounds, so that the store entry of the first bonding is the one the second bonding replaces; a second '
    'bonding may store an entry equal to the one it replaces (nothing distributed either time), so "the store '
    'has a new entry" is then decided by the entry object having been written',
    'a failed second pairing must leave the bond of the first one usable: the reconnection phase then runs on '
    'the first bonding',
    'nonces, passkeys and ECC keys come from a per-case DRBG (secrets.token_bytes/randbelow, '
    'EccKey.generate and the random module are patched inside the harness process), so replays are exact',
]
SHRINK_KEYS = ('delays_c', 'delays_p')

# ---------------------------------------------------------------------------
# The harness's own transcription of Core Vol 3 Part H 2.3.5.1
# ---------------------------------------------------------------------------
DO, DYN, KO, NIO, KD = 0, 1, 2, 3, 4  # IO capability codes (Vol 3 Part H 3.5.1 Table 3.3)
IO_NAMES = {DO: 'DisplayOnly', DYN: 'DisplayYesNo', KO: 'KeyboardOnly', NIO: 'NoInputNoOutput', KD: 'KeyboardDisplay'}
JW, NC, PK, OOB = 'just_works', 'numeric_comparison', 'passkey', 'oob'
MITM_METHODS = (NC, PK, OOB)

_JW = (JW, None)
_NC = (NC, None)
_PK_I = (PK, 'i')  # initiator displays, responder inputs
_PK_R = (PK, 'r')  # responder displays, initiator inputs
_PK_B = (PK, 'both_input')


def _both(x):
    return (x, x)


# Table 2.8, in the orientation of the specification: TABLE_2_8[responder][initiator] = (legacy, sc)
TABLE_2_8 = {
    DO: {  # responder DisplayOnly
        DO: _both(_JW), DYN: _both(_JW), KO: _both(_PK_R), NIO: _both(_JW), KD: _both(_PK_R),
    },
    DYN: {  # responder DisplayYesNo
        DO: _both(_JW), DYN: (_JW, _NC), KO: _both(_PK_R), NIO: _both(_JW), KD: (_PK_R, _NC),
    },
    KO: {  # responder KeyboardOnly
        DO: _both(_PK_I), DYN: _both(_PK_I), KO: _both(_PK_B), NIO: _both(_JW), KD: _both(_PK_I),
    },
    NIO: {  # responder NoInputNoOutput
        DO: _both(_JW), DYN: _both(_JW), KO: _both(_JW), NIO: _both(_JW), KD: _both(_JW),
    },
    KD: {  # responder KeyboardDisplay
        DO: _both(_PK_I), DYN: (_PK_I, _NC), KO: _both(_PK_R), NIO: _both(_JW), KD: (_PK_I, _NC),
    },
}

AUTH_BONDING, AUTH_MITM, AUTH_SC = 0x01, 0x04, 0x08


def reference_method(preq: bytes, pres: bytes):
    """(method, passkey roles, sc) prescribed for a Pairing Request/Response pair seen on the wire."""
    io_i, oob_i, auth_i = preq[1], preq[2], preq[3]
    io_r, oob_r, auth_r = pres[1], pres[2], pres[3]
    sc = bool(auth_i & AUTH_SC) and bool(auth_r & AUTH_SC)
    if sc:
        use_oob = bool(oob_i) or bool(oob_r)  # Table 2.7
    else:
        use_oob = bool(oob_i) and bool(oob_r)  # Table 2.6
    if use_oob:
        return OOB, None, sc
    if not (auth_i & AUTH_MITM) and not (auth_r & AUTH_MITM):
        return JW, None, sc
    method, roles = TABLE_2_8[io_r][io_i][1 if sc else 0]
    return method, roles, sc


def observed_method(session: smp.Session):
    name = {
        smp.PairingMethod.JUST_WORKS: JW, smp.PairingMethod.NUMERIC_COMPARISON: NC,
        smp.PairingMethod.PASSKEY: PK, smp.PairingMethod.OOB: OOB,
    }.get(session.pairing_method, str(session.pairing_method))
    return name, bool(session.passkey_display)


# ---------------------------------------------------------------------------
# Part 1: the table, exhaustively
# ---------------------------------------------------------------------------
class _StubDevice:
    irk = bytes(16)
    public_address = hci.Address('F0:F0:F0:F0:F0:F0', hci.Address.PUBLIC_DEVICE_ADDRESS)
    static_address = hci.Address('C0:00:00:00:00:00')

    def on_pairing_start(self, connection):
        pass

    def on_pairing(self, *args):
        pass

    def on_pairing_failure(self, connection, reason):
        connection.failures.append(reason)


class _StubManager(smp.Manager):
    def __init__(self):
        super().__init__(_StubDevice(), lambda connection: None)  # type: ignore[arg-type]
        self.sent = []

    def send_command(self, connection, command):
        self.sent.append(command)


class _StubConnection(utils.EventEmitter):
    transport = PhysicalTransport.LE
    handle = 1
    is_encrypted = False
    self_resolvable_address = None
    peer_resolvable_address = None

    def __init__(self, self_address, peer_address):
        super().__init__()
        self.self_address = self_address
        self.peer_address = peer_address
        self.failures = []

    def cancel_on_disconnection(self, awaitable):
        # phase 2 is not part of the table: do not run what the handlers spawn
        if asyncio.iscoroutine(awaitable):
            awaitable.close()
            return None
        return awaitable


for _name in dir(Connection):
    if _name.startswith('EVENT_'):
        setattr(_StubConnection, _name, getattr(Connection, _name))

OOB_STATES = ('none', 'own', 'peer')  # no OOB config / own context only / peer data present


def table_cells():
    for io_i in range(5):
        for io_r in range(5):
            for sc_i in (False, True):
                for sc_r in (False, True):
                    for mitm_i in (False, True):
                        for mitm_r in (False, True):
                            for oob_i in OOB_STATES:
                                for oob_r in OOB_STATES:
                                    yield (io_i, io_r, sc_i, sc_r, mitm_i, mitm_r, oob_i, oob_r)


class _TableRig:
    def __init__(self):
        self.mgr_i = _StubManager()
        self.mgr_r = _StubManager()
        a, b = hci.Address('C0:00:00:00:00:00'), hci.Address('C1:01:01:01:01:01')
        self.addr = (a, b)
        key = self.mgr_i.ecc_key
        self.oob_context = smp.OobContext(ecc_key=key, r=bytes(range(16)))
        self.oob_peer = self.oob_context.share()
        self.oob_legacy = smp.OobLegacyContext(tk=bytes(range(16, 32)))

    def config(self, io, sc, mitm, oob):
        oob_config = None
        if oob != 'none':
            oob_config = PairingConfig.OobConfig(
                our_context=self.oob_context,
                peer_data=self.oob_peer if oob == 'peer' else None,
                legacy_context=self.oob_legacy,
            )
        return PairingConfig(sc=sc, mitm=mitm, bonding=True, delegate=PairingDelegate(io), oob=oob_config)

    async def run_cell(self, cell):
        io_i, io_r, sc_i, sc_r, mitm_i, mitm_r, oob_i, oob_r = cell
        self.mgr_i.sent.clear()
        self.mgr_r.sent.clear()
        conn_i = _StubConnection(self.addr[0], self.addr[1])
        conn_r = _StubConnection(self.addr[1], self.addr[0])
        si = smp.Session(self.mgr_i, conn_i, self.config(io_i, sc_i, mitm_i, oob_i), True)
        sr = smp.Session(self.mgr_r, conn_r, self.config(io_r, sc_r, mitm_r, oob_r), False)
        si.send_pairing_request_command()
        preq = bytes(self.mgr_i.sent[-1])
        await sr.on_smp_pairing_request_command_async(smp.SMP_Command.from_bytes(preq))
        pres = None
        for command in self.mgr_r.sent:
            if bytes(command)[0] == 0x02:
                pres = bytes(command)
        if pres is None:
            return preq, None, None, None
        si.on_smp_pairing_response_command(smp.SMP_Command.from_bytes(pres))
        return preq, pres, observed_method(si), observed_method(sr)


def check_cell(ctx, rig, loop, cell) -> None:
    cell = tuple(cell)
    case = {'kind': 'table', 'cell': list(cell)}
    io_i, io_r, sc_i, sc_r, mitm_i, mitm_r, oob_i, oob_r = cell
    preq, pres, got_i, got_r = loop.complete(rig.run_cell(cell), 60)
    labels = set()
    desc = (f'initiator {IO_NAMES[io_i]} sc={sc_i} mitm={mitm_i} oob={oob_i} / '
            f'responder {IO_NAMES[io_r]} sc={sc_r} mitm={mitm_r} oob={oob_r}')
    if pres is None:
        ctx.fail('table/no_response', f'{desc}: the responder sent no Pairing Response', case)
    else:
        method, roles, sc = reference_method(preq, pres)
        labels.add(f'table:{method}:{"sc" if sc else "legacy"}')
        want_i = want_r = None
        if method == PK:
            want_i, want_r = {'i': (True, False), 'r': (False, True), 'both_input': (False, False)}[roles]
            labels.add(f'table:passkey_roles:{roles}')
        if got_i[0] != got_r[0]:
            ctx.fail(f'table/sides_differ/{got_i[0]}_vs_{got_r[0]}',
                     f'{desc}: initiator selects {got_i[0]}, responder selects {got_r[0]} (table: {method})', case)
        elif got_i[0] != method:
            ctx.fail(f'table/wrong_method/{"sc" if sc else "legacy"}/{method}_expected_{got_i[0]}_selected',
                     f'{desc}: both select {got_i[0]}, Table 2.6-2.8 prescribe {method}', case)
        elif method == PK and (got_i[1], got_r[1]) != (want_i, want_r):
            ctx.fail(f'table/passkey_roles/{roles}',
                     f'{desc}: passkey entry roles initiator_displays={got_i[1]} responder_displays={got_r[1]}, '
                     f'table prescribes {roles} (initiator_displays={want_i}, responder_displays={want_r})', case)
    asymmetric = io_i != io_r or sc_i != sc_r or mitm_i != mitm_r or oob_i != oob_r
    if asymmetric:
        labels.add('table:asymmetric')
    ctx.case(('table',) + cell, True, labels,
             sample={'table_cell': desc, 'selected': [got_i, got_r]} if cell[0] == KD and cell[1] == DYN else None)


def run_table(ctx) -> None:
    loop = vloop.new_loop()
    try:
        rig = loop.complete(_make_rig(), 60)
        n = 0
        for i, cell in enumerate(table_cells()):
            if i % ctx.nshards != ctx.shard:
                continue
            check_cell(ctx, rig, loop, cell)
            n += 1
        ctx.extra['exhaustive_table'] = True
        ctx.extra['table_cells_total'] = 25 * 4 * 4 * 9
    finally:
        loop.shutdown()


async def _make_rig():
    return _TableRig()


# ---------------------------------------------------------------------------
# Part 2: end-to-end pairings
# ---------------------------------------------------------------------------
H_PAIR = 600.0
SETTLE = 30.0
P256_N = 0xFFFFFFFF00000000FFFFFFFFFFFFFFFFBCE6FAADA7179E84F3B9CAC2FC632551

SMP_NAMES = {
    0x01: 'request', 0x02: 'response', 0x03: 'confirm', 0x04: 'random', 0x05: 'failed', 0x06: 'enc_info',
    0x07: 'central_id', 0x08: 'id_info', 0x09: 'id_addr', 0x0A: 'signing', 0x0B: 'security_request',
    0x0C: 'public_key', 0x0D: 'dhkey_check',
}
FAULT_CODES = {'confirm': 0x03, 'random': 0x04, 'public_key': 0x0C, 'dhkey_check': 0x0D}
ENC, ID, SIGN, LINK = 1, 2, 4, 8


class Drbg:
    def __init__(self, seed: int):
        self.seed = int(seed).to_bytes(16, 'big', signed=False)
        self.counter = 0

    def token_bytes(self, nbytes=32):
        out = b''
        while len(out) < nbytes:
            out += hashlib.blake2b(self.seed + self.counter.to_bytes(8, 'big'), digest_size=32).digest()
            self.counter += 1
        return out[:nbytes]

    def randbelow(self, n):
        k = (int(n).bit_length() + 7) // 8 + 8
        return int.from_bytes(self.token_bytes(k), 'big') % n


@contextlib.contextmanager
def deterministic(seed: int):
    """Redirects the randomness Bumble draws during one case to a DRBG (harness process only)."""
    drbg = Drbg(seed)
    saved = (_secrets.token_bytes, _secrets.randbelow, crypto.EccKey.__dict__['generate'], _random.getstate())

    def generate(cls):
        d = drbg.randbelow(P256_N - 1) + 1
        return cls.from_private_key_bytes(d.to_bytes(32, 'big'))

    _secrets.token_bytes = drbg.token_bytes
    _secrets.randbelow = drbg.randbelow
    crypto.EccKey.generate = classmethod(generate)
    _random.seed(seed)
    try:
        yield drbg
    finally:
        _secrets.token_bytes, _secrets.randbelow = saved[0], saved[1]
        crypto.EccKey.generate = saved[2]
        _random.setstate(saved[3])


class UserDelegate(PairingDelegate):
    """A pairing delegate that answers as the generated user does and records what it was asked."""

    def __init__(self, side, cfg, answers, shared):
        super().__init__(
            PairingDelegate.IoCapability(cfg['io']),
            PairingDelegate.KeyDistribution(cfg['ikd']),
            PairingDelegate.KeyDistribution(cfg['rkd']),
        )
        self.side = side
        self.answers = answers
        self.shared = shared
        self.asked: list = []

    async def _think(self):
        if self.answers.get('think'):
            await asyncio.sleep(self.answers['think'])

    async def accept(self):
        await self._think()
        self.asked.append(('accept', self.answers['accept']))
        return self.answers['accept']

    async def confirm(self, auto=False):
        await self._think()
        self.asked.append(('confirm', self.answers['confirm']))
        return self.answers['confirm']

    async def compare_numbers(self, number, digits):
        await self._think()
        self.asked.append(('compare', self.answers['compare'], number))
        return self.answers['compare']

    async def get_number(self):
        other = 'p' if self.side == 'c' else 'c'
        if self.shared['both_input']:
            base = self.shared['pk']
        else:
            base = await self.shared['displayed'][other]
        await self._think()
        how = self.answers['passkey']
        if how == 'none':
            value = None
        elif how == 'wrong':
            value = (base + 1) % 1000000
        elif how.startswith('flip'):
            value = base ^ (1 << int(how[4:]))  # differs from the displayed passkey in exactly one bit
        else:
            value = base
        self.asked.append(('input', value))
        return value

    async def generate_passkey(self):
        return self.shared['pk']

    async def display_number(self, number, digits):
        self.asked.append(('display', number))
        fut = self.shared['displayed'][self.side]
        if not fut.done():
            fut.set_result(number)


def smp_pdus(tap, since=0):
    """SMP PDUs this host sent (reassembled from the H2C ACL packets of its tap log): [(index, bytes)]."""
    out = []
    cur = None
    for i in range(since, len(tap.log)):
        _t, d, pkt = tap.log[i]
        if d != world.H2C or pkt[0] != 0x02:
            continue
        pb = (int.from_bytes(pkt[1:3], 'little') >> 12) & 3
        data = pkt[5:]
        if pb != 1:
            if len(data) < 4:
                cur = None
                continue
            cur = [int.from_bytes(data[0:2], 'little'), int.from_bytes(data[2:4], 'little'), bytearray(data[4:]), i]
        elif cur is not None:
            cur[2] += data
        if cur is not None and len(cur[2]) >= cur[0]:
            if cur[1] == 0x0006:
                out.append((cur[3], bytes(cur[2][: cur[0]])))
            cur = None
    return out


def _held_by_encryption_start(packet: bytes) -> bool:
    """What a real controller does not deliver to its host between LL_ENC_REQ and the end of the
    encryption start procedure: the Encryption Change / Key Refresh event itself and ACL data."""
    if packet[0] == 0x02:
        return True
    return packet[0] == 0x04 and packet[1] in (0x08, 0x30, 0x59)


def add_encryption_hold(tap) -> None:
    """Adds tap.hold() / tap.release() in front of the (FIFO) Tap._forward.

    While the emulated LE Long Term Key Request is unanswered, Encryption Change events and ACL data
    towards the host wait (the virtual controller reports encryption at once; a real one finishes the
    encryption start procedure only after the peripheral host's reply); once something is held,
    everything behind it waits too, so the order is preserved. release() lets them go, in order.
    """
    import collections

    inner = tap._forward
    held = collections.deque()
    state = {'hold': False}

    def forward(direction, packet):
        if direction == world.C2H and state['hold'] and (held or _held_by_encryption_start(packet)):
            held.append(packet)
            return
        inner(direction, packet)

    def hold():
        state['hold'] = True

    def release():
        state['hold'] = False
        while held:
            inner(world.C2H, held.popleft())

    tap._forward = forward
    tap.hold = hold
    tap.release = release


class FaultFilter:
    """Flips bits of one byte of the nth SMP PDU with a given code sent by one host (H2C on its tap)."""

    def __init__(self, code, nth, index, mask):
        self.code, self.nth, self.index, self.mask = code, nth, index, mask
        self.seen = 0
        self.applied = False
        self.tracking = None  # [frame length incl. header, consumed, target offset]

    def __call__(self, direction, packet):
        if direction != world.H2C or packet[0] != 0x02 or self.applied:
            return packet
        pb = (int.from_bytes(packet[1:3], 'little') >> 12) & 3
        data = packet[5:]
        if pb != 1:
            self.tracking = None
            if len(data) >= 5 and data[2:4] == b'\x06\x00' and data[4] == self.code:
                self.seen += 1
                if self.seen == self.nth:
                    l2len = int.from_bytes(data[0:2], 'little')
                    plen = max(1, l2len - 1)
                    self.tracking = [4 + l2len, 0, 5 + (self.index % plen)]
        if self.tracking is None:
            return packet
        total, consumed, target = self.tracking
        if consumed <= target < consumed + len(data):
            b = bytearray(packet)
            b[5 + target - consumed] ^= self.mask
            packet = bytes(b)
            self.applied = True
            self.tracking = None
            return packet
        self.tracking[1] = consumed + len(data)
        if self.tracking[1] >= total:
            self.tracking = None
        return packet


class LtkEmulation:
    """Performs the controller's LE Long Term Key Request towards the peripheral host."""

    def __init__(self, central: world.Node, peripheral: world.Node, peripheral_handle: int):
        self.central, self.peripheral, self.handle = central, peripheral, peripheral_handle
        self.requests: list = []  # (key, rand, ediv)
        self.replies: list = []  # key bytes | None (negative reply)
        central.tap.listeners.append(self._on_central)
        peripheral.tap.listeners.append(self._on_peripheral)

    def detach(self):
        self.central.tap.release()
        self.peripheral.tap.release()
        self.central.tap.listeners.remove(self._on_central)
        self.peripheral.tap.listeners.remove(self._on_peripheral)

    def _on_central(self, direction, pkt):
        if direction == world.H2C and pkt[0] == 0x01 and pkt[1:3] == b'\x19\x20' and len(pkt) >= 32:
            rand, ediv, key = pkt[6:14], int.from_bytes(pkt[14:16], 'little'), pkt[16:32]
            self.requests.append((key, rand, ediv))
            self.central.tap.hold()
            self.peripheral.tap.hold()
            event = hci.HCI_LE_Long_Term_Key_Request_Event(
                connection_handle=self.handle, random_number=rand, encryption_diversifier=ediv
            )
            # through the peripheral's tap: same delays and ordering as every other event
            self.peripheral.tap.to_host.on_packet(bytes(event))

    def _on_peripheral(self, direction, pkt):
        if direction == world.H2C and pkt[0] == 0x01:
            if pkt[1:3] == b'\x1a\x20':
                self.replies.append(bytes(pkt[6:22]))
            elif pkt[1:3] == b'\x1b\x20':
                self.replies.append(None)
            else:
                return
            if len(self.replies) >= len(self.requests):
                self.central.tap.release()
                self.peripheral.tap.release()

    def verdict(self):
        """None if every request was answered with the same key, else (kind, text)."""
        if len(self.replies) < len(self.requests):
            return 'no_reply', f'{len(self.requests)} key request(s), {len(self.replies)} answered'
        for (key, rand, ediv), reply in zip(self.requests, self.replies):
            if reply is None:
                return 'negative_reply', (f'central encrypts with {key.hex()} (rand={rand.hex()} ediv={ediv}); '
                                          f'the peripheral host has no key for that request')
            if reply != key:
                return 'different_key', (f'central encrypts with {key.hex()} (rand={rand.hex()} ediv={ediv}); '
                                         f'the peripheral answers its controller with {reply.hex()}')
        return None


def snapshot_store(device):
    return {name: copy.deepcopy(keys.to_dict()) for name, keys in device.keystore.all_keys.items()}


def key_objects(keys: PairingKeys):
    out = []
    for name in ('ltk', 'ltk_central', 'ltk_peripheral', 'irk', 'csrk', 'link_key'):
        k = getattr(keys, name)
        if k is not None:
            out.append((name, k))
    return out


def _site(exc) -> str:
    tb = getattr(exc, '__traceback__', None)
    site = '?'
    while tb is not None:
        fn = tb.tb_frame.f_code.co_filename
        if '/bumble/' in fn:
            site = f'{fn.split("/bumble/")[-1]}:{tb.tb_frame.f_code.co_name}'
        tb = tb.tb_next
    return site


ROUND_KEYS = ('c', 'p', 'start', 'ans_c', 'ans_p', 'pk', 'fault')
OOB_SIDE_STATES = ('none', 'own', 'peer', 'bad')  # no OOB config / own context only / peer's data / foreign data
BETWEEN = ('same_link', 'reconnect_same', 'reconnect_swapped')


def _norm_round(r) -> dict:
    out = {k: r[k] for k in ROUND_KEYS}
    out['c'] = dict(r['c'])
    out['p'] = dict(r['p'])
    out['ans_c'] = dict(r['ans_c'])
    out['ans_p'] = dict(r['ans_p'])
    out['fault'] = list(r['fault']) if r.get('fault') else None
    if r.get('oob'):
        out['oob'] = dict(r['oob'])
    return out


def norm_case(case) -> dict:
    c = _norm_round(case)
    for k in ('prebond', 'reconnect', 'seed'):
        c[k] = case[k]
    c['delays_c'] = list(case.get('delays_c') or [])
    c['delays_p'] = list(case.get('delays_p') or [])
    if case.get('again'):
        c['again'] = _norm_round(case['again'])
        c['again']['between'] = case['again']['between']
        if c['again']['between'] not in BETWEEN:
            raise ValueError(c['again']['between'])
    c['kind'] = 'pair'
    return c


def run_pair_case(ctx, case, digest_out=None) -> None:
    case = norm_case(case)
    with deterministic(case['seed']):
        loop = vloop.new_loop()
        try:
            _run_pair_case(ctx, case, loop, digest_out)
        finally:
            loop.shutdown()


def config_reference(cfg_c, cfg_p, oob):
    """(method, passkey roles, sc) the two configurations lead to (Tables 2.6-2.8); for the OOB data
    flags: a legacy-only side sets its flag whenever it has an OOB configuration, an SC side when it
    holds data of the peer (how PairingConfig.OobConfig is read by Session.__init__)."""
    sc = cfg_c['sc'] and cfg_p['sc']

    def flag(side, cfg):
        state = oob[side] if oob else 'none'
        if state == 'none':
            return False
        return (not cfg['sc']) or state in ('peer', 'bad')

    fi, fr = flag('c', cfg_c), flag('p', cfg_p)
    if (fi or fr) if sc else (fi and fr):
        return OOB, None, sc
    if not cfg_c['mitm'] and not cfg_p['mitm']:
        return JW, None, sc
    method, roles = TABLE_2_8[cfg_p['io']][cfg_c['io']][1 if sc else 0]
    return method, roles, sc


def _setup_world(case, loop) -> dict:
    st_: dict = {}

    async def setup():
        w = world.World(2, delays=[case['delays_c'], case['delays_p']])
        for n in w.nodes:
            add_encryption_hold(n.tap)
        await w.power_on()
        conn_c, conn_p = await w.connect_le(0, 1)
        if not all(hasattr(n.device.keystore, 'all_keys') for n in w.nodes):
            raise HarnessError('devices do not use an in-memory key store')
        st_.update(w=w, conn={'c': conn_c, 'p': conn_p})

    try:
        loop.complete(setup(), 120)
    except (vloop.Stalled, vloop.HorizonExceeded, vloop.BudgetExceeded) as e:
        raise HarnessError(f'C13 set-up (power on + LE connection) did not finish: {type(e).__name__}')
    if st_['conn']['c'].is_encrypted or st_['conn']['p'].is_encrypted:
        raise HarnessError('fresh connection is already encrypted')
    return {'w': st_['w'], 'idx': {'c': 0, 'p': 1}, 'conn': st_['conn']}


def _run_pair_case(ctx, case, loop, digest_out) -> None:
    labels: set = set()
    env = _setup_world(case, loop)
    w = env['w']

    r1 = _pair_round(ctx, case, loop, env, case, '', labels, first=True)
    basis, tag = r1, ''
    rounds = [r1]
    again = case.get('again')
    if again:
        between = again['between']
        tag = f'again/{between}/'
        labels.add('again')
        labels.add(f'again:{between}')
        after = 'paired' if r1['paired'] else ('failed' if r1['failed'] else 'other')
        labels.add(f'again:after_{after}')
        labels.add(f'again:{between}:after_{after}')
        proceed = r1['hang'] is None
        if proceed and between != 'same_link':
            ci, pi = (0, 1) if between == 'reconnect_same' else (1, 0)
            r = _drop_and_connect(loop, w, env['conn'], ci, pi)
            if r.get('harness'):
                raise HarnessError(f'C13 second pairing, {between}: {r["harness"]}')
            env = {'w': w, 'idx': {'c': ci, 'p': pi}, 'conn': r['conn']}
            if env['conn']['c'].is_encrypted or env['conn']['p'].is_encrypted:
                raise HarnessError('fresh connection is already encrypted')
        if proceed:
            sub: set = set()
            r2 = _pair_round(ctx, case, loop, env, again, tag, sub, first=False)
            rounds.append(r2)
            for lab in sub:
                if lab.startswith(('method:', 'outcome:', 'cause:', 'expect:', 'start:')):
                    labels.add('again:' + lab)
            if r2['paired']:
                basis = r2
                if r1['paired']:
                    labels.add('again:paired_over_bond')
            elif r2['failed'] and r1['paired']:
                labels.add('again:failed_over_bond')  # the first bond must have survived: judged below
            elif not r2['failed']:
                basis = None  # hang or disagreement already reported; the stores are not judged further

    # -- reconnection: the stored keys of the last completed bonding must select one key on both sides
    reconnected = False
    if basis is not None and basis['paired'] and basis['bonded'] and case['reconnect'] and len(basis['entry']) == 2:
        reconnected = True
        env = _reconnect_phase(ctx, case, loop, env, basis, tag, labels)

    r_last = rounds[-1]
    asymmetric = any(any(r['cfg']['c'][k] != r['cfg']['p'][k] for k in ('io', 'sc', 'mitm', 'bond', 'ikd', 'rkd'))
                     for r in rounds)
    if asymmetric:
        labels.add('asymmetric')
    negative = any(bool(r['causes']) for r in rounds)
    nontrivial = asymmetric or negative or reconnected or len(rounds) > 1
    fp = ['pair', sorted(case['c'].items(), key=str), sorted(case['p'].items(), key=str), case['start'],
          sorted(case['ans_c'].items()), sorted(case['ans_p'].items()), case['fault'], case['prebond'],
          case['reconnect']]
    if case.get('oob'):
        fp.append(sorted(case['oob'].items()))
    if again:
        fp.append([again['between'], sorted(again['c'].items(), key=str), sorted(again['p'].items(), key=str),
                   again['start'], sorted(again['ans_c'].items()), sorted(again['ans_p'].items()), again['fault'],
                   sorted((again.get('oob') or {}).items())])
    if digest_out is not None:
        h = hashlib.blake2b(digest_size=16)
        for n in w.nodes:
            for _t, d, pkt in n.tap.log:
                h.update(d.encode() + pkt)
        digest_out.append(h.hexdigest())
    sample = {
        'central': r1['cfg']['c'], 'peripheral': r1['cfg']['p'], 'start': case['start'], 'method': r1['method'],
        'outcome': r1['out'], 'causes': r1['causes'], 'fault': case['fault'], 'reconnect': reconnected,
    }
    if case.get('oob'):
        sample['oob'] = case['oob']
    if again:
        sample['again'] = {'between': again['between'], 'central': r_last['cfg']['c'],
                           'peripheral': r_last['cfg']['p'], 'method': r_last['method'],
                           'outcome': r_last['out'], 'causes': r_last['causes']}
    ctx.case(tuple(fp), nontrivial, labels, sample=sample)


def _pair_round(ctx, case, loop, env, rnd, tag, labels, first) -> dict:
    """One pairing between the central and the peripheral of env['conn'], judged against the property.

    rnd holds the inputs of this pairing (configurations per role, answers, start, fault, OOB state);
    tag prefixes the signatures of a second pairing ('again/<between>/'). Returns what later phases need.
    """
    cfg = {'c': rnd['c'], 'p': rnd['p']}
    ans = {'c': rnd['ans_c'], 'p': rnd['ans_p']}
    oob = rnd.get('oob')
    w = env['w']
    node = {'c': w[env['idx']['c']], 'p': w[env['idx']['p']]}
    conn = env['conn']

    def fail(sig, what):
        ctx.fail(tag + sig, what, case)

    # -- reference for this configuration (from the configuration; re-derived from the wire below)
    ref_method, ref_roles, sc_cfg = config_reference(cfg['c'], cfg['p'], oob)

    # -- OOB material of this pairing (own contexts, what each side holds about the other)
    oob_config = {'c': None, 'p': None}
    if oob:
        contexts = {s: smp.OobContext() for s in 'cp'}
        foreign = smp.OobContext()
        tk_c = smp.OobLegacyContext()
        tks = {'c': tk_c, 'p': tk_c if oob['tk'] == 'same' else smp.OobLegacyContext()}
        for s, o in (('c', 'p'), ('p', 'c')):
            if oob[s] == 'none':
                continue
            peer_data = None
            if oob[s] == 'peer':
                peer_data = contexts[o].share()
            elif oob[s] == 'bad':
                peer_data = foreign.share()
            oob_config[s] = PairingConfig.OobConfig(
                our_context=contexts[s], peer_data=peer_data, legacy_context=tks[s]
            )
        labels.add('oob')

    shared = {
        'pk': rnd['pk'], 'both_input': ref_roles == 'both_input',
        'displayed': {'c': loop.create_future(), 'p': loop.create_future()},
    }
    delegates = {}
    for side in 'cp':
        d = UserDelegate(side, cfg[side], ans[side], shared)
        delegates[side] = d
        config = PairingConfig(
            sc=cfg[side]['sc'], mitm=cfg[side]['mitm'], bonding=cfg[side]['bond'], delegate=d,
            identity_address_type=(None if cfg[side]['id'] is None else PairingConfig.AddressType(cfg[side]['id'])),
            oob=oob_config[side],
        )
        node[side].device.pairing_config_factory = lambda connection, config=config: config
    link_addr = {'c': conn['p'].peer_address, 'p': conn['c'].peer_address}  # address of each side on the link

    # -- pre-existing bond (synthetic), under both addresses the peer could be known by
    if first and case['prebond']:
        for side, other in (('c', 'p'), ('p', 'c')):
            for j, addr in enumerate((link_addr[other], node[other].controller.public_address)):
                if isinstance(addr, str):
                    addr = hci.Address(addr, hci.Address.PUBLIC_DEVICE_ADDRESS)
                node[side].device.keystore.all_keys[str(addr)] = PairingKeys(
                    ltk=PairingKeys.Key(value=bytes([0xA0 + j + (8 if side == 'p' else 0)]) * 16, authenticated=True)
                )
        labels.add('prebond')
    before = {s: snapshot_store(node[s].device) for s in 'cp'}
    before_obj = {s: dict(node[s].device.keystore.all_keys) for s in 'cp'}

    # -- observers
    events = {'c': [], 'p': []}
    listeners = []
    for s in 'cp':
        on_pairing = lambda keys, s=s: events[s].append(('pairing', keys))  # noqa: E731
        on_failure = lambda reason, s=s: events[s].append(('failure', int(reason)))  # noqa: E731
        conn[s].on('pairing', on_pairing)
        conn[s].on('pairing_failure', on_failure)
        listeners.append((conn[s], 'pairing', on_pairing))
        listeners.append((conn[s], 'pairing_failure', on_failure))
    emu = LtkEmulation(node['c'], node['p'], conn['p'].handle)
    fault = None
    if rnd['fault']:
        sender, code_name, nth, index, mask = rnd['fault']
        fault = FaultFilter(FAULT_CODES[code_name], nth, index, mask)
        node[sender].tap.filters.append(fault)
    marks = {s: len(node[s].tap.log) for s in 'cp'}
    result: dict = {}

    async def pair_phase():
        if rnd['start'] == 'secreq':
            fut = loop.create_future()
            conn['c'].once('security_request', lambda auth_req: fut.done() or fut.set_result(auth_req))
            node['p'].device.request_pairing(conn['p'])
            await fut
        try:
            await node['c'].device.pair(conn['c'])
            result['pair'] = ('ok',)
        except asyncio.CancelledError:
            raise
        except Exception as e:  # noqa: BLE001 - pair() raising is how the initiator reports failure
            result['pair'] = ('raised', type(e).__name__, str(e)[:100])

    hang = None
    n_errors = len(loop.errors)
    try:
        loop.complete(pair_phase(), H_PAIR)
    except vloop.Stalled:
        hang = 'stalled'
    except vloop.HorizonExceeded:
        hang = 'horizon'
    except vloop.BudgetExceeded:
        hang = 'budget'
    if hang != 'budget':
        try:
            loop.complete(asyncio.sleep(SETTLE), SETTLE * 4)
        except (vloop.Stalled, vloop.HorizonExceeded, vloop.BudgetExceeded):
            pass
    if fault is not None and fault in node[rnd['fault'][0]].tap.filters:
        node[rnd['fault'][0]].tap.filters.remove(fault)
    for emitter, name, fn in listeners:
        emitter.remove_listener(name, fn)

    # -- what crossed the wire
    pdus = {s: [p for _i, p in smp_pdus(node[s].tap, marks[s])] for s in 'cp'}
    preq = next((p for p in pdus['c'] if p[0] == 0x01), None)
    pres = next((p for p in pdus['p'] if p[0] == 0x02), None)
    method, roles, sc = ref_method, ref_roles, sc_cfg
    if preq is not None and pres is not None and len(preq) == 7 and len(pres) == 7:
        method, roles, sc = reference_method(preq, pres)
        if (method, roles, sc) != (ref_method, ref_roles, sc_cfg):
            if oob:
                # how an OOB configuration maps to the OOB data flag is not the property's business:
                # the wire decides; the floor on 'oob:flags_as_configured' keeps the generator honest
                labels.add('oob:flags_differ_from_configuration')
            else:
                fail('negotiation/wire_differs_from_configuration',
                     f'request/response on the wire ({preq.hex()} / {pres.hex()}) give {method}/{roles}/sc={sc}; the '
                     f'configurations give {ref_method}/{ref_roles}/sc={sc_cfg}')
        elif oob:
            labels.add('oob:flags_as_configured')
    started = preq is not None and pres is not None
    labels.add(f'io:{cfg["c"]["io"]}x{cfg["p"]["io"]}:{"sc" if sc_cfg else "legacy"}')
    labels.add(f'method:{ref_method}')
    labels.add(f'start:{rnd["start"]}')
    if first and case['reconnect']:
        labels.add('reconnect_requested')
    if first and (case['delays_c'] and any(case['delays_c']) or case['delays_p'] and any(case['delays_p'])):
        labels.add('delayed')

    # -- causes that oblige the pairing to fail (from what the users were really asked)
    causes = []
    asked = {s: delegates[s].asked for s in 'cp'}
    for s in 'cp':
        for a in asked[s]:
            if a[0] == 'accept' and not a[1]:
                causes.append('reject')
            elif a[0] == 'confirm' and not a[1]:
                causes.append('confirm_no')
            elif a[0] == 'compare' and not a[1]:
                causes.append('compare_no')
            elif a[0] == 'input' and a[1] is None:
                causes.append('passkey_none')
    inputs = [a[1] for s in 'cp' for a in asked[s] if a[0] == 'input' and a[1] is not None]
    displays = [a[1] for s in 'cp' for a in asked[s] if a[0] == 'display']
    if inputs and len(set(inputs + displays)) > 1:
        causes.append('passkey_wrong')
    if oob and started and method == OOB:
        # the OOB confirm value / TK each side holds about the other does not match what the other uses
        if (sc and 'bad' in (oob['c'], oob['p'])) or (not sc and oob['tk'] != 'same'):
            causes.append('oob_mismatch')
    # Legacy pairing in which Table 2.6 does not select OOB although a side has an OOB TK configured:
    # the statement does not say what becomes of a TK that has no use (Bumble keeps it as the Just Works
    # TK, so two sides with different left-over TKs fail); both endings are accepted, agreement is not.
    may_fail = False
    if oob and started and not sc and method != OOB:
        tk_of = {s: None if oob[s] == 'none' else ('A' if s == 'c' or oob['tk'] == 'same' else 'B') for s in 'cp'}
        if tk_of['c'] != tk_of['p']:
            may_fail = True
            labels.add('oob:legacy_tk_left_over')
    if fault is not None and fault.applied:
        causes.append(f'corrupt_{rnd["fault"][1]}')
        labels.add('cause:corrupt')
    elif fault is not None:
        labels.add('fault_not_applicable')
    for c in causes:
        labels.add(f'cause:{c}')
    cause = causes[0] if causes else None

    # -- outcome per side
    def outcome(s):
        kinds = {e[0] for e in events[s]}
        if kinds == {'pairing'}:
            return 'paired'
        if kinds == {'failure'}:
            return 'failed'
        if not kinds:
            return 'none'
        return 'both'

    out = {s: outcome(s) for s in 'cp'}
    err = ''
    if len(loop.errors) > n_errors:
        exc = loop.errors[n_errors].get('exception')
        err = (f'{_site(exc)}:{type(exc).__name__}' if exc is not None
               else str(loop.errors[n_errors].get('message'))[:60])
    phase = 'before_response' if not started else ('sc' if sc else 'legacy') + '/' + method
    # a second pairing is bucketed by its history (the tag), not again by the model it happened to use
    detail = (err or cause or phase) if first else (err or 'no_exception')
    ok = True
    if hang is not None:
        ok = False
        fail(f'hang/pair/{detail}',
             f'pair() never finished ({hang}); central: {out["c"]}, peripheral: {out["p"]}; cause: {causes}; '
             f'model: {phase}; first escaped exception: {err or "none"}')
    elif 'both' in out.values() or any(len(events[s]) > 1 for s in 'cp'):
        ok = False
        fail(f'agreement/several_outcomes_on_one_side/{phase if first else "any"}',
             f'central events {[(e[0]) for e in events["c"]]}, peripheral events {[(e[0]) for e in events["p"]]}')
    elif out['c'] != out['p'] or out['c'] == 'none':
        ok = False
        fail(f'agreement/central_{out["c"]}_peripheral_{out["p"]}/{detail}',
             f'central reports {out["c"]} (pair(): {result.get("pair")}), peripheral reports {out["p"]}; '
             f'cause: {causes}; model: {phase}; first escaped exception: {err or "none"}')
    elif (out['c'] == 'paired') != (result.get('pair') == ('ok',)):
        ok = False
        fail(f'agreement/pair_result_contradicts_event/{out["c"]}',
             f'central emitted {out["c"]} but pair() ended with {result.get("pair")}')
    paired = ok and out['c'] == 'paired'
    failed = ok and out['c'] == 'failed'
    if paired:
        labels.add('outcome:paired')
    if failed:
        labels.add('outcome:failed')

    # -- must-fail causes never yield a pairing
    if cause and (out['c'] == 'paired' or out['p'] == 'paired'):
        fail(f'must_fail_but_paired/{cause}',
             f'{causes}: central {out["c"]}, peripheral {out["p"]}')
    if failed and not cause and not may_fail:
        fail(f'spurious_failure/{phase}',
             f'every answer was positive and nothing was corrupted, yet both sides report failure '
             f'(reasons {[e[1] for s in "cp" for e in events[s]]}, pair(): {result.get("pair")})')

    # -- one shared key while pairing
    v = emu.verdict()
    if v is not None:
        fail(f'pairing_key/{v[0]}/{"sc" if sc else "legacy"}', f'while pairing ({method}): {v[1]}')
    n_enc_requests = len(emu.requests)
    last_request_key = emu.requests[-1][0] if emu.requests else None
    emu.detach()

    after = {s: snapshot_store(node[s].device) for s in 'cp'}
    other = {'c': 'p', 'p': 'c'}

    # -- failure leaves nothing
    if not paired:
        for s in 'cp':
            if after[s] != before[s]:
                changed = sorted(set(after[s]) | set(before[s]))
                changed = [n for n in changed if after[s].get(n) != before[s].get(n)]
                fail(f'failure_stores_keys/{"central" if s == "c" else "peripheral"}/{cause or "no_cause"}',
                     f'pairing did not complete (central {out["c"]}, peripheral {out["p"]}, cause {causes}) but the '
                     f'{"central" if s == "c" else "peripheral"}\'s store gained or changed {changed}')

    # -- interactions follow the prescribed roles
    if started and hang is None:
        disp = {s: any(a[0] == 'display' for a in asked[s]) for s in 'cp'}
        inp = {s: any(a[0] == 'input' for a in asked[s]) for s in 'cp'}
        cmpd = {s: any(a[0] == 'compare' for a in asked[s]) for s in 'cp'}
        if method == PK:
            want_disp = {'i': {'c': True, 'p': False}, 'r': {'c': False, 'p': True},
                         'both_input': {'c': False, 'p': False}}[roles]
            # a side that fails early may not have been prompted yet: only contradictions count
            for s in 'cp':
                if disp[s] and not want_disp[s]:
                    fail(f'roles/displays_but_must_input/{roles}',
                         f'passkey entry ({roles}): the {"central" if s == "c" else "peripheral"} displayed a passkey')
                if inp[s] and want_disp[s]:
                    fail(f'roles/inputs_but_must_display/{roles}',
                         f'passkey entry ({roles}): the {"central" if s == "c" else "peripheral"} asked for a passkey')
            if paired:
                for s in 'cp':
                    if want_disp[s] != disp[s] or (not want_disp[s]) != inp[s]:
                        fail(f'roles/not_complementary/{roles}',
                             f'passkey entry ({roles}) completed with displays={disp} inputs={inp}')
        else:
            if any(disp.values()) or any(inp.values()):
                fail(f'roles/passkey_prompt_in_{method}', f'{method}: displays={disp} inputs={inp}')
        if method == NC and paired:
            if not (cmpd['c'] and cmpd['p']):
                fail('roles/numeric_comparison_not_asked', f'numeric comparison completed, asked: {cmpd}')
            nums = [a[2] for s in 'cp' for a in asked[s] if a[0] == 'compare']
            if len(set(nums)) > 1:
                fail('roles/numeric_comparison_values_differ', f'the two sides showed {nums}')
        if method != NC and any(cmpd.values()):
            fail(f'roles/numeric_comparison_in_{method}', f'{method}: compare_numbers asked: {cmpd}')

    # -- negotiation sanity
    if started:
        want_i = preq[5] & cfg['p']['ikd']
        want_r = preq[6] & cfg['p']['rkd']
        if preq[5] != cfg['c']['ikd'] or preq[6] != cfg['c']['rkd']:
            fail('keydist/request_differs_from_configuration',
                 f'request offers {preq[5]:#x}/{preq[6]:#x}, configured {cfg["c"]["ikd"]:#x}/{cfg["c"]["rkd"]:#x}')
        if (pres[5], pres[6]) != (want_i, want_r):
            fail('keydist/response_not_intersection',
                 f'response {pres[5]:#x}/{pres[6]:#x}; intersection of both configurations {want_i:#x}/{want_r:#x}')
        if paired:
            for s, want in (('c', want_i), ('p', want_r)):
                sent = {p[0] for p in pdus[s] if 0x06 <= p[0] <= 0x0A}
                expect = set()
                if want & ENC and not sc:
                    expect |= {0x06, 0x07}
                if want & ID:
                    expect |= {0x08, 0x09}
                if want & SIGN:
                    expect |= {0x0A}
                if sent != expect:
                    fail(f'keydist/wire_mismatch/{"initiator" if s == "c" else "responder"}/{"sc" if sc else "legacy"}',
                         f'negotiated {want:#x}: expected PDUs {sorted(SMP_NAMES[x] for x in expect)}, '
                         f'sent {sorted(SMP_NAMES[x] for x in sent)}')

    # -- success: encrypted, stored under the distributed identity, honest authentication
    want_auth = method in MITM_METHODS
    entry = {}
    if paired:
        for s in 'cp':
            if not conn[s].is_encrypted:
                fail('paired_but_not_encrypted', f'{"central" if s == "c" else "peripheral"} link not encrypted')
        if n_enc_requests == 0:
            fail('paired_without_encryption_request', 'pairing completed without LE Enable Encryption')
        for s in 'cp':
            o = other[s]
            ida = next((p for p in pdus[o] if p[0] == 0x09), None)
            if ida is not None:
                ident = hci.Address(ida[2:8], ida[1])
                want_type = cfg[o]['id']
                if want_type is None:
                    want_type = 0  # the controllers of the world have a public address
                if ida[1] != want_type:
                    fail('identity/wrong_type', f'identity_address_type {cfg[o]["id"]}: distributed {ident!r}')
                labels.add(f'identity:{"public" if ida[1] == 0 else "random"}')
            else:
                ident = link_addr[o]
                labels.add('identity:not_distributed')
            name = str(ident)
            keys = node[s].device.keystore.all_keys.get(name)
            who = 'central' if s == 'c' else 'peripheral'
            # (a second bonding may legitimately store an entry equal to the one it replaces, e.g. no key
            # distributed either time: then only an entry that was not written at all counts)
            if keys is None or (after[s].get(name) == before[s].get(name)
                                and (first or keys is before_obj[s].get(name))):
                fail(f'store/no_entry_under_identity/{who}',
                     f'{who} store has no new entry under {name} (entries: {sorted(after[s])})')
                continue
            entry[s] = keys
            for kname, k in key_objects(keys):
                if k.authenticated and not want_auth:
                    fail(f'auth/key_overclaims/{method}', f'{who} stored {kname} authenticated=True after {method}')
                if not k.authenticated and want_auth:
                    fail(f'auth/key_underclaims/{method}', f'{who} stored {kname} authenticated=False after {method}')
            for e in events[s]:
                for kname, k in key_objects(e[1]):
                    if k.authenticated != want_auth:
                        fail(f'auth/event_key_{"over" if k.authenticated else "under"}claims/{method}',
                             f'{who} pairing event: {kname} authenticated={k.authenticated} after {method}')
            if conn[s].authenticated and not want_auth:
                fail(f'auth/connection_overclaims/{method}',
                     f'{who} connection.authenticated is True after {method} pairing')
            if not conn[s].authenticated and want_auth:
                fail(f'auth/connection_underclaims/{method}',
                     f'{who} connection.authenticated is False after {method} pairing')
        if sc and 'c' in entry and 'p' in entry:
            lc, lp = entry['c'].ltk, entry['p'].ltk
            if lc is None or lp is None or lc.value != lp.value:
                fail('store/sc_ltk_differs', f'central stored {lc}, peripheral stored {lp}')
            elif last_request_key is not None and last_request_key != lc.value:
                fail('store/sc_ltk_not_link_key', 'stored LTK is not the key the link was encrypted with')

    # classes of the generated input (independent of what the stack did): used for the floors
    gen = []
    if not ans['p']['accept']:
        gen.append('reject')
    if ref_method == NC and not (ans['c']['compare'] and ans['p']['compare']):
        gen.append('compare_no')
    if ref_method == PK:
        typists = {'i': 'p', 'r': 'c', 'both_input': 'cp'}[ref_roles]
        typed = [ans[s]['passkey'] for s in typists]
        if 'none' in typed:
            gen.append('passkey_none')
        if 'wrong' in typed and typed != ['wrong', 'wrong']:
            gen.append('passkey_wrong')
        flips = [t for t in typed if t.startswith('flip')]
        if flips and not (len(typed) == 2 and typed[0] == typed[1]):
            gen.append('passkey_one_bit')
            labels.add(f'pkbit:{"sc" if sc_cfg else "legacy"}:{ref_roles}')
            if any(int(t[4:]) >= 16 for t in flips):
                labels.add('pkbit:high')
    if ref_method == OOB:
        labels.add(f'oob:{"sc" if sc_cfg else "legacy"}')
        if sc_cfg and (oob['c'] in ('peer', 'bad')) != (oob['p'] in ('peer', 'bad')):
            labels.add('oob:sc:one_sided')
        if (sc_cfg and 'bad' in (oob['c'], oob['p'])) or (not sc_cfg and oob['tk'] != 'same'):
            gen.append('oob_mismatch')
    if rnd['fault']:
        gen.append('corrupt')
    for e in gen:
        labels.add(f'expect:{e}')
    if not gen:
        labels.add('expect:success')

    return {
        'cfg': cfg, 'paired': paired, 'failed': failed, 'hang': hang, 'out': out, 'causes': causes,
        'method': method, 'roles': roles, 'sc': sc, 'pres': pres, 'entry': entry,
        'bonded': cfg['c']['bond'] and cfg['p']['bond'], 'idx': dict(env['idx']),
    }


def _reconnect_phase(ctx, case, loop, env, basis, tag, labels) -> dict:
    """After a completed bonding (basis): drop the link, come back in the same and in swapped roles
    (relative to the roles of that bonding), let the new central encrypt and compare the two keys."""
    w = env['w']
    conn = env['conn']
    sc, pres = basis['sc'], basis['pres']
    bc, bp = basis['idx']['c'], basis['idx']['p']

    def fail(sig, what):
        ctx.fail(tag + sig, what, case)

    enc_same = bool(pres[6] & ENC)  # responder's LTK distributed (legacy)
    enc_swapped = bool(pres[5] & ENC)  # initiator's LTK distributed (legacy)
    for arrangement, (ci, pi), has_key in (('same', (bc, bp), sc or enc_same), ('swapped', (bp, bc), sc or enc_swapped)):
        r = _reconnect(loop, w, conn, ci, pi)
        labels.add(f'reconnect:{arrangement}')
        t = f'{"sc" if sc else "legacy"}/{arrangement}'
        if r.get('harness'):
            raise HarnessError(f'C13 reconnection phase: {r["harness"]}')
        if r['hang']:
            fail(f'reconnect/encrypt_hangs/{t}', f'encrypt() never finished ({r["hang"]})')
            break
        v = r['emu'].verdict()
        if v is not None:
            fail(f'reconnect/key_mismatch/{t}',
                 f'{arrangement} roles after {"SC" if sc else "legacy"} bonding (key distribution '
                 f'{pres[5]:#x}/{pres[6]:#x}, LTK for this arrangement '
                 f'{"was" if has_key else "was not"} distributed): {v[1]}')
        elif not r['emu'].requests:
            labels.add(f'reconnect:{arrangement}:no_request')
            if has_key:
                fail(f'reconnect/no_key_for_central/{t}',
                     f'{arrangement} roles after {"SC" if sc else "legacy"} bonding (key distribution '
                     f'{pres[5]:#x}/{pres[6]:#x}): the new central cannot encrypt: {r["result"]}')
        else:
            labels.add(f'reconnect:{arrangement}:same_key')
            if not has_key:
                labels.add(f'reconnect:{arrangement}:key_without_distribution')
            # observation only (the statement speaks of the keys, not of the link flag after re-encryption):
            if basis['method'] not in MITM_METHODS and (r['conn']['c'].authenticated or r['conn']['p'].authenticated):
                labels.add('observed:link_authenticated_after_reencryption_with_unauthenticated_key')
        conn = r['conn']
        env = {'w': w, 'idx': {'c': ci, 'p': pi}, 'conn': conn}
    labels.add('reconnected')
    return env


def _drop_and_connect(loop, w, conn, ci, pi) -> dict:
    """Drops the link and reconnects with node ci as central."""
    r: dict = {'conn': conn}

    async def drop_and_connect():
        old = conn['c']
        try:
            await old.disconnect()
        except Exception as e:  # noqa: BLE001
            r['harness'] = f'disconnect failed: {e!r}'
            return
        await asyncio.sleep(2.0)
        c2, p2 = await w.connect_le(ci, pi)
        r['conn'] = {'c': c2, 'p': p2}

    try:
        loop.complete(drop_and_connect(), 300)
    except (vloop.Stalled, vloop.HorizonExceeded, vloop.BudgetExceeded) as e:
        r['harness'] = f'reconnection did not finish ({type(e).__name__})'
    return r


def _reconnect(loop, w, conn, ci, pi):
    """Drops the link, reconnects with node ci as central, encrypts; returns what happened."""
    r: dict = {'hang': None, 'result': None, 'emu': None, 'conn': conn}
    d = _drop_and_connect(loop, w, conn, ci, pi)
    r['conn'] = d['conn']
    if d.get('harness'):
        r['harness'] = d['harness']
        return r
    c2, p2 = r['conn']['c'], r['conn']['p']
    emu = LtkEmulation(w[ci], w[pi], p2.handle)
    r['emu'] = emu

    async def encrypt():
        try:
            await w[ci].device.encrypt(c2)
            r['result'] = 'ok'
        except asyncio.CancelledError:
            raise
        except Exception as e:  # noqa: BLE001 - "no key" is reported by raising
            r['result'] = f'{type(e).__name__}: {e}'
        await asyncio.sleep(5.0)

    try:
        loop.complete(encrypt(), 300)
    except vloop.Stalled:
        r['hang'] = 'stalled'
    except vloop.HorizonExceeded:
        r['hang'] = 'horizon'
    except vloop.BudgetExceeded:
        r['hang'] = 'budget'
    emu.detach()
    return r


# ---------------------------------------------------------------------------
# generators
# ---------------------------------------------------------------------------
MASKS = st.one_of(st.integers(0, 15), st.sampled_from([3, 3, 7, 15, 1, 2, 0]))
DELAYS = st.lists(st.sampled_from([0, 0, 0, 1, 7, 50]), min_size=0, max_size=5)
PASSKEYS = st.one_of(st.sampled_from([0, 1, 999999, 123456, 524288]), st.integers(0, 999999))


def side_cfg(io, sc):
    return st.fixed_dictionaries({
        'io': st.just(io), 'sc': st.just(sc), 'mitm': st.sampled_from([True, True, False]), 'bond': st.booleans(),
        'ikd': MASKS, 'rkd': MASKS, 'id': st.sampled_from([None, 0, 1]),
    })


def answers(negative: bool):
    if not negative:
        return st.fixed_dictionaries({
            'accept': st.just(True), 'confirm': st.just(True), 'compare': st.just(True),
            'passkey': st.just('right'), 'think': st.sampled_from([0, 0, 0.05, 2.0]),
        })
    return st.fixed_dictionaries({
        'accept': st.sampled_from([True, True, True, False]),
        'confirm': st.sampled_from([True, True, False]),
        'compare': st.sampled_from([True, True, False]),
        'passkey': st.sampled_from(['right', 'right', 'wrong', 'none']),
        'think': st.sampled_from([0, 0, 0.05, 2.0]),
    })


def fault_strategy(sc: bool):
    codes = ['confirm', 'random'] + (['public_key', 'dhkey_check', 'dhkey_check'] if sc else [])
    return st.tuples(
        st.sampled_from(['c', 'p']), st.sampled_from(codes), st.sampled_from([1, 1, 1, 2, 7, 20]),
        st.integers(0, 63), st.sampled_from([0x01, 0x80, 0xFF, 0x10]),
    ).map(list)


def pair_case_strategy(io_c: int, io_p: int, sc: bool, flavour: str):
    """flavour: 'plain' (answers positive), 'negative' (answers may be negative), 'fault', 'reconnect'."""
    if sc:
        scs = st.just((True, True))
    else:
        scs = st.sampled_from([(False, False), (False, False), (True, False), (False, True)])

    def build(d):
        (sc_c, sc_p), c, p = d['scs'], dict(d['c']), dict(d['p'])
        c['sc'], p['sc'] = sc_c, sc_p
        if flavour == 'reconnect':
            c['bond'] = p['bond'] = True
            # the link address must be the identity (see ASSUMPTIONS)
            c['id'] = p['id'] = 1
            if d['enc_bias']:
                for m in (c, p):
                    m['ikd'] |= ENC if d['enc_bias'] & 1 else 0
                    m['rkd'] |= ENC if d['enc_bias'] & 2 else 0
        fault = None
        if flavour == 'fault':
            fault = list(d['fault'])
            both_sc = sc_c and sc_p
            if not (c['mitm'] or p['mitm']):
                method = JW
            else:
                method = TABLE_2_8[p['io']][c['io']][1 if both_sc else 0][0]
            if method != PK or not both_sc:
                fault[2] = 1  # one Confirm/Random per side outside SC passkey entry
            if both_sc and method != PK and fault[1] == 'confirm':
                fault[0] = 'p'  # only the responder commits in SC just works / numeric comparison
        return {
            'kind': 'pair', 'c': c, 'p': p, 'start': d['start'], 'ans_c': d['ans_c'], 'ans_p': d['ans_p'],
            'pk': d['pk'], 'delays_c': d['delays_c'], 'delays_p': d['delays_p'],
            'fault': fault,
            'prebond': d['prebond'], 'reconnect': flavour == 'reconnect', 'seed': d['seed'],
        }

    neg = flavour == 'negative'
    return st.fixed_dictionaries({
        'scs': scs, 'c': side_cfg(io_c, sc), 'p': side_cfg(io_p, sc),
        'start': st.sampled_from(['pair', 'pair', 'secreq']),
        'ans_c': answers(neg), 'ans_p': answers(neg), 'pk': PASSKEYS,
        'delays_c': DELAYS, 'delays_p': DELAYS, 'fault': fault_strategy(sc),
        'prebond': st.sampled_from([False, False, True]), 'seed': st.integers(0, 2**32 - 1),
        'enc_bias': st.sampled_from([0, 1, 2, 3, 3]),
    }).map(build)


def _fix_fault(fault, c, p):
    """Aims a drawn fault at a PDU that exists in the pairing of central c / peripheral p."""
    fault = list(fault)
    both_sc = c['sc'] and p['sc']
    if not (c['mitm'] or p['mitm']):
        method = JW
    else:
        method = TABLE_2_8[p['io']][c['io']][1 if both_sc else 0][0]
    if method != PK or not both_sc:
        fault[2] = 1  # one Confirm/Random per side outside SC passkey entry
    if both_sc and method != PK and fault[1] == 'confirm':
        fault[0] = 'p'  # only the responder commits in SC just works / numeric comparison
    return fault


DEVICE_CFG = st.fixed_dictionaries({
    'io': st.integers(0, 4), 'sc': st.sampled_from([True, True, False]), 'mitm': st.sampled_from([True, True, False]),
    'ikd': MASKS, 'rkd': MASKS,
})
DEVICE_CHANGE = st.one_of(
    st.none(),
    st.fixed_dictionaries({'sc': st.booleans(), 'mitm': st.booleans(), 'ikd': MASKS, 'rkd': MASKS}),
)
SECOND_ANSWERS = st.one_of(answers(False), answers(False), answers(False), answers(True))


def again_case_strategy(between: str, first: str):
    """Two pairings of the same two devices: the first one is aimed at failing (first='fail': rejected,
    negative answers or a corrupted PDU) or at completing (first='ok'); the second one follows on the same
    link, or after a disconnection on a new link in the same or in swapped roles. Each device keeps its IO
    capability; sc/mitm/key-distribution masks may change between the two. Bonding on, identity = the
    static random address (see ASSUMPTIONS), so a completed bonding can be followed over reconnections."""

    def build(d):
        dev = [dict(d['dev0'], bond=True, id=1), dict(d['dev1'], bond=True, id=1)]
        dev2 = [dict(dev[i], **(d[f'chg{i}'] or {})) for i in (0, 1)]
        ci, pi = (1, 0) if between == 'reconnect_swapped' else (0, 1)
        ans_c, ans_p = dict(d['ans_c']), dict(d['ans_p'])
        fault = None
        if first == 'fail':
            if d['how'] == 'reject':
                ans_p['accept'] = False
            elif d['how'] == 'answers':
                ans_p.update(confirm=False, compare=False, passkey='none')
                ans_c.update(passkey='wrong')
            else:
                fault = _fix_fault(d['fault'], dev[0], dev[1])
        ans2_c, ans2_p = dict(d['ans2_c']), dict(d['ans2_p'])
        if d['how2'] == 'reject':
            ans2_p['accept'] = False
        elif d['how2'] == 'answers':
            ans2_p.update(confirm=False, compare=False, passkey='none')
            ans2_c.update(passkey='wrong')
        return {
            'kind': 'pair', 'c': dev[0], 'p': dev[1], 'start': d['start'], 'ans_c': ans_c, 'ans_p': ans_p,
            'pk': d['pk'], 'delays_c': d['delays_c'], 'delays_p': d['delays_p'], 'fault': fault,
            'prebond': False, 'reconnect': d['reconnect'], 'seed': d['seed'],
            'again': {
                'between': between, 'c': dev2[ci], 'p': dev2[pi], 'start': d['start2'],
                'ans_c': ans2_c, 'ans_p': ans2_p, 'pk': d['pk2'], 'fault': None,
            },
        }

    return st.fixed_dictionaries({
        'dev0': DEVICE_CFG, 'dev1': DEVICE_CFG, 'chg0': DEVICE_CHANGE, 'chg1': DEVICE_CHANGE,
        'start': st.sampled_from(['pair', 'pair', 'secreq']), 'start2': st.sampled_from(['pair', 'pair', 'secreq']),
        'ans_c': answers(False), 'ans_p': answers(False), 'ans2_c': SECOND_ANSWERS, 'ans2_p': SECOND_ANSWERS,
        'how': st.sampled_from(['reject', 'answers', 'answers', 'fault']),
        'how2': st.sampled_from(['ok', 'ok', 'ok', 'ok', 'reject', 'answers']),
        'fault': st.booleans().flatmap(fault_strategy),
        'pk': PASSKEYS, 'pk2': PASSKEYS, 'delays_c': DELAYS, 'delays_p': DELAYS,
        'reconnect': st.sampled_from([True, True, True, False]), 'seed': st.integers(0, 2**32 - 1),
    }).map(build)


# (central, peripheral) OOB states: at least one side has a configuration; valid data about the peer
# presupposes that the peer has an OOB context
OOB_STATE_PAIRS = [(a, b) for a in OOB_SIDE_STATES for b in OOB_SIDE_STATES
                   if (a, b) not in (('none', 'none'), ('peer', 'none'), ('none', 'peer'))]


def oob_case_strategy(sc_c: bool, sc_p: bool, oc: str, op: str):
    """End-to-end pairings in which at least one side has an OOB configuration: own context only, valid
    data of the peer, or data of a foreign device; legacy TKs equal or different."""

    def build(d):
        c = dict(d['c'], sc=sc_c)
        p = dict(d['p'], sc=sc_p)
        oob = {'c': oc, 'p': op, 'tk': d['tk']}
        fault = None
        if d['with_fault']:
            fault = list(d['fault'])
            fault[2] = 1  # one Confirm / Random / Public Key / DHKey check per side in OOB pairing
        return {
            'kind': 'pair', 'c': c, 'p': p, 'start': d['start'], 'ans_c': d['ans_c'], 'ans_p': d['ans_p'],
            'pk': d['pk'], 'delays_c': d['delays_c'], 'delays_p': d['delays_p'], 'fault': fault,
            'prebond': d['prebond'], 'reconnect': d['reconnect'], 'seed': d['seed'], 'oob': oob,
        }

    side = st.fixed_dictionaries({
        'io': st.integers(0, 4), 'mitm': st.booleans(), 'bond': st.sampled_from([True, True, False]),
        'ikd': MASKS, 'rkd': MASKS, 'id': st.just(1),
    })
    ans = st.one_of(answers(False), answers(False), answers(False), answers(False), answers(True))
    return st.fixed_dictionaries({
        'c': side, 'p': side, 'tk': st.sampled_from(['same', 'same', 'differ']),
        'start': st.sampled_from(['pair', 'pair', 'secreq']), 'ans_c': ans, 'ans_p': ans, 'pk': PASSKEYS,
        'delays_c': DELAYS, 'delays_p': DELAYS, 'with_fault': st.sampled_from([False, False, False, False, True]),
        'fault': fault_strategy(sc_c and sc_p), 'prebond': st.sampled_from([False, False, True]),
        'reconnect': st.sampled_from([False, True]), 'seed': st.integers(0, 2**32 - 1),
    }).map(build)


PKBIT_IO = {'i': (DO, KO), 'r': (KO, DO), 'both_input': (KO, KO)}  # roles -> (central IO, peripheral IO)
PKBIT_BASES = (0, 999999, 123456, 524288, 65535)


def pkbit_cases(quick: bool):
    """Passkey entry in which one typist enters the displayed (or agreed) passkey with exactly bit k
    flipped: k = 0..19 x {legacy, SC} x the three role assignments of Table 2.8."""
    n = 0
    for k in range(20):
        for sc in (False, True):
            for ri, roles in enumerate(('i', 'r', 'both_input')):
                n += 1
                if quick and (k + ri) % 3:
                    continue
                base = PKBIT_BASES[(k + ri) % len(PKBIT_BASES)]
                if base ^ (1 << k) > 999999:
                    base %= 475712  # the typed value must remain a six-digit passkey
                io_c, io_p = PKBIT_IO[roles]
                side = {'sc': sc, 'mitm': True, 'bond': False, 'ikd': 3, 'rkd': 3, 'id': 1}
                yes = {'accept': True, 'confirm': True, 'compare': True, 'passkey': 'right', 'think': 0}
                typist = {'i': 'p', 'r': 'c', 'both_input': 'cp'[k % 2]}[roles]
                yield {
                    'kind': 'pair', 'c': dict(side, io=io_c), 'p': dict(side, io=io_p), 'start': 'pair',
                    'ans_c': dict(yes, passkey=f'flip{k}' if typist == 'c' else 'right'),
                    'ans_p': dict(yes, passkey=f'flip{k}' if typist == 'p' else 'right'),
                    'pk': base, 'delays_c': [], 'delays_p': [], 'fault': None, 'prebond': False,
                    'reconnect': False, 'seed': 7000 + n,
                }


# ---------------------------------------------------------------------------
def run(ctx) -> None:
    vloop.selftest()
    run_table(ctx)

    strata = [(i, r, sc) for i in range(5) for r in range(5) for sc in (False, True)]
    # per stratum: plain / negative answers / corrupted PDU / reconnection
    per = {
        'plain': ctx.n(10, 24000 // 50), 'negative': ctx.n(12, 18000 // 50),
        'fault': ctx.n(9, 12000 // 50), 'reconnect': ctx.n(7, 8000 // 50),
    }
    digests: list = []
    for k, (io_c, io_p, sc) in enumerate(strata):
        for flavour, n in per.items():
            name = f'pair/{io_c}{io_p}{"s" if sc else "l"}/{flavour}'
            first = []

            def one(case, first=first):
                if not first and flavour == 'plain' and k % 10 == 0:
                    # determinism self-check: the same case twice gives the same HCI history
                    first.append(1)
                    sub1, sub2 = [], []
                    probe = _Scratch()
                    run_pair_case(probe, case, sub1)
                    run_pair_case(probe, case, sub2)
                    if sub1 != sub2:
                        raise HarnessError('C13: a case is not reproducible from its plain data (DRBG patch incomplete)')
                    digests.append(sub1[0])
                run_pair_case(ctx, case)

            ctx.hyp(name, one, pair_case_strategy(io_c, io_p, sc, flavour), max_examples=n)
    ctx.extra['determinism_selfchecks'] = len(digests)

    # second pairings: on the same link / after a reconnection in the same / in swapped roles, after a
    # first pairing aimed at failing / at completing
    for between in BETWEEN:
        for first_kind in ('fail', 'ok'):
            ctx.hyp(f'again/{between}/{first_kind}', lambda case: run_pair_case(ctx, case),
                    again_case_strategy(between, first_kind), max_examples=ctx.n(14, 9600 // 6))

    # OOB association end to end
    for sc_c in (False, True):
        for sc_p in (False, True):
            for oc, op in OOB_STATE_PAIRS:
                ctx.hyp(f'oob/{"s" if sc_c else "l"}{"s" if sc_p else "l"}/{oc}/{op}',
                        lambda case: run_pair_case(ctx, case), oob_case_strategy(sc_c, sc_p, oc, op),
                        max_examples=ctx.n(3, 6400 // 13) if sc_c and sc_p else ctx.n(2, 3200 // 13))

    # wrong passkeys that differ from the right one in a single bit (enumerated; every shard runs all of them)
    n_pkbit = 0
    for case in pkbit_cases(ctx.quick):
        run_pair_case(ctx, case)
        n_pkbit += 1
    ctx.extra['pkbit_cases'] = n_pkbit

    for io_c, io_p, sc in strata:
        ctx.floor(f'io:{io_c}x{io_p}:{"sc" if sc else "legacy"}', 1)
    for label, n in (
        ('method:just_works', 20), ('method:passkey', 20), ('method:numeric_comparison', 5),
        ('expect:success', 100), ('expect:reject', 5), ('expect:compare_no', 2), ('expect:passkey_wrong', 5),
        ('expect:passkey_none', 5), ('expect:corrupt', 50), ('reconnect_requested', 50), ('start:secreq', 20),
        ('delayed', 50), ('asymmetric', 100), ('prebond', 20), ('table:passkey_roles:both_input', 1),
    ):
        ctx.floor(label, n)
    for label, n in (
        ('again', 60), ('again:same_link', 15), ('again:reconnect_same', 15), ('again:reconnect_swapped', 15),
        ('again:after_failed', 15), ('again:after_paired', 15),
        ('again:same_link:after_failed', 4), ('again:same_link:after_paired', 4),
        ('again:reconnect_same:after_failed', 4), ('again:reconnect_same:after_paired', 4),
        ('again:reconnect_swapped:after_failed', 4), ('again:reconnect_swapped:after_paired', 4),
        ('again:outcome:paired', 30), ('again:outcome:failed', 3), ('again:paired_over_bond', 10),
        ('again:failed_over_bond', 3),
        ('oob', 80), ('oob:sc', 20), ('oob:legacy', 10), ('oob:sc:one_sided', 10), ('expect:oob_mismatch', 8),
        ('cause:oob_mismatch', 5), ('oob:flags_as_configured', 60), ('method:oob', 30),
        ('expect:passkey_one_bit', ctx.pick(36, 110)), ('pkbit:high', ctx.pick(6, 20)),
        ('pkbit:legacy:i', 4), ('pkbit:legacy:r', 4), ('pkbit:legacy:both_input', 4),
        ('pkbit:sc:i', 4), ('pkbit:sc:r', 4), ('pkbit:sc:both_input', 4),
    ):
        ctx.floor(label, n)
    if ctx.labels.get('oob:flags_differ_from_configuration', 0):
        raise HarnessError('C13: the OOB data flags on the wire are not the ones the generator expects from the '
                           'OOB configurations (config_reference is out of date)')


class _Scratch:
    """A throw-away recorder with the Ctx recording interface (for the determinism self-check)."""

    def case(self, *a, **k):
        pass

    def fail(self, *a, **k):
        pass


def replay(ctx, case) -> None:
    kind = case.get('kind')
    if kind == 'table':
        loop = vloop.new_loop()
        try:
            rig = loop.complete(_make_rig(), 60)
            check_cell(ctx, rig, loop, tuple(case['cell']))
        finally:
            loop.shutdown()
    elif kind == 'pair':
        run_pair_case(ctx, case)
    else:
        raise ValueError(kind)
