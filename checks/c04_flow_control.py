"""
C04 - Outbound data obeys controller buffer credits, stays FIFO and never stalls.

Generated operation histories (plain data) are interpreted against the real
`bumble.host.DataPacketQueue` / `bumble.utils.FlowControlAsyncPipe` and a small
reference ledger kept by the harness.
"""

from __future__ import annotations

import asyncio
import collections

from hypothesis import strategies as st

from vlib import vloop

PROPERTY = 'C04'
LEVEL = 'exploration'
RULE = (
    'queue: histories of enqueue(conn)/complete(conn,n incl. over-reports and unknown handles)/'
    'flush(conn)/drain(conn) over 1..4 connections and max_in_flight 1..8, interpreted on the real '
    'DataPacketQueue with the harness credit ledger; non-trivial = a flush while another connection '
    'has waiting packets, or >=2 connections competing while credits are exhausted, or an over-report. '
    'host: the same through Host.send_acl_sdu + Number_Of_Completed_Packets events with a recording '
    'controller sink. pipe: histories of write/pause/resume/sink-progress on FlowControlAsyncPipe; '
    'non-trivial = >=2 packets queued when the pump runs; the delivery clause is judged after every step '
    '(pipe not paused, sink idle, nothing ready to run => everything written has been delivered), not only at the end. '
    'hostx: the host with the pools it learns through Host.reset() from a controller advertising BR/EDR ACL 1..4, '
    'LE ACL 0..3 (0 = LE shares the BR/EDR pool; v2 or v1 LE Read Buffer Size) and ISO 1..3 buffers; 2..4 links out of '
    '2 BR/EDR ACL, 2 LE ACL, 2 CIS, 2 BIS of one BIG; histories of send_acl_sdu/send_iso_sdu, whole '
    'Number_Of_Completed_Packets events with 1..3 entries (links, dead links, a SCO handle, an unknown handle, zero '
    'counts, over-reports), Disconnection Complete (accepted / refused / for a dead link / for a BIS), BIG terminated / '
    'sync lost, re-establishment on the same handle, drain as Connection.drain does; credits are judged per pool '
    'against what the controller advertised; a scripted family (hostx_directed) walks every pool arrangement x 1..2 '
    'buffers x kind of first entry; non-trivial = links competing in an exhausted pool, a later entry of an event '
    'freeing the buffer a waiting packet needs, a link discarded while another one of its pool waits. '
    'qx/px: EVERY history of enqueue + 4 (thorough 6) further queue operations {enq, complete one, over-report, flush, '
    'drain} over 2 connections x max_in_flight 1..2 and EVERY history of 5 (thorough 8) pipe operations {write 3 bytes, '
    'write 8 bytes, pause, resume, sink progress} x thresholds {0,3,8,11} (= exact packet sizes) x with/without sink '
    'drain, judged after every step (complete in both tiers; thorough is split over the shards). '
    'distinct by operation sequence.'
)
ASSUMPTIONS = [
    'completion reports are clamped to what is really in flight for that connection (an over-report '
    'cannot free buffers held by another connection); unknown handles free nothing',
    'drain() raising for a connection that has nothing pending counts as finishing',
    'hostx: while Host.remove_big discards the BISes of one BIG one after the other, a queued packet of a sibling BIS may '
    'still be handed over between two discards (counted as discarded afterwards, no credit effect): the statement does '
    'not forbid it, it is labelled and not judged; a packet for a dead link handed over after that step is a violation',
    'hostx: all BISes of a BIG are gone when the controller reports the BIG terminated / lost (one event), a link is '
    'gone when Disconnection Complete with status 0 arrives, a refused disconnection (status != 0) discards nothing; '
    'a data packet handed over for a link that is gone is a violation (its packets were to be discarded)',
    'hostx: in a completion event with several entries only the first entry may over-report (which packets the host '
    'hands over between two entries of one event is left open; counts within what was in flight before the event '
    'have an unambiguous outcome); the order in which packets of DIFFERENT links are handed over is not judged',
    'hostx: completion entries for a SCO handle, an unknown handle or a link that is gone free nothing',
]

CONNS = [1, 2, 3, 4]


# ---------------------------------------------------------------------------
# queue machine
# ---------------------------------------------------------------------------
def queue_ops():
    conn = st.sampled_from(CONNS)
    op = st.one_of(
        st.tuples(st.just('enq'), conn),
        st.tuples(st.just('enq'), conn),
        st.tuples(st.just('enq'), conn),
        st.tuples(st.just('done'), conn, st.sampled_from(['one', 'all', 'over', 'over3', 'zero', 'two'])),
        st.tuples(st.just('done'), conn, st.sampled_from(['one', 'all'])),
        st.tuples(st.just('done_unknown'), st.sampled_from([0x77, 0xEFF])),
        st.tuples(st.just('flush'), conn),
        st.tuples(st.just('drain'), conn),
    )
    return st.tuples(st.integers(1, 8), st.lists(op, min_size=1, max_size=40))


def run_queue_case(ctx, case, prefix='') -> None:
    from bumble.host import DataPacketQueue

    max_in_flight, ops = case
    ops = [tuple(o) for o in ops]
    loop = vloop.new_loop()
    try:
        sent: list[tuple[int, int]] = []  # (pid, conn) in the order handed to the controller
        queue = DataPacketQueue(27, max_in_flight, lambda p: sent.append(p))
        next_pid = 0
        waiting: dict[int, collections.deque] = {c: collections.deque() for c in CONNS}
        inflight: dict[int, int] = collections.defaultdict(int)
        flushed: set = set()
        sent_set: set = set()
        seen_sent = 0
        drains: list[tuple[int, asyncio.Task, int]] = []
        labels = set()
        nontrivial = False

        def fail(sig, what, step):
            ctx.fail(sig, what, {'kind': 'queue', 'max_in_flight': max_in_flight, 'ops': ops[: step + 1]})

        def reconcile(step) -> bool:
            """Account for what the real queue handed to the controller since last step."""
            nonlocal nontrivial
            nonlocal seen_sent
            while seen_sent < len(sent):
                pid, conn = sent[seen_sent]
                seen_sent += 1
                if pid in sent_set:
                    fail('queue/duplicate_send', 'a packet was handed to the controller twice', step)
                    return False
                if (pid, conn) in flushed:
                    fail('queue/sent_after_flush', 'a packet discarded by flush was sent later', step)
                    return False
                if not waiting[conn] or waiting[conn][0] != pid:
                    fail('queue/order', 'per-connection submission order not preserved', step)
                    return False
                waiting[conn].popleft()
                inflight[conn] += 1
                sent_set.add(pid)
            total = sum(inflight.values())
            if total > max_in_flight:
                fail(
                    'queue/over_credit',
                    f'{total} packets in flight at the controller, buffer count {max_in_flight}',
                    step,
                )
                return False
            n_waiting = sum(len(w) for w in waiting.values())
            if n_waiting and total < max_in_flight:
                op = ops[step][0]
                fail(
                    f'queue/stall_after_{op}',
                    f'{n_waiting} packet(s) waiting while only {total}/{max_in_flight} buffers are in use',
                    step,
                )
                return False
            return True

        for step, op in enumerate(ops):
            kind = op[0]
            if kind == 'enq':
                conn = op[1]
                pid = next_pid
                next_pid += 1
                waiting[conn].append(pid)
                if sum(inflight.values()) >= max_in_flight and sum(
                    1 for c in CONNS if waiting[c]
                ) >= 2:
                    labels.add('competing_connections')
                    nontrivial = True
                queue.enqueue((pid, conn), conn)
            elif kind == 'done':
                conn, how = op[1], op[2]
                have = inflight[conn]
                n = {'one': 1, 'all': max(have, 1), 'over': have + 1, 'over3': have + 3, 'zero': 0, 'two': 2}[how]
                if n > have:
                    labels.add('over_report')
                    if sum(inflight.values()) > have:
                        labels.add('over_report_with_other_in_flight')
                        nontrivial = True
                inflight[conn] -= min(n, have)
                queue.on_packets_completed(n, conn)
            elif kind == 'done_unknown':
                labels.add('unknown_handle')
                queue.on_packets_completed(1, op[1])
            elif kind == 'flush':
                conn = op[1]
                others_waiting = any(waiting[c] for c in CONNS if c != conn)
                if others_waiting and (inflight[conn] or waiting[conn]):
                    labels.add('flush_while_other_waiting')
                    nontrivial = True
                for pid in waiting[conn]:
                    flushed.add((pid, conn))
                waiting[conn].clear()
                inflight[conn] = 0
                queue.flush(conn)
            elif kind == 'drain':
                conn = op[1]
                pend = inflight[conn] + len(waiting[conn])
                labels.add('drain_pending' if pend else 'drain_idle')
                task = loop.create_task(queue.drain(conn))
                drains.append((conn, task, step))
            if not reconcile(step):
                break
            # let drain waiters run
            loop.settle()
            for conn, task, started in list(drains):
                pend = inflight[conn] + len(waiting[conn])
                if task.done():
                    drains.remove((conn, task, started))
                    exc = task.exception() if not task.cancelled() else None
                    if pend:
                        if exc is not None:
                            fail(
                                'queue/drain_raises_with_pending',
                                f'drain() raised {type(exc).__name__} while {pend} packet(s) of the connection are pending',
                                step,
                            )
                        else:
                            fail(
                                'queue/drain_early',
                                f'drain() finished while {pend} packet(s) of the connection are still pending',
                                step,
                            )
                        break
                elif pend == 0:
                    fail(
                        'queue/drain_hangs',
                        'drain() still waiting although every packet of the connection was completed or discarded',
                        step,
                    )
                    break
            else:
                # counters
                model_pending = sum(inflight.values()) + sum(len(w) for w in waiting.values())
                if queue.pending != model_pending and 'over_report' not in labels:
                    fail(
                        'queue/pending_counter',
                        f'pending={queue.pending} but {model_pending} packets are queued or in flight',
                        step,
                    )
                    break
                continue
            break
        ctx.case(
            ('q', max_in_flight, ops),
            nontrivial,
            {prefix + l for l in labels} | ({prefix + 'cases'} if prefix else set()),
            sample={'queue': [max_in_flight, ops[:12]]},
        )
    finally:
        loop.shutdown()


# ---------------------------------------------------------------------------
# host-level machine: Host.send_acl_sdu + completion events through a recording sink
# ---------------------------------------------------------------------------
def host_ops():
    conn = st.sampled_from([0, 1])
    op = st.one_of(
        st.tuples(st.just('send'), conn, st.integers(1, 5)),  # number of fragments
        st.tuples(st.just('done'), conn, st.integers(1, 3)),
        st.tuples(st.just('disc'), conn),
    )
    return st.tuples(st.integers(1, 4), st.lists(op, min_size=2, max_size=25))


def run_host_case(ctx, case) -> None:
    from bumble import hci
    from bumble.host import Host

    n_buffers, ops = case
    ops = [tuple(o) for o in ops]
    frag = 8
    loop = vloop.new_loop()
    try:
        class Sink:
            def __init__(self):
                self.packets = []

            def on_packet(self, packet):
                self.packets.append(bytes(packet))

        sink = Sink()
        host = Host()
        host.set_packet_sink(sink)
        host.ready = True
        # what reset() learns from LE Read Buffer Size, without running a controller
        from bumble.host import DataPacketQueue

        host.le_acl_packet_queue = DataPacketQueue(frag, n_buffers, host.send_hci_packet)
        host.acl_packet_queue = host.le_acl_packet_queue
        handles = [0x40, 0x41]
        live = {}

        def connect(i):
            host.on_hci_le_connection_complete_event(
                hci.HCI_LE_Connection_Complete_Event(
                    status=0,
                    connection_handle=handles[i],
                    role=0,
                    peer_address_type=0,
                    peer_address=hci.Address(f'F0:F0:F0:F0:F0:F{i}'),
                    connection_interval=6,
                    peripheral_latency=0,
                    supervision_timeout=100,
                    central_clock_accuracy=0,
                )
            )
            live[i] = True

        connect(0)
        connect(1)
        inflight = {0: 0, 1: 0}
        expected: dict[int, collections.deque] = {0: collections.deque(), 1: collections.deque()}
        seen = 0
        counter = 0
        labels = set()
        nontrivial = False

        def fail(sig, what, step):
            ctx.fail(sig, what, {'kind': 'host', 'buffers': n_buffers, 'ops': ops[: step + 1]})

        for step, op in enumerate(ops):
            kind, i = op[0], op[1]
            if kind == 'send':
                if not live.get(i):
                    continue
                payload = bytes([(counter + k) & 0xFF for k in range(op[2] * frag - 4)])
                counter += 1
                pdu = len(payload).to_bytes(2, 'little') + (0x40).to_bytes(2, 'little') + payload
                for off in range(0, len(pdu), frag):
                    expected[i].append(pdu[off : off + frag])
                host.send_l2cap_pdu(handles[i], 0x40, payload)
            elif kind == 'done':
                n = op[2]
                if n > inflight[i]:
                    labels.add('over_report')
                inflight[i] -= min(n, inflight[i])
                host.on_packet(
                    bytes(
                        hci.HCI_Number_Of_Completed_Packets_Event(
                            connection_handles=[handles[i]], num_completed_packets=[n]
                        )
                    )
                )
            elif kind == 'disc':
                if not live.get(i):
                    continue
                other = 1 - i
                if expected[other] and (expected[i] or inflight[i]):
                    labels.add('disconnect_while_other_waiting')
                    nontrivial = True
                expected[i].clear()
                inflight[i] = 0
                live[i] = False
                host.on_packet(
                    bytes(
                        hci.HCI_Disconnection_Complete_Event(
                            status=0, connection_handle=handles[i], reason=0x13
                        )
                    )
                )
            loop.settle()
            bad = False
            while seen < len(sink.packets):
                raw = sink.packets[seen]
                seen += 1
                if raw[0] != hci.HCI_ACL_DATA_PACKET:
                    continue
                handle = int.from_bytes(raw[1:3], 'little') & 0xFFF
                data = raw[5:]
                if handle not in handles:
                    fail('host/unknown_handle_sent', 'ACL packet for a handle that was never connected', step)
                    bad = True
                    break
                j = handles.index(handle)
                if not expected[j] or expected[j][0] != data:
                    fail('host/order', 'ACL fragment out of order, duplicated or sent after its connection was flushed', step)
                    bad = True
                    break
                expected[j].popleft()
                inflight[j] += 1
            if bad:
                break
            total = inflight[0] + inflight[1]
            waiting = len(expected[0]) + len(expected[1])
            if total > n_buffers:
                fail('host/over_credit', f'{total} ACL packets in flight, controller advertised {n_buffers}', step)
                break
            if waiting and total < n_buffers:
                fail(
                    f'host/stall_after_{kind}',
                    f'{waiting} fragment(s) waiting while only {total}/{n_buffers} buffers are in use',
                    step,
                )
                break
            if waiting and expected[0] and expected[1]:
                labels.add('competing_connections')
                nontrivial = True
        ctx.case(('h', n_buffers, ops), nontrivial, labels, sample={'host': [n_buffers, ops[:10]]})
    finally:
        loop.shutdown()


# ---------------------------------------------------------------------------
# host-level machine over every buffer pool: the pools are what Host.reset() learns from
# a controller that advertises them (BR/EDR ACL, LE ACL - separate or shared - and ISO),
# the links are BR/EDR ACL, LE ACL, CIS and BIS, completion reports are whole
# Number_Of_Completed_Packets events (several entries, unknown / SCO / dead handles mixed in)
# ---------------------------------------------------------------------------
HX_LINKS = [
    ('bredr', 0x001),
    ('bredr', 0x002),
    ('le', 0x040),
    ('le', 0x041),
    ('cis', 0x060),
    ('cis', 0x061),
    ('bis', 0x070),
    ('bis', 0x071),
]
HX_SCO = 0x080
HX_UNKNOWN = 0x0EF
HX_BIG = 1
HX_ACL_SIZE = 8
HX_ISO_SIZE = 12
HX_LINK_SETS = [[4, 5], [6, 7], [4, 6], [0, 2], [2, 3], [0, 1], [4, 5, 6, 7], [0, 2, 4], [2, 4, 5], [1, 3, 6, 7]]


def hostx_ops():
    link = st.integers(0, 3)  # position in the case's link list (taken modulo its length)
    target = st.one_of(link, link, link, st.sampled_from(['sco', 'unk']))
    entry = st.tuples(target, st.integers(0, 4))
    op = st.one_of(
        st.tuples(st.just('send'), link, st.integers(1, 4), st.sampled_from([0, 3])),
        st.tuples(st.just('send'), link, st.integers(1, 4), st.sampled_from([0, 3])),
        st.tuples(st.just('send'), link, st.integers(2, 4), st.sampled_from([0, 3])),
        st.tuples(st.just('send'), link, st.integers(2, 4), st.sampled_from([0, 3])),
        st.tuples(st.just('ncp'), st.lists(entry, min_size=1, max_size=3)),
        st.tuples(st.just('ncp'), st.lists(entry, min_size=2, max_size=3)),
        st.tuples(st.just('disc'), link, st.sampled_from([0, 0, 0, 0x0C])),
        st.tuples(st.just('conn'), link),
        st.tuples(st.just('big'), st.sampled_from(['term', 'lost'])),
        st.tuples(st.just('drain'), link),
    )
    cfg = st.fixed_dictionaries(
        {
            'acl': st.sampled_from([1, 1, 2, 2, 3, 4]),
            'le': st.sampled_from([0, 0, 1, 1, 2, 3]),  # 0: the controller has no LE buffers of its own, LE shares the BR/EDR pool
            'iso': st.sampled_from([1, 1, 2, 2, 3]),
            'le_v2': st.sampled_from([True, True, True, False]),  # False: only LE Read Buffer Size v1 (no ISO pool)
        }
    )
    links = st.one_of(
        st.sampled_from(HX_LINK_SETS),
        st.lists(st.integers(0, 7), min_size=2, max_size=4, unique=True),
    )
    # 'loaded' histories: every pool is filled first (2..5 multi-fragment sends), then drains,
    # disconnections, BIG removals and completion events land on links that hold buffers and backlog
    send = st.tuples(st.just('send'), link, st.integers(2, 4), st.sampled_from([0, 3]))
    under_load = st.one_of(
        st.tuples(st.just('drain'), link),
        st.tuples(st.just('disc'), link, st.sampled_from([0, 0, 0x0C])),
        st.tuples(st.just('disc'), link, st.just(0)),
        st.tuples(st.just('big'), st.sampled_from(['term', 'lost'])),
        st.tuples(st.just('ncp'), st.lists(entry, min_size=1, max_size=3)),
        st.tuples(st.just('conn'), link),
        send,
    )
    loaded = st.tuples(st.lists(send, min_size=2, max_size=5), st.lists(under_load, min_size=1, max_size=20)).map(
        lambda t: t[0] + t[1]
    )
    return st.tuples(cfg, links, st.one_of(st.lists(op, min_size=3, max_size=30), loaded))


def hostx_directed():
    """Scripted histories: a multi-entry completion event whose LATER entry frees the buffer a
    waiting packet needs, a disconnection (accepted / refused) or BIG removal under load, a
    re-used handle - for every pool arrangement and 1..2 buffers."""
    arrangements = [
        ({'le': 2}, [0, 1]),  # two BR/EDR links, LE pool separate
        ({'le': 2}, [2, 3]),  # two LE links on the LE pool
        ({'le': 0}, [0, 2]),  # BR/EDR + LE sharing the BR/EDR pool
        ({'le': 2}, [0, 2]),  # BR/EDR + LE on separate pools
        ({'le': 2}, [4, 5]),  # two CIS
        ({'le': 2}, [6, 7]),  # two BIS
        ({'le': 0}, [4, 6]),  # CIS + BIS
        ({'le': 2, 'le_v2': False}, [2, 3]),  # LE pool learnt through the v1 command
    ]
    firsts = [['unk', 1], ['sco', 1], [1, 0], [1, 1], [0, 0]]
    for extra, links in arrangements:
        for nbuf in (1, 2):
            for first in firsts:
                for status in (0, 0x0C):
                    cfg = {'acl': nbuf, 'le': nbuf if extra.get('le') else 0, 'iso': nbuf, 'le_v2': extra.get('le_v2', True)}
                    ops = [
                        ('send', 0, 3, 0),
                        ('send', 1, 3, 3),
                        ('ncp', [first, [0, 1]]),
                        ('drain', 1),
                        ('ncp', [[0, 1], [1, 1]]),
                        ('disc', 0, status),
                        ('ncp', [[0, 2], [1, 1]]),
                        ('conn', 0),
                        ('send', 0, 2, 0),
                        ('drain', 0),
                        ('big', 'term'),
                        ('ncp', [[1, 4]]),
                        ('ncp', [['unk', 1], [0, 1], [1, 4]]),
                        ('conn', 1),
                        ('send', 1, 2, 0),
                        ('ncp', [[0, 4], ['sco', 2], [1, 1]]),
                        ('ncp', [[1, 1], [0, 4]]),
                    ]
                    yield cfg, links, ops


def run_hostx_case(ctx, case, prefix='hx_') -> None:
    from bumble import hci
    from bumble.controller import Controller
    from bumble.host import Host

    cfg, links, ops = case
    cfg = dict(cfg)
    links = list(links)
    if not cfg['le_v2']:
        # without LE Read Buffer Size v2 the controller advertises no ISO buffers: ACL links only
        links = sorted({l % 4 for l in links})
        if len(links) < 2:
            links = sorted({links[0], (links[0] + 2) % 4})
    ops = [tuple(o) for o in ops]
    advertised = {'acl': cfg['acl'], 'le': cfg['le'], 'iso': cfg['iso']}
    shared = cfg['le'] == 0

    def pool_of(idx):
        kind = HX_LINKS[idx][0]
        if kind == 'bredr':
            return 'acl'
        if kind == 'le':
            return 'acl' if shared else 'le'
        return 'iso'

    loop = vloop.new_loop()
    try:
        class Sink:
            def __init__(self):
                self.packets = []

            def on_packet(self, packet):
                self.packets.append(bytes(packet))

        sink = Sink()

        async def setup():
            controller = Controller('C04')
            controller.acl_data_packet_length = HX_ACL_SIZE
            controller.total_num_acl_data_packets = cfg['acl']
            controller.le_acl_data_packet_length = HX_ACL_SIZE
            controller.total_num_le_acl_data_packets = cfg['le']
            controller.iso_data_packet_length = HX_ISO_SIZE
            controller.total_num_iso_data_packets = cfg['iso']
            if not cfg['le_v2']:
                controller.supported_commands = set(Controller.supported_commands) - {
                    hci.HCI_LE_READ_BUFFER_SIZE_V2_COMMAND
                }
            host = Host()
            host.set_packet_sink(controller)
            controller.set_packet_sink(host)
            await host.reset(driver_factory=None)
            controller.set_packet_sink(None)
            host.set_packet_sink(sink)
            return host

        host = loop.complete(setup())
        loop.settle()

        def feed(event):
            host.on_packet(bytes(event))

        def establish(idx):
            kind, handle = HX_LINKS[idx]
            if kind == 'bredr':
                feed(
                    hci.HCI_Connection_Complete_Event(
                        status=0,
                        connection_handle=handle,
                        bd_addr=hci.Address(f'F0:F0:F0:F0:F0:0{idx}', hci.Address.PUBLIC_DEVICE_ADDRESS),
                        link_type=hci.HCI_Connection_Complete_Event.LinkType.ACL,
                        encryption_enabled=0,
                    )
                )
            elif kind == 'le':
                feed(
                    hci.HCI_LE_Connection_Complete_Event(
                        status=0,
                        connection_handle=handle,
                        role=0,
                        peer_address_type=0,
                        peer_address=hci.Address(f'F0:F0:F0:F0:F0:0{idx}'),
                        connection_interval=6,
                        peripheral_latency=0,
                        supervision_timeout=100,
                        central_clock_accuracy=0,
                    )
                )
            elif kind == 'cis':
                feed(
                    hci.HCI_LE_CIS_Established_Event(
                        status=0,
                        connection_handle=handle,
                        cig_sync_delay=0,
                        cis_sync_delay=0,
                        transport_latency_c_to_p=0,
                        transport_latency_p_to_c=0,
                        phy_c_to_p=1,
                        phy_p_to_c=1,
                        nse=1,
                        bn_c_to_p=1,
                        bn_p_to_c=1,
                        ft_c_to_p=1,
                        ft_p_to_c=1,
                        max_pdu_c_to_p=HX_ISO_SIZE,
                        max_pdu_p_to_c=HX_ISO_SIZE,
                        iso_interval=8,
                    )
                )
            else:
                raise ValueError(kind)

        bis = [idx for idx in links if HX_LINKS[idx][0] == 'bis']

        def establish_big():
            feed(
                hci.HCI_LE_Create_BIG_Complete_Event(
                    status=0,
                    big_handle=HX_BIG,
                    big_sync_delay=0,
                    transport_latency_big=0,
                    phy=1,
                    nse=1,
                    bn=1,
                    pto=0,
                    irc=1,
                    max_pdu=HX_ISO_SIZE,
                    iso_interval=8,
                    connection_handle=[HX_LINKS[idx][1] for idx in bis],
                )
            )

        feed(
            hci.HCI_Synchronous_Connection_Complete_Event(
                status=0,
                connection_handle=HX_SCO,
                bd_addr=hci.Address('F0:F0:F0:F0:F0:0F', hci.Address.PUBLIC_DEVICE_ADDRESS),
                link_type=0,
                transmission_interval=0,
                retransmission_window=0,
                rx_packet_length=0,
                tx_packet_length=0,
                air_mode=2,
            )
        )
        live = {idx: False for idx in links}
        for idx in links:
            if HX_LINKS[idx][0] != 'bis':
                establish(idx)
                live[idx] = True
        if bis:
            establish_big()
            for idx in bis:
                live[idx] = True
        loop.settle()
        by_handle = {HX_LINKS[idx][1]: idx for idx in links}
        known = {**host.connections, **host.cis_links, **host.bis_links}
        if HX_SCO not in host.sco_links or any(h not in known for h in by_handle):
            raise RuntimeError('C04 hostx harness: links were not established')

        inflight = {idx: 0 for idx in links}
        expected: dict[int, collections.deque] = {idx: collections.deque() for idx in links}
        serial = {idx: 0 for idx in links}
        was_dead = set()
        seen = len(sink.packets)
        drains: list[tuple[int, asyncio.Task, int]] = []
        labels = set()
        nontrivial = False

        def fail(sig, what, step):
            ctx.fail(sig, what, {'kind': 'hostx', 'cfg': cfg, 'links': links, 'ops': ops[: step + 1]})

        def pool_inflight(pool):
            return sum(inflight[i] for i in links if pool_of(i) == pool)

        def pool_waiting(pool):
            return sum(len(expected[i]) for i in links if pool_of(i) == pool)

        def waiting_links(pool, but=None):
            return [i for i in links if pool_of(i) == pool and i != but and expected[i]]

        def discard(idx):
            expected[idx].clear()
            inflight[idx] = 0
            live[idx] = False
            was_dead.add(idx)

        ok = True
        for step, op in enumerate(ops):
            kind = op[0]
            if kind == 'send':
                idx = links[op[1] % len(links)]
                lkind, handle = HX_LINKS[idx]
                pool = pool_of(idx)
                iso = pool == 'iso'
                size = HX_ISO_SIZE if iso else HX_ACL_SIZE
                sizes = [size - 4 if (iso and k == 0) else size for k in range(op[2])]
                sizes[-1] -= op[3]
                pieces = []
                for n in sizes:
                    pieces.append(serial[idx].to_bytes(2, 'big') + bytes([0xA0 + idx]) * (n - 2))
                    serial[idx] = (serial[idx] + 1) & 0xFFFF
                if live[idx]:
                    expected[idx].extend(pieces)
                    if idx in was_dead:
                        labels.add('hx_traffic_on_reused_handle')
                    rivals = waiting_links(pool)
                    if pool_inflight(pool) >= advertised[pool] and len(rivals) >= 2:
                        if iso:
                            labels.add('hx_competing_iso')
                        elif shared and {HX_LINKS[i][0] for i in rivals} == {'bredr', 'le'}:
                            labels.add('hx_competing_shared_acl')
                        else:
                            labels.add('hx_competing_acl')
                        nontrivial = True
                else:
                    labels.add('hx_send_on_dead_link')
                # a dead link: the host knows no such link and must not put anything on the wire
                sdu = b''.join(pieces)
                if iso:
                    host.send_iso_sdu(handle, sdu)
                else:
                    host.send_acl_sdu(handle, sdu)
            elif kind == 'ncp':
                handles, counts = [], []
                snapshot = dict(inflight)
                freed_before: set = set()
                for pos, (target, n) in enumerate(op[1]):
                    if target == 'sco':
                        handles.append(HX_SCO)
                        counts.append(n)
                        continue
                    if target == 'unk':
                        handles.append(HX_UNKNOWN)
                        counts.append(n)
                        continue
                    idx = links[target % len(links)]
                    if pos > 0 and live[idx]:
                        # later entries never over-report (which packets were handed over between two
                        # entries of one event is left open by the statement): unambiguous outcome
                        n = min(n, snapshot[idx])
                    handles.append(HX_LINKS[idx][1])
                    counts.append(n)
                    if not live[idx]:
                        labels.add('hx_completion_for_dead_link')
                        continue
                    if n > inflight[idx]:
                        labels.add('hx_over_report')
                    done = min(n, inflight[idx])
                    if pos > 0 and done and pool_waiting(pool_of(idx)):
                        labels.add('hx_later_entry_unblocks')
                        nontrivial = True
                        if pool_of(idx) not in freed_before:
                            labels.add('hx_only_later_entry_unblocks')
                    if done:
                        freed_before.add(pool_of(idx))
                    inflight[idx] -= done
                    snapshot[idx] = max(0, snapshot[idx] - done)
                if len(op[1]) > 1:
                    labels.add('hx_multi_entry_event')
                feed(hci.HCI_Number_Of_Completed_Packets_Event(connection_handles=handles, num_completed_packets=counts))
            elif kind == 'disc':
                idx = links[op[1] % len(links)]
                lkind, handle = HX_LINKS[idx]
                status = op[2]
                pend = inflight[idx] + len(expected[idx])
                if lkind == 'bis':
                    # a BIS does not go away through Disconnection Complete: nothing may change
                    labels.add('hx_disc_event_for_bis')
                elif status != 0:
                    if live[idx] and pend:
                        labels.add('hx_refused_disc_with_pending')
                        nontrivial = True
                elif live[idx]:
                    if pend and waiting_links(pool_of(idx), but=idx):
                        labels.add('hx_disc_while_other_waiting_' + ('iso' if pool_of(idx) == 'iso' else 'acl'))
                        nontrivial = True
                    discard(idx)
                else:
                    labels.add('hx_disc_for_dead_link')
                feed(hci.HCI_Disconnection_Complete_Event(status=status, connection_handle=handle, reason=0x13))
            elif kind == 'conn':
                idx = links[op[1] % len(links)]
                if live[idx]:
                    continue
                if HX_LINKS[idx][0] == 'bis':
                    establish_big()
                    for b in bis:
                        live[b] = True
                else:
                    establish(idx)
                    live[idx] = True
                labels.add('hx_handle_reused')
            elif kind == 'big':
                if not bis or not any(live[b] for b in bis):
                    continue
                pend = sum(inflight[b] + len(expected[b]) for b in bis)
                if pend and any(expected[i] for i in links if pool_of(i) == 'iso' and i not in bis):
                    labels.add('hx_big_removed_while_cis_waiting')
                    nontrivial = True
                if pend:
                    labels.add('hx_big_removed_with_pending')
                for b in bis:
                    discard(b)
                if op[1] == 'term':
                    feed(hci.HCI_LE_Terminate_BIG_Complete_Event(big_handle=HX_BIG, reason=0x16))
                else:
                    feed(hci.HCI_LE_BIG_Sync_Lost_Event(big_handle=HX_BIG, reason=0x08))
            elif kind == 'drain':
                idx = links[op[1] % len(links)]
                handle = HX_LINKS[idx][1]
                # what bumble.device.Connection.drain() / the ISO links do
                queue = host.get_data_packet_queue(handle)
                if queue is None:
                    if live[idx]:
                        fail('hostx/no_queue_for_live_link', f'no data packet queue for live handle 0x{handle:03X}', step)
                        ok = False
                        break
                    continue
                labels.add('hx_drain_pending' if inflight[idx] + len(expected[idx]) else 'hx_drain_idle')
                drains.append((idx, loop.create_task(queue.drain(handle)), step))
            loop.settle()
            # account for what reached the controller
            while seen < len(sink.packets):
                raw = sink.packets[seen]
                seen += 1
                if raw[0] not in (hci.HCI_ACL_DATA_PACKET, hci.HCI_ISO_DATA_PACKET):
                    continue
                header = int.from_bytes(raw[1:3], 'little')
                handle = header & 0xFFF
                if raw[0] == hci.HCI_ACL_DATA_PACKET:
                    data = raw[5:]
                else:
                    pb, ts = (header >> 12) & 3, (header >> 14) & 1
                    data = raw[5 + (4 if ts else 0) + (4 if pb in (0, 2) else 0) :]
                idx = by_handle.get(handle)
                if idx is None or (raw[0] == hci.HCI_ISO_DATA_PACKET) != (pool_of(idx) == 'iso'):
                    fail('hostx/unknown_handle_sent', f'data packet for handle 0x{handle:03X} that has no such link', step)
                    ok = False
                    break
                if not live[idx] and kind == 'big' and idx in bis:
                    # Host.remove_big discards the BISes of the BIG one after the other: a packet of a sibling BIS may be
                    # handed over between two of these discards (it is then counted as discarded, its buffer is free
                    # again). The statement does not say that a packet about to be discarded is never handed over; only
                    # packets handed over after the step are judged (ASSUMPTIONS).
                    labels.add('hx_big_removal_hands_over_sibling_packet')
                    continue
                if not live[idx]:
                    fail(
                        'hostx/sent_on_dead_link',
                        f'data packet handed to the controller for {HX_LINKS[idx][0]} handle 0x{handle:03X} after the '
                        'controller reported that link gone (its packets were to be discarded)',
                        step,
                    )
                    ok = False
                    break
                if not expected[idx] or expected[idx][0] != data:
                    fail(
                        'hostx/order',
                        f'data packet out of order or duplicated ({HX_LINKS[idx][0]} handle 0x{handle:03X})',
                        step,
                    )
                    ok = False
                    break
                expected[idx].popleft()
                inflight[idx] += 1
            if not ok:
                break
            for pool in ('acl', 'le', 'iso'):
                total, waiting = pool_inflight(pool), pool_waiting(pool)
                if total > advertised[pool] and not (pool == 'le' and shared):
                    fail(
                        f'hostx/over_credit_{pool}',
                        f'{total} packets in flight, the controller advertised {advertised[pool]} {pool} buffers',
                        step,
                    )
                    ok = False
                    break
                if waiting and total < advertised[pool]:
                    fail(
                        f'hostx/stall_after_{kind}',
                        f'{waiting} {pool} packet(s) waiting while only {total}/{advertised[pool]} buffers are in use',
                        step,
                    )
                    ok = False
                    break
            if not ok:
                break
            if not shared and pool_inflight('acl') and pool_inflight('le'):
                labels.add('hx_both_acl_pools_busy')
            for idx, task, started in list(drains):
                pend = inflight[idx] + len(expected[idx])
                if task.done():
                    drains.remove((idx, task, started))
                    exc = task.exception() if not task.cancelled() else None
                    if pend:
                        fail(
                            'hostx/drain_raises_with_pending' if exc is not None else 'hostx/drain_early',
                            f'drain() finished ({type(exc).__name__ if exc else "normally"}) while {pend} packet(s) of the link are pending',
                            step,
                        )
                        ok = False
                        break
                    if started != step:
                        labels.add('hx_drain_released_by_' + kind)
                elif pend == 0:
                    fail(
                        'hostx/drain_hangs',
                        'drain() still waiting although every packet of the link was completed or discarded',
                        step,
                    )
                    ok = False
                    break
            if not ok:
                break
        ctx.case(
            ('hx', cfg, links, ops),
            nontrivial,
            {prefix + l[3:] for l in labels} | {prefix + 'cases'},
            sample={'hostx': [cfg, links, ops[:8]]},
        )
    finally:
        loop.shutdown()


# ---------------------------------------------------------------------------
# pipe machine
# ---------------------------------------------------------------------------
def pipe_ops():
    op = st.one_of(
        st.tuples(st.just('write'), st.integers(1, 6)),
        st.tuples(st.just('write'), st.integers(1, 6)),
        st.just(('pause',)),
        st.just(('resume',)),
        st.just(('progress',)),
        st.just(('progress',)),
        st.just(('tick',)),
    )
    return st.tuples(
        st.integers(0, 12),  # threshold
        st.booleans(),  # sink has a drain coroutine
        st.lists(op, min_size=1, max_size=30),
    )


def run_pipe_case(ctx, case, prefix='') -> None:
    from bumble.utils import FlowControlAsyncPipe

    threshold, with_drain, ops = case
    ops = [tuple(o) for o in ops]
    loop = vloop.new_loop()
    try:
        written: list[bytes] = []
        delivered: list[bytes] = []
        gate: list[asyncio.Future] = []
        source_events: list[str] = []
        labels = set()
        nontrivial = False

        async def drain_sink():
            fut = loop.create_future()
            gate.append(fut)
            await fut

        async def setup():
            pipe = FlowControlAsyncPipe(
                lambda: source_events.append('pause'),
                lambda: source_events.append('resume'),
                write_to_sink=delivered.append,
                drain_sink=drain_sink if with_drain else None,
                threshold=threshold,
            )
            pipe.start()
            return pipe

        pipe = loop.complete(setup())
        loop.settle()
        paused = False

        def fail(sig, what, step):
            ctx.fail(sig, what, {'kind': 'pipe', 'threshold': threshold, 'with_drain': with_drain, 'ops': ops[: step + 1]})

        def check_prefix(step) -> bool:
            if delivered != written[: len(delivered)]:
                # classify: reorder vs duplicate vs invented
                if sorted(delivered) == sorted(written[: len(delivered)]) or all(d in written for d in delivered):
                    fail('pipe/order', 'packets delivered to the sink in a different order than written (or duplicated)', step)
                else:
                    fail('pipe/corrupt', 'sink received a packet that was never written', step)
                return False
            return True

        n = 0
        ok = True
        for step, op in enumerate(ops):
            kind = op[0]
            if kind == 'write':
                n += 1
                packet = bytes([n & 0xFF]) * op[1] + n.to_bytes(2, 'big')
                written.append(packet)
                if len(pipe.queue) >= 1:
                    labels.add('two_queued')
                    nontrivial = True
                pipe.write(packet)
            elif kind == 'pause':
                paused = True
                pipe.pause()
                labels.add('pause')
            elif kind == 'resume':
                paused = False
                pipe.resume()
            elif kind == 'progress':
                if gate:
                    gate.pop(0).set_result(None)
                    labels.add('sink_progress')
            loop.settle()
            if not check_prefix(step):
                ok = False
                break
            if not paused and not gate and delivered != written:
                # nothing is ready to run, the pipe is not paused and the sink is not busy: if the
                # history ended here these packets would never be delivered
                labels.add('held_back_midway')
                fail(
                    'pipe/lost',
                    f'{len(written) - len(delivered)} written packet(s) held back although the pipe is not '
                    'paused and the sink is idle (nothing left to run)',
                    step,
                )
                ok = False
                break
            if paused and gate and len(pipe.queue) >= 1:
                labels.add('paused_during_sink_drain_with_backlog')
        if ok:
            # quiescence: un-pause, let the sink make progress until nothing moves
            pipe.resume()
            for _ in range(len(written) + 2):
                loop.settle()
                while gate:
                    gate.pop(0).set_result(None)
                    loop.settle()
            step = len(ops) - 1
            if check_prefix(step) and delivered != written:
                fail(
                    'pipe/lost',
                    f'{len(written) - len(delivered)} written packet(s) never reached the sink at quiescence',
                    step,
                )
        pipe.stop()
        ctx.case(
            ('p', threshold, with_drain, ops),
            nontrivial,
            {prefix + l for l in labels} | ({prefix + 'cases'} if prefix else set()),
            sample={'pipe': [threshold, with_drain, ops[:10]]},
        )
    finally:
        loop.shutdown()


# ---------------------------------------------------------------------------
# small-scope exhaustive families ("all interleavings" up to a bound): EVERY history of a
# fixed length over a small alphabet; the oracles run after every step, so all shorter
# histories are judged on the way.  quick: the complete family of a shorter length;
# thorough: two / three operations longer, split over the shards.
# ---------------------------------------------------------------------------
QX_FIRST = ('enq', 1)  # a history that starts with anything else on the empty queue is a shorter one
QX_ALPHABET = [
    ('enq', 1),
    ('enq', 2),
    ('done', 1, 'one'),
    ('done', 2, 'one'),
    ('done', 1, 'over'),
    ('flush', 1),
    ('flush', 2),
    ('drain', 1),
    ('drain', 2),
]
PX_ALPHABET = [('write', 1), ('write', 6), ('pause',), ('resume',), ('progress',)]
PX_CONFIGS = [(t, d) for t in (0, 3, 8, 11) for d in (True, False)]  # 3 / 8 / 11 = exact packet sizes (3, 8, 3+8)


def nth_history(alphabet, length, i):
    ops = []
    for _ in range(length):
        i, r = divmod(i, len(alphabet))
        ops.append(alphabet[r])
    return ops


def exhaustive(ctx, name, total, fn) -> None:
    for i in range(ctx.shard, total, ctx.nshards):
        if ctx.out_of_time():
            ctx.label('budget_hit:' + name)
            break
        fn(i)


def run_exhaustive(ctx) -> None:
    q_len = ctx.pick(4, 6)  # operations after QX_FIRST
    q_hist = len(QX_ALPHABET) ** q_len

    def q_case(i):
        ops = [QX_FIRST] + nth_history(QX_ALPHABET, q_len, i % q_hist)
        run_queue_case(ctx, (1 + i // q_hist, ops), prefix='qx_')

    exhaustive(ctx, 'qx', 2 * q_hist, q_case)  # max_in_flight 1 and 2

    p_len = ctx.pick(5, 8)
    p_hist = len(PX_ALPHABET) ** p_len

    def p_case(i):
        threshold, with_drain = PX_CONFIGS[i // p_hist]
        run_pipe_case(ctx, (threshold, with_drain, nth_history(PX_ALPHABET, p_len, i % p_hist)), prefix='px_')

    exhaustive(ctx, 'px', len(PX_CONFIGS) * p_hist, p_case)


# ---------------------------------------------------------------------------
def run(ctx) -> None:
    vloop.selftest()
    ctx.hyp('queue', lambda c: run_queue_case(ctx, c), queue_ops(), max_examples=ctx.n(1500, 150000))
    ctx.hyp('host', lambda c: run_host_case(ctx, c), host_ops(), max_examples=ctx.n(500, 40000))
    ctx.hyp('pipe', lambda c: run_pipe_case(ctx, c), pipe_ops(), max_examples=ctx.n(800, 60000))
    # every shard runs the whole (small) directed family: its labels have floors
    for case in hostx_directed():
        run_hostx_case(ctx, case, prefix='hxd_')
    run_exhaustive(ctx)
    ctx.hyp('hostx', lambda c: run_hostx_case(ctx, c), hostx_ops(), max_examples=ctx.n(1000, 60000))
    ctx.floor('flush_while_other_waiting', 10)
    ctx.floor('competing_connections', 10)
    ctx.floor('two_queued', 10)
    ctx.floor('paused_during_sink_drain_with_backlog', 10)
    # hostx, scripted family (run as a whole by every shard)
    ctx.floor('hxd_cases', 160)
    ctx.floor('hxd_only_later_entry_unblocks', 100)
    ctx.floor('hxd_competing_iso', 30)
    ctx.floor('hxd_competing_shared_acl', 10)
    ctx.floor('hxd_disc_while_other_waiting_acl', 20)
    ctx.floor('hxd_disc_while_other_waiting_iso', 10)
    ctx.floor('hxd_big_removed_while_cis_waiting', 10)
    ctx.floor('hxd_refused_disc_with_pending', 30)
    ctx.floor('hxd_traffic_on_reused_handle', 50)
    ctx.floor('hxd_drain_released_by_big', 20)
    # hostx, generated histories
    ctx.floor('hx_only_later_entry_unblocks', 15)
    ctx.floor('hx_competing_acl', 25)
    ctx.floor('hx_competing_iso', 30)
    ctx.floor('hx_competing_shared_acl', 10)
    ctx.floor('hx_both_acl_pools_busy', 30)
    ctx.floor('hx_disc_while_other_waiting_acl', 20)
    ctx.floor('hx_disc_while_other_waiting_iso', 6)
    ctx.floor('hx_big_removed_with_pending', 15)
    ctx.floor('hx_big_removed_while_cis_waiting', 2)
    ctx.floor('hx_refused_disc_with_pending', 8)
    ctx.floor('hx_traffic_on_reused_handle', 4)
    # small-scope exhaustive families: complete (quick: 2 * 9**4 and 8 * 5**5 histories; a thorough shard has more)
    ctx.floor('qx_cases', 2 * 9**4)
    ctx.floor('qx_flush_while_other_waiting', 350)
    ctx.floor('qx_competing_connections', 500)
    ctx.floor('qx_over_report_with_other_in_flight', 3500)
    ctx.floor('qx_drain_pending', 3500)
    ctx.floor('px_cases', 8 * 5**5)
    ctx.floor('px_two_queued', 5000)
    ctx.floor('px_paused_during_sink_drain_with_backlog', 2000)


def replay(ctx, case) -> None:
    kind = case['kind']
    if kind == 'queue':
        run_queue_case(ctx, (case['max_in_flight'], case['ops']))
    elif kind == 'host':
        run_host_case(ctx, (case['buffers'], case['ops']))
    elif kind == 'hostx':
        run_hostx_case(ctx, (case['cfg'], case['links'], case['ops']))
    elif kind == 'pipe':
        run_pipe_case(ctx, (case['threshold'], case['with_drain'], case['ops']))
    else:
        raise ValueError(kind)
