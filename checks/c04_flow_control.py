"""
C04 - Outbound data obeys controller buffer credits, stays FIFO and never stalls.

Generated operation histories (plain data) are interpreted against the real
`bumble.host.DataPacketQueue` / `bumble.utils.FlowControlAsyncPipe` and a small
reference ledger kept by the harness.
"""

from __future__ import annotations

import asyncio
import collections

from hypothesis import strategies as st

from vlib import vloop

PROPERTY = 'C04'
LEVEL = 'exploration'
RULE = (
    'queue: histories of enqueue(conn)/complete(conn,n incl. over-reports and unknown handles)/'
    'flush(conn)/drain(conn) over 1..4 connections and max_in_flight 1..8, interpreted on the real '
    'DataPacketQueue with the harness credit ledger; non-trivial = a flush while another connection '
    'has waiting packets, or >=2 connections competing while credits are exhausted, or an over-report. '
    'host: the same through Host.send_acl_sdu + Number_Of_Completed_Packets events with a recording '
    'controller sink. pipe: histories of write/pause/resume/sink-progress on FlowControlAsyncPipe; '
    'non-trivial = >=2 packets queued when the pump runs. distinct by operation sequence.'
)
ASSUMPTIONS = [
    'completion reports are clamped to what is really in flight for that connection (an over-report '
    'cannot free buffers held by another connection); unknown handles free nothing',
    'drain() raising for a connection that has nothing pending counts as finishing',
]

CONNS = [1, 2, 3, 4]


# ---------------------------------------------------------------------------
# queue machine
# ---------------------------------------------------------------------------
def queue_ops():
    conn = st.sampled_from(CONNS)
    op = st.one_of(
        st.tuples(st.just('enq'), conn),
        st.tuples(st.just('enq'), conn),
        st.tuples(st.just('enq'), conn),
        st.tuples(st.just('done'), conn, st.sampled_from(['one', 'all', 'over', 'over3', 'zero', 'two'])),
        st.tuples(st.just('done'), conn, st.sampled_from(['one', 'all'])),
        st.tuples(st.just('done_unknown'), st.sampled_from([0x77, 0xEFF])),
        st.tuples(st.just('flush'), conn),
        st.tuples(st.just('drain'), conn),
    )
    return st.tuples(st.integers(1, 8), st.lists(op, min_size=1, max_size=40))


def run_queue_case(ctx, case) -> None:
    from bumble.host import DataPacketQueue

    max_in_flight, ops = case
    ops = [tuple(o) for o in ops]
    loop = vloop.new_loop()
    try:
        sent: list[tuple[int, int]] = []  # (pid, conn) in the order handed to the controller
        queue = DataPacketQueue(27, max_in_flight, lambda p: sent.append(p))
        next_pid = 0
        waiting: dict[int, collections.deque] = {c: collections.deque() for c in CONNS}
        inflight: dict[int, int] = collections.defaultdict(int)
        flushed: set = set()
        sent_set: set = set()
        seen_sent = 0
        drains: list[tuple[int, asyncio.Task, int]] = []
        labels = set()
        nontrivial = False

        def fail(sig, what, step):
            ctx.fail(sig, what, {'kind': 'queue', 'max_in_flight': max_in_flight, 'ops': ops[: step + 1]})

        def reconcile(step) -> bool:
            """Account for what the real queue handed to the controller since last step."""
            nonlocal nontrivial
            nonlocal seen_sent
            while seen_sent < len(sent):
                pid, conn = sent[seen_sent]
                seen_sent += 1
                if pid in sent_set:
                    fail('queue/duplicate_send', 'a packet was handed to the controller twice', step)
                    return False
                if (pid, conn) in flushed:
                    fail('queue/sent_after_flush', 'a packet discarded by flush was sent later', step)
                    return False
                if not waiting[conn] or waiting[conn][0] != pid:
                    fail('queue/order', 'per-connection submission order not preserved', step)
                    return False
                waiting[conn].popleft()
                inflight[conn] += 1
                sent_set.add(pid)
            total = sum(inflight.values())
            if total > max_in_flight:
                fail(
                    'queue/over_credit',
                    f'{total} packets in flight at the controller, buffer count {max_in_flight}',
                    step,
                )
                return False
            n_waiting = sum(len(w) for w in waiting.values())
            if n_waiting and total < max_in_flight:
                op = ops[step][0]
                fail(
                    f'queue/stall_after_{op}',
                    f'{n_waiting} packet(s) waiting while only {total}/{max_in_flight} buffers are in use',
                    step,
                )
                return False
            return True

        for step, op in enumerate(ops):
            kind = op[0]
            if kind == 'enq':
                conn = op[1]
                pid = next_pid
                next_pid += 1
                waiting[conn].append(pid)
                if sum(inflight.values()) >= max_in_flight and sum(
                    1 for c in CONNS if waiting[c]
                ) >= 2:
                    labels.add('competing_connections')
                    nontrivial = True
                queue.enqueue((pid, conn), conn)
            elif kind == 'done':
                conn, how = op[1], op[2]
                have = inflight[conn]
                n = {'one': 1, 'all': max(have, 1), 'over': have + 1, 'over3': have + 3, 'zero': 0, 'two': 2}[how]
                if n > have:
                    labels.add('over_report')
                    if sum(inflight.values()) > have:
                        labels.add('over_report_with_other_in_flight')
                        nontrivial = True
                inflight[conn] -= min(n, have)
                queue.on_packets_completed(n, conn)
            elif kind == 'done_unknown':
                labels.add('unknown_handle')
                queue.on_packets_completed(1, op[1])
            elif kind == 'flush':
                conn = op[1]
                others_waiting = any(waiting[c] for c in CONNS if c != conn)
                if others_waiting and (inflight[conn] or waiting[conn]):
                    labels.add('flush_while_other_waiting')
                    nontrivial = True
                for pid in waiting[conn]:
                    flushed.add((pid, conn))
                waiting[conn].clear()
                inflight[conn] = 0
                queue.flush(conn)
            elif kind == 'drain':
                conn = op[1]
                pend = inflight[conn] + len(waiting[conn])
                labels.add('drain_pending' if pend else 'drain_idle')
                task = loop.create_task(queue.drain(conn))
                drains.append((conn, task, step))
            if not reconcile(step):
                break
            # let drain waiters run
            loop.settle()
            for conn, task, started in list(drains):
                pend = inflight[conn] + len(waiting[conn])
                if task.done():
                    drains.remove((conn, task, started))
                    exc = task.exception() if not task.cancelled() else None
                    if pend:
                        if exc is not None:
                            fail(
                                'queue/drain_raises_with_pending',
                                f'drain() raised {type(exc).__name__} while {pend} packet(s) of the connection are pending',
                                step,
                            )
                        else:
                            fail(
                                'queue/drain_early',
                                f'drain() finished while {pend} packet(s) of the connection are still pending',
                                step,
                            )
                        break
                elif pend == 0:
                    fail(
                        'queue/drain_hangs',
                        'drain() still waiting although every packet of the connection was completed or discarded',
                        step,
                    )
                    break
            else:
                # counters
                model_pending = sum(inflight.values()) + sum(len(w) for w in waiting.values())
                if queue.pending != model_pending and 'over_report' not in labels:
                    fail(
                        'queue/pending_counter',
                        f'pending={queue.pending} but {model_pending} packets are queued or in flight',
                        step,
                    )
                    break
                continue
            break
        ctx.case(('q', max_in_flight, ops), nontrivial, labels, sample={'queue': [max_in_flight, ops[:12]]})
    finally:
        loop.shutdown()


# ---------------------------------------------------------------------------
# host-level machine: Host.send_acl_sdu + completion events through a recording sink
# ---------------------------------------------------------------------------
def host_ops():
    conn = st.sampled_from([0, 1])
    op = st.one_of(
        st.tuples(st.just('send'), conn, st.integers(1, 5)),  # number of fragments
        st.tuples(st.just('done'), conn, st.integers(1, 3)),
        st.tuples(st.just('disc'), conn),
    )
    return st.tuples(st.integers(1, 4), st.lists(op, min_size=2, max_size=25))


def run_host_case(ctx, case) -> None:
    from bumble import hci
    from bumble.host import Host

    n_buffers, ops = case
    ops = [tuple(o) for o in ops]
    frag = 8
    loop = vloop.new_loop()
    try:
        class Sink:
            def __init__(self):
                self.packets = []

            def on_packet(self, packet):
                self.packets.append(bytes(packet))

        sink = Sink()
        host = Host()
        host.set_packet_sink(sink)
        host.ready = True
        # what reset() learns from LE Read Buffer Size, without running a controller
        from bumble.host import DataPacketQueue

        host.le_acl_packet_queue = DataPacketQueue(frag, n_buffers, host.send_hci_packet)
        host.acl_packet_queue = host.le_acl_packet_queue
        handles = [0x40, 0x41]
        live = {}

        def connect(i):
            host.on_hci_le_connection_complete_event(
                hci.HCI_LE_Connection_Complete_Event(
                    status=0,
                    connection_handle=handles[i],
                    role=0,
                    peer_address_type=0,
                    peer_address=hci.Address(f'F0:F0:F0:F0:F0:F{i}'),
                    connection_interval=6,
                    peripheral_latency=0,
                    supervision_timeout=100,
                    central_clock_accuracy=0,
                )
            )
            live[i] = True

        connect(0)
        connect(1)
        inflight = {0: 0, 1: 0}
        expected: dict[int, collections.deque] = {0: collections.deque(), 1: collections.deque()}
        seen = 0
        counter = 0
        labels = set()
        nontrivial = False

        def fail(sig, what, step):
            ctx.fail(sig, what, {'kind': 'host', 'buffers': n_buffers, 'ops': ops[: step + 1]})

        for step, op in enumerate(ops):
            kind, i = op[0], op[1]
            if kind == 'send':
                if not live.get(i):
                    continue
                payload = bytes([(counter + k) & 0xFF for k in range(op[2] * frag - 4)])
                counter += 1
                pdu = len(payload).to_bytes(2, 'little') + (0x40).to_bytes(2, 'little') + payload
                for off in range(0, len(pdu), frag):
                    expected[i].append(pdu[off : off + frag])
                host.send_l2cap_pdu(handles[i], 0x40, payload)
            elif kind == 'done':
                n = op[2]
                if n > inflight[i]:
                    labels.add('over_report')
                inflight[i] -= min(n, inflight[i])
                host.on_packet(
                    bytes(
                        hci.HCI_Number_Of_Completed_Packets_Event(
                            connection_handles=[handles[i]], num_completed_packets=[n]
                        )
                    )
                )
            elif kind == 'disc':
                if not live.get(i):
                    continue
                other = 1 - i
                if expected[other] and (expected[i] or inflight[i]):
                    labels.add('disconnect_while_other_waiting')
                    nontrivial = True
                expected[i].clear()
                inflight[i] = 0
                live[i] = False
                host.on_packet(
                    bytes(
                        hci.HCI_Disconnection_Complete_Event(
                            status=0, connection_handle=handles[i], reason=0x13
                        )
                    )
                )
            loop.settle()
            bad = False
            while seen < len(sink.packets):
                raw = sink.packets[seen]
                seen += 1
                if raw[0] != hci.HCI_ACL_DATA_PACKET:
                    continue
                handle = int.from_bytes(raw[1:3], 'little') & 0xFFF
                data = raw[5:]
                if handle not in handles:
                    fail('host/unknown_handle_sent', 'ACL packet for a handle that was never connected', step)
                    bad = True
                    break
                j = handles.index(handle)
                if not expected[j] or expected[j][0] != data:
                    fail('host/order', 'ACL fragment out of order, duplicated or sent after its connection was flushed', step)
                    bad = True
                    break
                expected[j].popleft()
                inflight[j] += 1
            if bad:
                break
            total = inflight[0] + inflight[1]
            waiting = len(expected[0]) + len(expected[1])
            if total > n_buffers:
                fail('host/over_credit', f'{total} ACL packets in flight, controller advertised {n_buffers}', step)
                break
            if waiting and total < n_buffers:
                fail(
                    f'host/stall_after_{kind}',
                    f'{waiting} fragment(s) waiting while only {total}/{n_buffers} buffers are in use',
                    step,
                )
                break
            if waiting and expected[0] and expected[1]:
                labels.add('competing_connections')
                nontrivial = True
        ctx.case(('h', n_buffers, ops), nontrivial, labels, sample={'host': [n_buffers, ops[:10]]})
    finally:
        loop.shutdown()


# ---------------------------------------------------------------------------
# pipe machine
# ---------------------------------------------------------------------------
def pipe_ops():
    op = st.one_of(
        st.tuples(st.just('write'), st.integers(1, 6)),
        st.tuples(st.just('write'), st.integers(1, 6)),
        st.just(('pause',)),
        st.just(('resume',)),
        st.just(('progress',)),
        st.just(('progress',)),
        st.just(('tick',)),
    )
    return st.tuples(
        st.integers(0, 12),  # threshold
        st.booleans(),  # sink has a drain coroutine
        st.lists(op, min_size=1, max_size=30),
    )


def run_pipe_case(ctx, case) -> None:
    from bumble.utils import FlowControlAsyncPipe

    threshold, with_drain, ops = case
    ops = [tuple(o) for o in ops]
    loop = vloop.new_loop()
    try:
        written: list[bytes] = []
        delivered: list[bytes] = []
        gate: list[asyncio.Future] = []
        source_events: list[str] = []
        labels = set()
        nontrivial = False

        async def drain_sink():
            fut = loop.create_future()
            gate.append(fut)
            await fut

        async def setup():
            pipe = FlowControlAsyncPipe(
                lambda: source_events.append('pause'),
                lambda: source_events.append('resume'),
                write_to_sink=delivered.append,
                drain_sink=drain_sink if with_drain else None,
                threshold=threshold,
            )
            pipe.start()
            return pipe

        pipe = loop.complete(setup())
        loop.settle()
        paused = False

        def fail(sig, what, step):
            ctx.fail(sig, what, {'kind': 'pipe', 'threshold': threshold, 'with_drain': with_drain, 'ops': ops[: step + 1]})

        def check_prefix(step) -> bool:
            if delivered != written[: len(delivered)]:
                # classify: reorder vs duplicate vs invented
                if sorted(delivered) == sorted(written[: len(delivered)]) or all(d in written for d in delivered):
                    fail('pipe/order', 'packets delivered to the sink in a different order than written (or duplicated)', step)
                else:
                    fail('pipe/corrupt', 'sink received a packet that was never written', step)
                return False
            return True

        n = 0
        ok = True
        for step, op in enumerate(ops):
            kind = op[0]
            if kind == 'write':
                n += 1
                packet = bytes([n & 0xFF]) * op[1] + n.to_bytes(2, 'big')
                written.append(packet)
                if len(pipe.queue) >= 1:
                    labels.add('two_queued')
                    nontrivial = True
                pipe.write(packet)
            elif kind == 'pause':
                paused = True
                pipe.pause()
                labels.add('pause')
            elif kind == 'resume':
                paused = False
                pipe.resume()
            elif kind == 'progress':
                if gate:
                    gate.pop(0).set_result(None)
                    labels.add('sink_progress')
            loop.settle()
            if not check_prefix(step):
                ok = False
                break
        if ok:
            # quiescence: un-pause, let the sink make progress until nothing moves
            pipe.resume()
            for _ in range(len(written) + 2):
                loop.settle()
                while gate:
                    gate.pop(0).set_result(None)
                    loop.settle()
            step = len(ops) - 1
            if check_prefix(step) and delivered != written:
                fail(
                    'pipe/lost',
                    f'{len(written) - len(delivered)} written packet(s) never reached the sink at quiescence',
                    step,
                )
        pipe.stop()
        ctx.case(('p', threshold, with_drain, ops), nontrivial, labels, sample={'pipe': [threshold, with_drain, ops[:10]]})
    finally:
        loop.shutdown()


# ---------------------------------------------------------------------------
def run(ctx) -> None:
    vloop.selftest()
    ctx.hyp('queue', lambda c: run_queue_case(ctx, c), queue_ops(), max_examples=ctx.n(1500, 150000))
    ctx.hyp('host', lambda c: run_host_case(ctx, c), host_ops(), max_examples=ctx.n(500, 40000))
    ctx.hyp('pipe', lambda c: run_pipe_case(ctx, c), pipe_ops(), max_examples=ctx.n(800, 60000))
    ctx.floor('flush_while_other_waiting', 10)
    ctx.floor('competing_connections', 10)
    ctx.floor('two_queued', 10)


def replay(ctx, case) -> None:
    kind = case['kind']
    if kind == 'queue':
        run_queue_case(ctx, (case['max_in_flight'], case['ops']))
    elif kind == 'host':
        run_host_case(ctx, (case['buffers'], case['ops']))
    elif kind == 'pipe':
        run_pipe_case(ctx, (case['threshold'], case['with_drain'], case['ops']))
    else:
        raise ValueError(kind)
