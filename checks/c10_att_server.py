"""
C10 - The ATT server answers each request exactly once and within ATT_MTU.

Victim: a full Bumble Device with a generated GATT database.  Client: a raw peer that
writes hand-made ATT PDUs on the fixed ATT bearer (L2CAP CID 4), or a second Bumble Device
that opens enhanced credit based channels to the EATT PSM and writes raw ATT PDUs on them.
Every case is plain data (database description, MTUs, list of operations); the oracle is an
invariant over the recorded bearer history (time, direction, bearer, PDU bytes).
"""

from __future__ import annotations

import asyncio
import itertools
import zlib

from hypothesis import strategies as st

from bumble import att, core, hci, l2cap
from bumble.gatt import Characteristic, CharacteristicValue, Descriptor, Service
from vlib import specgen, vloop, world
from vlib.runner import HarnessError

PROPERTY = 'C10'
LEVEL = 'exploration'
RULE = (
    'cases = (generated GATT database: 1..3 services, includes, characteristics with any property/'
    'permission mask, descriptors, 16-/128-bit UUIDs, static and dynamic values of 0..512 bytes whose '
    'callbacks return or raise ATT_Error, sync or async) x (server max_mtu 23..517, client MTU by a real '
    'Exchange MTU Request, link security flags, HCI delays) x (sequence of operations: raw ATT PDUs of every '
    'opcode 0x00..0xFF - defined classes enumerated from ATT_PDU.pdu_classes with field-driven adversarial '
    'parameters, truncated/padded variants, undefined opcodes with random payloads - plus notify_subscribers/'
    'indicate_subscribers calls and a confirmation policy) on the fixed bearer or on 1..2 enhanced bearers; '
    'sweep: every opcode 0x00..0xFF x generated parameterisations x 3 fixed databases x MTUs; fill: dense databases '
    '(3..12 services of one UUID, 3..12 same-typed equal-valued characteristics with descriptors) x ATT_MTU 23..48 x '
    'one full-range multi-entry request of each kind (responses assembled from several attributes, at every residue of '
    'ATT_MTU modulo the entry size); '
    'histories: topologies fixed (raw peer) and mixed (the fixed bearer AND 1..2 enhanced bearers of one connection, driven '
    'side by side, each with its own ATT_MTU) x operations as above plus groups of requests that are outstanding on 2..3 '
    'bearers at the same time (never two on one bearer), the per-bearer API notify_subscriber/indicate_subscriber on the '
    'Connection (fan-out over its bearers) or on one bearer, requests whose value callback takes 3..8 s, and 0..2 link '
    'losses (HCI Disconnect by the peer or by the victim, after quiescence = clean, or with whatever is in flight = abrupt) '
    'after which the client comes back on the same connection handle with new bearers; enumerated: (fixed, mixed) x who '
    'disconnects x (abrupt, clean) x ATT_MTU before (23, 100, 517) x what is in flight (4 slow requests, slow '
    'indication/notification, unconfirmed indication, nothing) x what is asked of the new connection; Exchange MTU on ONE '
    'of the 2..3 bearers x a long read on every bearer (in turn / at once) or a long notification/indication to every '
    'bearer (both APIs); one bearer that never confirms x three rounds of indications to all bearers. '
    'non-trivial = some window is not a plain successful single-attribute read: Error Response, '
    'multi-attribute response, PDU filled to ATT_MTU, malformed request, undefined/command/wrong-way opcode, '
    'or a server-initiated notification/indication; distinct by (database, MTUs, PDU bytes, operations).'
)
ASSUMPTIONS = [
    'a caller that gives up a send (task.cancel() on indicate_subscriber / indicate_subscribers) is ordinary use of the asyncio API; '
    'the clause "at most one indication per bearer awaiting confirmation" is judged on the wire and does not go away with the caller',
    'a request is sent only after the previous request window is quiescent (ATT is sequential); commands, '
    'confirmations and other non-requests may be sent back to back',
    'silence = no PDU in either direction during 35 virtual seconds (beyond the 30 s GATT timeout and every '
    'callback delay) with no harness timer and no notify/indicate call pending',
    'the bearer ATT_MTU is max(23, min(client_rx, server_rx)) read from the Exchange MTU PDUs on the wire; '
    'after a repeated exchange both the old and the new value are accepted (larger one is the bound)',
    'enhanced bearers: ATT_MTU = min of the MTU fields of the L2CAP credit based connection request/response '
    'seen on the wire; Exchange MTU Requests on an enhanced bearer carry client_rx_mtu <= that value '
    '(whether a server may raise the MTU there is not settled by the property)',
    'the indication clause is judged in the order in which the victim itself sent / was handed PDUs at its HCI '
    'boundary (a confirmation that crosses an indication on the air counts as the server sees it); an indication '
    'is no longer awaiting confirmation once a confirmation arrived or 30 s have passed',
    'a peer indication (0x1D) may be answered by one Handle Value Confirmation (GATT client role of the '
    'same device); an undefined opcode without command bit by silence or one Error Response naming it',
    'a PDU with a request opcode that is too short / has an invalid field length is still a request: '
    'exactly one PDU (an Error Response) is expected',
    'enhanced bearers: client PDUs are cut to the server channel MTU and are never empty (one PDU = one SDU)',
    'after a count violation on a bearer the rest of that bearer history is not judged (state unknown)',
    'the process-wide UUID registry (bumble.core.UUID.UUIDS) is restored after every case',
    'requests may be outstanding on different bearers of one connection at the same time (each bearer has its own '
    'sequential transaction); if a generated or shrunk sequence would put a second request on a bearer that still has '
    'one outstanding, the driver first waits for quiescence',
    'mixed topology: ATT_MTU is tracked per bearer from the wire (Exchange MTU PDUs on the fixed bearer, the L2CAP MTU '
    'fields for enhanced bearers); an exchange on one bearer does not change what is allowed on another',
    'notify_subscriber/indicate_subscriber(Connection) may reach each bearer of that connection at most once per call, '
    'notify_subscriber/indicate_subscriber(one bearer) that bearer at most once (counted per window like the other calls)',
    'link loss: a request that was outstanding when the link went down is owed no answer (window marked cut); the new '
    'connection has new bearers: the fixed one starts at ATT_MTU 23, the enhanced ones at their channel MTUs, nothing is '
    'subscribed, no indication is outstanding; every PDU the peer receives on the new connection is judged against these '
    'new bearers by the same clauses (size, one answer per request of THIS connection, nothing unsolicited). Violations '
    'seen on a connection whose predecessor went down with an operation in flight carry the prefix after_link_loss/',
    'a confirmation that falls due while the link is down is not sent; one that falls due after the client is back is '
    'sent on the new connection (a confirmation without indication: nothing is expected in return)',
]
SHRINK_KEYS = ('ops', 'services')

QUIET = 35.0
MAX_ROUNDS = 16
IND_TIMEOUT = 30.0
HORIZON = 200000.0

# --- harness-side protocol tables (Core spec Vol 3 Part F 3.4.8), independent of bumble.att -------------
REQ_RSP = {
    0x02: 0x03, 0x04: 0x05, 0x06: 0x07, 0x08: 0x09, 0x0A: 0x0B, 0x0C: 0x0D, 0x0E: 0x0F,
    0x10: 0x11, 0x12: 0x13, 0x16: 0x17, 0x18: 0x19, 0x20: 0x21,
}
OPNAMES = {
    0x01: 'ERROR_RESPONSE', 0x02: 'EXCHANGE_MTU_REQUEST', 0x03: 'EXCHANGE_MTU_RESPONSE',
    0x04: 'FIND_INFORMATION_REQUEST', 0x05: 'FIND_INFORMATION_RESPONSE',
    0x06: 'FIND_BY_TYPE_VALUE_REQUEST', 0x07: 'FIND_BY_TYPE_VALUE_RESPONSE',
    0x08: 'READ_BY_TYPE_REQUEST', 0x09: 'READ_BY_TYPE_RESPONSE', 0x0A: 'READ_REQUEST',
    0x0B: 'READ_RESPONSE', 0x0C: 'READ_BLOB_REQUEST', 0x0D: 'READ_BLOB_RESPONSE',
    0x0E: 'READ_MULTIPLE_REQUEST', 0x0F: 'READ_MULTIPLE_RESPONSE',
    0x10: 'READ_BY_GROUP_TYPE_REQUEST', 0x11: 'READ_BY_GROUP_TYPE_RESPONSE',
    0x12: 'WRITE_REQUEST', 0x13: 'WRITE_RESPONSE', 0x16: 'PREPARE_WRITE_REQUEST',
    0x17: 'PREPARE_WRITE_RESPONSE', 0x18: 'EXECUTE_WRITE_REQUEST', 0x19: 'EXECUTE_WRITE_RESPONSE',
    0x1B: 'HANDLE_VALUE_NOTIFICATION', 0x1D: 'HANDLE_VALUE_INDICATION',
    0x1E: 'HANDLE_VALUE_CONFIRMATION', 0x20: 'READ_MULTIPLE_VARIABLE_REQUEST',
    0x21: 'READ_MULTIPLE_VARIABLE_RESPONSE', 0x23: 'MULTIPLE_HANDLE_VALUE_NOTIFICATION',
    0x52: 'WRITE_COMMAND', 0xD2: 'SIGNED_WRITE_COMMAND',
}
MULTI_RSP = {0x05, 0x07, 0x09, 0x0F, 0x11, 0x21}
UNDEFINED = [o for o in range(256) if o not in OPNAMES]


def opname(op: int) -> str:
    return OPNAMES.get(op, f'OP_{op:02X}')


def klass(op: int) -> str:
    if op in REQ_RSP:
        return 'request'
    if op & 0x40:
        return 'command'
    if op == 0x1E:
        return 'confirmation'
    if op == 0x1D:
        return 'indication'
    if op in OPNAMES:
        return 'wrong_way'
    return 'undefined'


def malformed(pdu: bytes) -> bool:
    """A PDU with a request opcode whose length does not fit the request's layout."""
    op, n = pdu[0], len(pdu)
    if op == 0x02:
        return n < 3
    if op in (0x04, 0x0C):
        return n < 5
    if op == 0x06:
        return n < 7
    if op in (0x08, 0x10):
        return n not in (7, 21)
    if op in (0x0A, 0x12):
        return n < 3
    if op in (0x0E, 0x20):
        return (n - 1) % 2 == 1
    if op == 0x16:
        return n < 5
    if op == 0x18:
        return n < 2
    return False


def is_error_for(pdu: bytes, op: int) -> bool:
    return len(pdu) == 5 and pdu[0] == 0x01 and pdu[1] == op


# ---------------------------------------------------------------------------
# database description -> real attributes
# ---------------------------------------------------------------------------
def u16(v: int) -> bytes:
    return v.to_bytes(2, 'little')


U128_A = bytes.fromhex('6e400001b5a3f393e0a9e50e24dcca9e')
U128_B = bytes.fromhex('c6b2f38c23ab46d8a6aba3a870bbd5d7')
U128_C = bytes.fromhex('00112233445566778899aabbccddeeff')
SVC_UUIDS = [u16(0x180F), u16(0xABCD), u16(0x1812), U128_A]
CHAR_UUIDS = [u16(0x2A19), u16(0x1234), u16(0x1234), u16(0x1235), U128_B, U128_C]
DESC_UUIDS = [u16(0x2901), u16(0x2904), u16(0x2900), U128_C, u16(0x2902)]


def pattern(n: int) -> bytes:
    return bytes((i * 7 + n) & 0xFF for i in range(n))


def make_value(vs: dict):
    kind = vs['kind']
    data = pattern(int(vs['len']))
    if kind == 'static':
        return data
    if kind == 'none':
        return None
    cell = {'v': data}
    delay = float(vs.get('delay') or 0)
    is_async = kind.endswith('_async')
    rerr = vs.get('err') if kind.startswith('err') else None
    werr = vs.get('werr')

    def do_read():
        if rerr:
            raise att.ATT_Error(rerr)
        return cell['v']

    def do_write(value):
        if werr:
            raise att.ATT_Error(werr)
        cell['v'] = bytes(value)

    if is_async:
        async def read(_bearer):
            await asyncio.sleep(delay)
            return do_read()

        async def write(_bearer, value):
            await asyncio.sleep(delay)
            do_write(value)
    else:
        def read(_bearer):
            return do_read()

        def write(_bearer, value):
            do_write(value)

    cls = att.AttributeValueV2 if kind.startswith('v2') else CharacteristicValue
    return cls(read=read, write=write)


def build_db(device, db: dict) -> dict:
    """Adds the described services to the device; returns id(attribute) -> value description."""
    info: dict = {}
    specs = db['services']
    built: list = [None] * len(specs)

    def build(i: int):
        if built[i] is not None:
            return built[i]
        s = specs[i]
        included = []
        for off in s.get('inc', []):
            j = i + int(off)
            if i < j < len(specs):
                inc = build(j)
                if inc not in included:
                    included.append(inc)
        chars = []
        for c in s['chars']:
            for _ in range(max(1, int(c.get('rep', 1)))):
                if len(chars) >= 12:
                    break
                descs = []
                for d in c.get('descs', []):
                    dobj = Descriptor(core.UUID.from_bytes(bytes(d['uuid'])), att.Attribute.Permissions(d['perms']),
                                      make_value(d['value']))
                    info[id(dobj)] = d['value']
                    descs.append(dobj)
                cobj = Characteristic(
                    core.UUID.from_bytes(bytes(c['uuid'])), Characteristic.Properties(c['props']),
                    att.Attribute.Permissions(c['perms']), make_value(c['value']), descs,
                )
                info[id(cobj)] = c['value']
                chars.append(cobj)
        built[i] = Service(core.UUID.from_bytes(bytes(s['uuid'])), chars, primary=bool(s['primary']),
                           included_services=included)
        return built[i]

    for i in range(len(specs)):
        svc = build(i)
        if svc not in device.gatt_server.services:
            device.add_service(svc)
    return info


def make_layout(device, info: dict) -> dict:
    attrs = []
    for a in device.gatt_server.attributes:
        spec = info.get(id(a))
        static = bytes(a.value) if isinstance(a.value, (bytes, bytearray)) else None
        if spec is not None:
            vlen = int(spec['len'])
        else:
            vlen = len(static) if static is not None else 2
        attrs.append({
            'h': a.handle, 'type': a.type.to_pdu_bytes(), 'vlen': vlen, 'static': static,
            'val': isinstance(a, (Characteristic, Descriptor)),
            'char': isinstance(a, Characteristic),
            'sub': isinstance(a, Characteristic) and bool(int(a.properties) & 0x30),
            'cccd': a.type.to_pdu_bytes() == u16(0x2902),
            'slow': spec is not None and str(spec.get('kind', '')).endswith('_async') and float(spec.get('delay') or 0) >= 1,
        })
    return {
        'attrs': attrs,
        'by_h': {a['h']: a for a in attrs},
        'last': attrs[-1]['h'],
        'val': [a for a in attrs if a['val']] or attrs,
        'cccd': [a for a in attrs if a['cccd']] or attrs,
        'sub': [a for a in attrs if a['sub']] or [a for a in attrs if a['char']] or attrs,
        'long': [a for a in attrs if a['vlen'] > 22] or attrs,
        'tv': [a for a in attrs if a['static'] is not None and len(a['type']) == 2] or attrs,
        'slow': [a for a in attrs if a['slow']] or [a for a in attrs if a['val']] or attrs,
    }


# ---------------------------------------------------------------------------
# PDU templates (symbolic handles/offsets) -> bytes
# ---------------------------------------------------------------------------
def pick(sel, L):
    """handle selector -> (attribute description or None, handle)."""
    mode, k = sel[0], int(sel[1])
    if mode == 'zero':
        return None, 0
    if mode == 'past':
        return None, min(0xFFFF, L['last'] + 1 + k)
    if mode == 'max':
        return None, 0xFFFF
    if mode == 'raw':
        return L['by_h'].get(k), k
    pool = {'any': L['attrs'], 'val': L['val'], 'cccd': L['cccd'], 'sub': L['sub'], 'long': L['long'], 'slow': L['slow']}[mode]
    a = pool[k % len(pool)]
    return a, a['h']


def render(t: dict, L: dict) -> bytes:
    out = bytes([t['op']])
    last = None
    for part in t['parts']:
        kind = part[0]
        if kind == 'lit':
            out += bytes(part[1])
        elif kind == 'h':
            last, h = pick(part[1], L)
            out += u16(h)
        elif kind == 'hset':
            for sel in part[1]:
                last, h = pick(sel, L)
                out += u16(h)
        elif kind == 'off':
            base = last['vlen'] if last else 0
            out += u16(max(0, min(0xFFFF, base + int(part[1]))))
        elif kind == 'uuidof':
            out += L['attrs'][int(part[1]) % len(L['attrs'])]['type']
        elif kind == 'typeof':  # type of the attribute a handle selector picks
            a, _h = pick(part[1], L)
            out += a['type'] if a else u16(0x2800)
        elif kind == 'valof':
            a = L['attrs'][int(part[1]) % len(L['attrs'])]
            out += a['static'] or b''
        elif kind == 'tv':  # type of an attribute followed by its (static) value
            a = L['tv'][int(part[1]) % len(L['tv'])]
            out += a['type'][:2] + (a['static'] or b'')
        else:
            raise HarnessError(f'unknown template part {part!r}')
    cut = int(t.get('cut', 0))
    if cut:
        out = out[: max(1, len(out) - cut)]
    return out + bytes(t.get('pad', b''))


def weighted(*pairs):
    """one_of with weights (one_of itself drops repeated branches and flattens nested one_ofs)."""
    index = [i for i, (w, _s) in enumerate(pairs) for _ in range(w)]
    return st.sampled_from(index).flatmap(lambda i: pairs[i][1])


H_SEL = weighted(
    (2, st.tuples(st.just('any'), st.integers(0, 63))),
    (4, st.tuples(st.just('val'), st.integers(0, 23))),
    (2, st.tuples(st.just('long'), st.integers(0, 15))),
    (1, st.tuples(st.just('cccd'), st.integers(0, 5))),
    (3, st.sampled_from([('zero', 0), ('past', 0), ('past', 1), ('max', 0), ('max', 0), ('raw', 1), ('raw', 3), ('raw', 0xFFFE)])),
    (1, st.tuples(st.just('raw'), st.integers(0, 0xFFFF))),
)
START_SEL = weighted((1, st.sampled_from([('raw', 1), ('raw', 1), ('raw', 1), ('zero', 0)])), (1, H_SEL))
END_SEL = weighted((1, st.sampled_from([('max', 0), ('max', 0), ('max', 0), ('past', 0)])), (1, H_SEL))
LENS = st.one_of(
    st.sampled_from([0, 1, 2, 18, 19, 20, 21, 22, 23, 24, 60, 100, 250, 251, 252, 253, 254, 255, 256, 300, 511, 512]),
    st.integers(0, 512),
)
MTUS = st.one_of(
    st.sampled_from([23, 24, 25, 26, 27, 28, 29, 30, 48, 64, 100, 185, 247, 255, 256, 257, 512, 517]),
    st.integers(23, 517),
)
CLIENT_MTUS = weighted((4, MTUS), (1, st.sampled_from([0, 1, 22, 518, 1024, 0xFFFF])))
UUID_PART = weighted(
    (4, st.tuples(st.just('uuidof'), st.integers(0, 63))),
    (4, st.sampled_from([('lit', u16(v)) for v in (0x2800, 0x2800, 0x2801, 0x2802, 0x2803, 0x2803, 0x2902, 0x2A00, 0x1234,
                                               0x1234, 0x1235, 0x1235, 0x2A19, 0x2901, 0x2904, 0x2900)])),
    (2, st.sampled_from([('lit', U128_A), ('lit', U128_B), ('lit', U128_C)])),
    (1, st.binary(min_size=16, max_size=16).map(lambda b: ('lit', b))),
    (2, st.sampled_from([0, 1, 3, 4, 5, 15, 17, 32]).flatmap(lambda n: st.binary(min_size=n, max_size=n)).map(lambda b: ('lit', b))),
)
VALUE_PART = weighted(
    (1, st.tuples(st.just('valof'), st.integers(0, 63))),
    (3, st.sampled_from([0, 0, 1, 2, 2, 3, 19, 20, 21, 22, 100, 511, 512, 513, 600]).map(lambda n: ('lit', pattern(n)))),
    (1, st.binary(max_size=24).map(lambda b: ('lit', b))),
)
HSET_PART = weighted(
    (2, st.lists(H_SEL, min_size=0, max_size=4)),
    (4, st.lists(st.tuples(st.sampled_from(['val', 'val', 'long']), st.integers(0, 23)), min_size=1, max_size=6)),
    (2, st.sampled_from([11, 12, 40, 130, 260, 300]).flatmap(
        lambda n: st.lists(st.tuples(st.sampled_from(['val', 'val', 'any']), st.integers(0, 23)), min_size=n, max_size=n)
    )),
).map(lambda sels: ('hset', sels))


@st.composite
def safe_field(draw, spec, last):
    """Fallback for fields this check has no opinion about: the spec-driven generator's wire bytes."""
    try:
        kind, _d = specgen.classify(spec)
    except specgen.UnknownSpec:
        return ('lit', draw(st.binary(max_size=8)))
    if kind == 'opaque':
        return ('lit', draw(st.binary(max_size=24)))
    _v, wire, _e = draw(specgen.field_value(spec, b'', 64, last))
    return ('lit', bytes(wire))


GROUP_UUID_PART = weighted(
    (1, st.sampled_from([('lit', u16(0x2800)), ('lit', u16(0x2800)), ('lit', u16(0x2801)), ('lit', u16(0x2803))])),
    (1, UUID_PART),
)
_LONG = st.tuples(st.just('long'), st.integers(0, 15))
LONG_SEL = weighted((1, H_SEL), (3, _LONG))


def field_part(name: str, spec, last: bool, names=()):
    try:
        kind, d = specgen.classify(spec)
    except specgen.UnknownSpec:
        kind, d = 'unknown', None
    if kind == 'uint' and d == 2 and 'handle' in name:
        sel = START_SEL if name.startswith('starting') else END_SEL if name.startswith('ending') else H_SEL
        if any('offset' in n for n in names):
            sel = LONG_SEL
        return sel.map(lambda s: ('h', s))
    if kind == 'opaque' and 'group_type' in name:
        return GROUP_UUID_PART
    if kind == 'uint' and d == 2 and 'offset' in name:
        return weighted(
            (3, st.sampled_from([-2, -1, -1, 0, 0, 0, 0, 1, 1, 2, 22, -22, -10000, 600]).map(lambda v: ('off', v))),
            (3, st.sampled_from([0, 0, 0, 1, 2, 22, 23, 100]).map(lambda v: ('lit', u16(v)))),
            (1, st.integers(0, 0xFFFF).map(lambda v: ('lit', u16(v)))),
        )
    if kind == 'uint' and d == 2 and 'mtu' in name:
        return CLIENT_MTUS.map(lambda v: ('lit', u16(v)))
    if kind == 'opaque' and 'handles' in name:
        return st.tuples(HSET_PART, st.sampled_from([b'', b'', b'', b'\x03'])).map(
            lambda p: ('hset', p[0][1]) if not p[1] else ('hset+', p[0][1], p[1])
        )
    if kind == 'opaque' and 'type' in name:
        return UUID_PART
    if kind == 'rest':
        return VALUE_PART
    return safe_field(spec, last)


def _flatten(parts):
    out = []
    for p in parts:
        if p[0] == 'hset+':
            out.append(('hset', p[1]))
            out.append(('lit', p[2]))
        else:
            out.append(p)
    return out


def class_template(cls):
    """Strategy: a template for one registered ATT PDU class, driven by its field list."""
    fields = list(cls.fields)
    names = [f[0] for f in fields if not isinstance(f, list)]
    parts = []
    for i, f in enumerate(fields):
        last = i == len(fields) - 1
        if isinstance(f, list):
            parts.append(specgen.fields_strategy([f], 64).map(lambda d: ('lit', bytes(d[1]))))
        else:
            parts.append(field_part(f[0], f[1], last, names))
    cut = st.sampled_from([0] * 16 + [1, 2, 3, 99])
    pad = st.sampled_from([b'', b'', b'', b'', b'', b'', b'', b'', b'\x00', b'\x01\x02\x03'])
    # a type field directly followed by a value field: also the coordinated form (an attribute's type and value)
    coordinated = len(names) >= 2 and names[-2:] == ['attribute_type', 'attribute_value']
    coord = st.one_of(st.none(), st.integers(0, 31)) if coordinated else st.none()

    def build(d):
        ps = _flatten(d[0])
        if d[3] is not None:
            ps = ps[:-2] + [('tv', d[3])]
        return {'op': int(cls.op_code), 'parts': ps, 'cut': d[1], 'pad': d[2]}

    return st.tuples(st.tuples(*parts), cut, pad, coord).map(build)


def undefined_template(ops=None):
    return st.tuples(st.sampled_from(ops or UNDEFINED), st.binary(max_size=24)).map(
        lambda d: {'op': d[0], 'parts': [('lit', d[1])]}
    )


def opcode_template(op: int):
    cls = att.ATT_PDU.pdu_classes.get(op)
    if cls is None:
        return undefined_template([op])
    # also the plain spec-driven form (arbitrary field values) and a random payload
    generic = specgen.fields_strategy(cls.fields, 64).map(lambda d: {'op': op, 'parts': [('lit', bytes(d[1]))]}) \
        if not _has_opaque(cls) else undefined_template([op])
    return weighted((4, class_template(cls)), (1, generic), (1, undefined_template([op])))


def _has_opaque(cls) -> bool:
    for f in cls.fields:
        if isinstance(f, list):
            continue
        try:
            if specgen.classify(f[1])[0] == 'opaque':
                return True
        except specgen.UnknownSpec:
            return True
    return False


def mtu_template():
    return CLIENT_MTUS.map(lambda v: {'op': 0x02, 'parts': [('lit', u16(v))]})


def subscribe_template(k=None, bits=None):
    ks = st.integers(0, 5) if k is None else st.just(k)
    bs = st.sampled_from([b'\x01\x00', b'\x02\x00', b'\x02\x00', b'\x03\x00', b'\x03\x00', b'\x00\x00', b'\x02', b'\x02\x00\x00']) \
        if bits is None else st.just(bits)
    return st.tuples(ks, bs).map(lambda d: {'op': 0x12, 'parts': [('h', ('cccd', d[0])), ('lit', d[1])]})


LIVENESS = b'\x0a\x03\x00'  # Read Request, handle 3 (Device Name value in the default GAP service)
GAPS = st.sampled_from(['wait', 'wait', 'wait', 'now', 'tick'])


# ---------------------------------------------------------------------------
# databases
# ---------------------------------------------------------------------------
VALUE_KINDS = [
    {'kind': 'static'}, {'kind': 'static'}, {'kind': 'static'}, {'kind': 'static'}, {'kind': 'none'},
    {'kind': 'dyn', 'werr': None}, {'kind': 'dyn', 'werr': 0x03}, {'kind': 'dyn_async', 'werr': 0x80, 'delay': 0.5},
    {'kind': 'dyn_async', 'werr': None, 'delay': 3}, {'kind': 'v2', 'werr': None}, {'kind': 'v2_async', 'werr': 0x0D, 'delay': 0},
    {'kind': 'err', 'err': 0x02, 'werr': 0x03}, {'kind': 'err', 'err': 0x80, 'werr': None}, {'kind': 'err', 'err': 0x0E, 'werr': 0xFE},
    {'kind': 'err_async', 'err': 0x05, 'werr': None, 'delay': 0.5}, {'kind': 'err_async', 'err': 0xFF, 'werr': 0x80, 'delay': 0},
    {'kind': 'err_async', 'err': 0x08, 'werr': None, 'delay': 3},
]


def value_spec():
    return st.tuples(st.sampled_from(VALUE_KINDS), LENS).map(
        lambda d: {'kind': d[0]['kind'], 'len': d[1], 'err': d[0].get('err', 0x80), 'werr': d[0].get('werr'),
                   'delay': d[0].get('delay', 0)}
    )


PERMS = weighted((3, st.sampled_from([0x01, 0x01, 0x03, 0x03, 0x03, 0x03, 0x05, 0x11, 0x41, 0x0B, 0x23, 0])), (1, st.integers(0, 255)))
PROPS = weighted((2, st.sampled_from([0x02, 0x0A, 0x12, 0x22, 0x3A, 0x3A, 0xFF, 0])), (1, st.integers(0, 255)))


def desc_spec():
    return st.tuples(st.sampled_from(DESC_UUIDS), PERMS, value_spec()).map(
        lambda d: {'uuid': d[0], 'perms': d[1], 'value': d[2]}
    )


def char_spec():
    return st.tuples(st.sampled_from(CHAR_UUIDS), PROPS, PERMS, st.sampled_from([1, 1, 1, 1, 2, 4, 8]), value_spec(),
                     st.lists(desc_spec(), max_size=2)).map(
        lambda d: {'uuid': d[0], 'props': d[1], 'perms': d[2], 'rep': d[3], 'value': d[4], 'descs': d[5]}
    )


def db_spec():
    svc = st.tuples(st.sampled_from(SVC_UUIDS), st.sampled_from([True, True, True, False]),
                    st.sampled_from([[], [], [1], [2], [1, 2]]), st.lists(char_spec(), max_size=4)).map(
        lambda d: {'uuid': d[0], 'primary': d[1], 'inc': d[2], 'chars': d[3]}
    )
    # most databases also get one plainly readable/writable long value (long reads, truncation, subscriptions)
    anchor = st.sampled_from([None, None, 30, 60, 100, 300, 512, 44, 45, 46, 200, 511])

    def build(d):
        services, n = d
        if n is not None:
            services = [dict(services[0], chars=services[0]['chars'] + [_ch(u16(0x1235), 0x3A, 0x03, 'static', n)])] + services[1:]
        return {'services': services}

    return st.tuples(st.lists(svc, min_size=1, max_size=3), anchor).map(build)


def _ch(uuid, props, perms, kind, n, rep=1, err=0x80, werr=None, delay=0, descs=()):
    return {'uuid': uuid, 'props': props, 'perms': perms, 'rep': rep,
            'value': {'kind': kind, 'len': n, 'err': err, 'werr': werr, 'delay': delay}, 'descs': list(descs)}


def _de(uuid, perms, kind, n, err=0x80):
    return {'uuid': uuid, 'perms': perms, 'value': {'kind': kind, 'len': n, 'err': err, 'werr': None, 'delay': 0}}


FIXED_DBS = [
    # small: one service, plain readable/writable values, one failing dynamic value
    {'services': [
        {'uuid': u16(0xABCD), 'primary': True, 'inc': [], 'chars': [
            _ch(u16(0x1234), 0x3A, 0x03, 'static', 5),
            _ch(u16(0x1235), 0x0A, 0x03, 'err', 4, err=0x80, werr=0x80),
            _ch(u16(0x2A19), 0x02, 0x01, 'dyn_async', 30, delay=0.5),
        ]},
    ]},
    # dense: many equal-sized attributes of the same type (multi-entry responses), descriptors
    {'services': [
        {'uuid': u16(0x180F), 'primary': True, 'inc': [1], 'chars': [
            _ch(u16(0x1234), 0x02, 0x01, 'static', 1, rep=8),
            _ch(u16(0x1234), 0x12, 0x03, 'static', 2, rep=4, descs=[_de(u16(0x2901), 0x01, 'static', 7)]),
        ]},
        {'uuid': u16(0xABCD), 'primary': False, 'inc': [], 'chars': [
            _ch(u16(0x1235), 0x22, 0x01, 'dyn', 20, rep=4),
        ]},
        {'uuid': u16(0x1812), 'primary': True, 'inc': [], 'chars': []},
    ]},
    # long: 128-bit UUIDs, long values, protected and failing attributes, include
    {'services': [
        {'uuid': U128_A, 'primary': True, 'inc': [1], 'chars': [
            _ch(U128_B, 0x3A, 0x03, 'static', 512, descs=[_de(U128_C, 0x01, 'static', 300)]),
            _ch(U128_B, 0x02, 0x05, 'static', 23),
            _ch(u16(0x1234), 0x02, 0x11, 'static', 100),
            _ch(u16(0x1234), 0x0A, 0x03, 'err_async', 10, err=0x05, werr=0x03, delay=0.5),
            _ch(u16(0x1234), 0x02, 0x41, 'static', 10),
            _ch(U128_C, 0x1A, 0x03, 'v2', 251),
        ]},
        {'uuid': U128_A, 'primary': True, 'inc': [], 'chars': [
            _ch(u16(0x1235), 0x02, 0x01, 'static', 255, rep=2),
        ]},
    ]},
]


# ---------------------------------------------------------------------------
# case strategies
# ---------------------------------------------------------------------------
def op_strategy(nb: int):
    classes = [att.ATT_PDU.pdu_classes[k] for k in sorted(att.ATT_PDU.pdu_classes)]
    requests = [c for c in classes if int(c.op_code) in REQ_RSP]
    any_defined = st.one_of(*[class_template(c) for c in classes])
    any_request = st.one_of(*[class_template(c) for c in requests])
    bearer = st.integers(0, nb - 1)
    pdu = lambda t: st.tuples(st.just('pdu'), t, GAPS, bearer)  # noqa: E731
    target = st.tuples(st.sampled_from(['sub', 'sub', 'sub', 'val']), st.integers(0, 7))
    length = st.one_of(st.none(), LENS, LENS)
    notify = st.tuples(st.just('notify'), target, length, st.sampled_from([False, False, False, True]), GAPS)
    indicate = st.tuples(st.just('indicate'), target, length, st.sampled_from([False, False, False, True]),
                         st.sampled_from(['now', 'now', 'tick', 'wait', 'p1', 'p6']))
    reads = weighted((3, class_template(att.ATT_Read_Blob_Request)), (1, class_template(att.ATT_Read_Request)),
                     (1, class_template(att.ATT_Read_By_Type_Request)))
    return {
        'any': pdu(any_defined), 'request': pdu(any_request), 'undefined': pdu(undefined_template()), 'reads': pdu(reads),
        'sub': pdu(subscribe_template()), 'mtu': pdu(mtu_template()), 'notify': notify, 'indicate': indicate,
        'confirm': st.tuples(st.just('pdu'), st.just(b'\x1e'), st.sampled_from(['now', 'tick', 'wait']), bearer),
        'settle': st.just(('settle',)),
    }


def ops_strategy(nb: int):
    o = op_strategy(nb)
    generic_op = weighted((8, o['request']), (2, o['reads']), (3, o['any']), (1, o['undefined']), (1, o['sub']), (1, o['notify']),
                          (1, o['indicate']), (1, o['mtu']), (1, o['confirm']))
    prefix = weighted((1, st.just([])), (2, o['mtu'].map(lambda x: [x])))
    liveness = st.sampled_from([[], [('pdu', LIVENESS, 'wait', 0)]])
    generic = st.tuples(prefix, st.lists(generic_op, min_size=1, max_size=8), liveness).map(lambda d: d[0] + d[1] + d[2])
    subs = st.lists(
        st.tuples(st.integers(0, 3), st.sampled_from([b'\x02\x00', b'\x03\x00', b'\x03\x00', b'\x01\x00']), st.integers(0, nb - 1)),
        min_size=1, max_size=4,
    ).map(lambda lst: [('pdu', {'op': 0x12, 'parts': [('h', ('cccd', k)), ('lit', bits)]}, 'wait', b) for k, bits, b in lst])
    push_op = weighted((4, o['indicate']), (2, o['notify']), (1, o['request']), (1, o['confirm']), (1, o['undefined']))
    push = st.tuples(prefix, subs, st.lists(push_op, min_size=2, max_size=7), liveness).map(
        lambda d: d[0] + d[1] + d[2] + [('settle',)] + d[3]
    )
    return weighted((3, generic), (1, push))


CONFIRMS = st.sampled_from([[0], [0], [0.2], [5], [29], [None], ['dbl'], [0, 5], [29, 0], [None, 0], [0, 'dbl', 5],
                            [0.2, 5, None], [5, 5, 0], ['dbl', 29], [0, 0, None, 5]])
DELAYS = st.sampled_from([[], [], [], [0, 1], [5, 0, 50]])


def fixed_case():
    return st.fixed_dictionaries({
        'bearer': st.just('fixed'), 'db': db_spec(), 'server_mtu': MTUS,
        'sec': st.sampled_from([[0, 0], [0, 0], [1, 0], [1, 1]]), 'confirm': CONFIRMS, 'delays': DELAYS,
        'ops': ops_strategy(1),
    })


def eatt_case():
    l2 = st.one_of(st.sampled_from([23, 24, 27, 64, 100, 247, 512, 517, 2048]), st.integers(23, 517))
    return st.integers(1, 2).flatmap(lambda nb: st.fixed_dictionaries({
        'bearer': st.just('eatt'), 'nb': st.just(nb), 'l2mtu': st.tuples(l2, l2).map(list),
        'db': db_spec(), 'server_mtu': MTUS,
        'sec': st.sampled_from([[0, 0], [0, 0], [1, 0], [1, 1]]), 'confirm': CONFIRMS, 'delays': DELAYS,
        'ops': ops_strategy(nb),
    }))


FILL_KINDS = ('fbtv_service', 'fbtv_value', 'rbt_value', 'rbt_decl', 'rbt_desc', 'rbgt', 'find_info',
              'read_multiple', 'read_multiple_variable')


def fill_build(kind, slack, n, vl, wide, k, sec):
    """One case of the enumerated `fill` family: a dense database (n services of one UUID, n same-typed
    characteristics with equal-length equal values, each with a descriptor) and one full-range request of a
    multi-entry kind, at an ATT_MTU that `j` entries fill exactly (slack 0), leave 1..3 bytes free, or miss by one."""
    su, cu = (U128_A, U128_B) if wide else (u16(0x180F), u16(0x1234))
    services = [{'uuid': su, 'primary': True, 'inc': [], 'chars': []} for _ in range(n)]
    services[0] = dict(services[0], chars=[_ch(cu, 0x02, 0x01, 'static', vl, rep=n, descs=[_de(u16(0x2901), 0x01, 'static', vl)])])
    full = ('lit', u16(1) + u16(0xFFFF))
    # (response header, entry size, entries available) of the response the request asks for
    if kind == 'fbtv_service':
        t, geo = {'op': 0x06, 'parts': [full, ('lit', u16(0x2800) + su)]}, (1, 4, n)
    elif kind == 'fbtv_value':
        t, geo = {'op': 0x06, 'parts': [full, ('lit', cu[:2] + pattern(vl))]}, (1, 4, n)
    elif kind == 'rbt_value':
        t, geo = {'op': 0x08, 'parts': [full, ('lit', cu)]}, (2, 2 + vl, n)
    elif kind == 'rbt_decl':
        t, geo = {'op': 0x08, 'parts': [full, ('lit', u16(0x2803))]}, (2, 2 + 3 + len(cu), n)
    elif kind == 'rbt_desc':
        t, geo = {'op': 0x08, 'parts': [full, ('lit', u16(0x2901))]}, (2, 2 + vl, n)
    elif kind == 'rbgt':
        t, geo = {'op': 0x10, 'parts': [full, ('lit', u16(0x2800))]}, (2, 4 + len(su), n)
    elif kind == 'find_info':
        t, geo = {'op': 0x04, 'parts': [('lit', u16(1 + k) + u16(0xFFFF))]}, (2, 4, 3 * n)
    elif kind == 'read_multiple':
        t, geo = {'op': 0x0E, 'parts': [('hset', [('val', i + k) for i in range(n + 2)])]}, (1, max(1, vl), n + 2)
    else:
        t, geo = {'op': 0x20, 'parts': [('hset', [('val', i + k) for i in range(n + 2)])]}, (1, 2 + vl, n + 2)
    hdr, entry, avail = geo
    fits = [j for j in range(1, avail) if hdr + entry * j + slack >= 23]
    mtu = min(517, hdr + entry * fits[k % len(fits)] + slack) if fits else 23
    return {
        'bearer': 'fixed', 'db': {'services': services}, 'server_mtu': 517, 'sec': sec, 'confirm': [], 'delays': [],
        'ops': [('pdu', {'op': 0x02, 'parts': [('lit', u16(mtu))]}, 'wait', 0), ('pdu', t, 'wait', 0), ('pdu', LIVENESS, 'wait', 0)],
    }


def fill_cases(ctx):
    """The enumerated family (plain loops): exhaustive over the listed axes in the thorough tier (sharded), a
    quarter of it (rotated by the seed) in the quick tier."""
    i = 0
    rot = ctx.subseed('fill') % 4
    for kind in FILL_KINDS:
        for slack in (0, 1, 2, 3, -1):
            for n in (7, 9, 12):
                for vl in (1, 2, 5, 20):
                    for wide in (False, True):
                        i += 1
                        if ctx.quick and zlib.crc32(b"%d" % i) % 4 != rot:  # thorough: every shard runs the whole family
                            continue
                        yield fill_build(kind, slack, n, vl, wide, i % 5, [0, 0] if i % 3 else [1, 1])


def indicate_overlap_case():
    """Several indications on one subscribed bearer with generated overlaps: each call starts at once, a tick, 1 s or 6 s
    after the previous one, while the peer confirms after 0 / 0.2 / 5 / 29 s or never - so that indications are
    queued behind an unconfirmed one, released by a confirmation, and started while a released one is unconfirmed."""
    db = {'services': [{'uuid': u16(0xABCD), 'primary': True, 'inc': [], 'chars': [
        _ch(u16(0x1234), 0x3A, 0x03, 'static', 5), _ch(u16(0x1235), 0x22, 0x03, 'static', 3)]}]}
    gaps = st.sampled_from(['now', 'now', 'tick', 'p1', 'p1', 'p6'])
    plain = st.tuples(st.just('indicate'), st.tuples(st.just('sub'), st.integers(0, 1)), st.one_of(st.none(), st.integers(0, 30)),
                      st.sampled_from([False, False, True]), gaps)
    # ... whose caller gives up (task.cancel()) 0 / 1 / 50 ms / 2 s / 10 s later, while the indication is queued, unconfirmed or over
    given_up = st.tuples(plain, st.sampled_from([0, 1, 50, 2000, 10000])).map(lambda t: t[0] + ({'giveup_ms': t[1]},))
    # the per-bearer API (indicate_subscriber on the Connection or on the bearer), also with a caller that gives up
    single = st.tuples(st.just('indicate1'), st.tuples(st.just('sub'), st.integers(0, 1)), st.one_of(st.none(), st.integers(0, 30)),
                       st.sampled_from([False, False, True]), gaps, st.sampled_from(['conn', 0]))
    single_given_up = st.tuples(single, st.sampled_from([0, 1, 50, 2000, 10000])).map(lambda t: t[0] + ({'giveup_ms': t[1]},))
    one = st.one_of(plain, plain, given_up, single, single_given_up, single_given_up)
    sub = [('pdu', {'op': 0x12, 'parts': [('h', ('cccd', k)), ('lit', b'\x02\x00')]}, 'wait', 0) for k in (0, 1)]
    return st.tuples(st.lists(one, min_size=3, max_size=6),
                     st.lists(st.sampled_from([0, 0, 0.2, 5, 5, 29, None]), min_size=2, max_size=5),
                     st.sampled_from([23, 64])).map(
        lambda d: {'bearer': 'fixed', 'db': db, 'server_mtu': d[2], 'sec': [0, 0], 'confirm': d[1], 'delays': [],
                   'ops': sub + list(d[0]) + [('settle',), ('pdu', LIVENESS, 'wait', 0)]})


def sweep_case(op: int):
    mt = st.sampled_from([(23, 23), (23, 517), (64, 100), (517, 517), (30, 200), (247, 185)])
    return st.tuples(st.integers(0, len(FIXED_DBS) - 1), mt, opcode_template(op),
                     st.sampled_from([[0, 0], [0, 0], [1, 1]])).map(
        lambda d: {
            'bearer': 'fixed', 'db': FIXED_DBS[d[0]], 'server_mtu': d[1][1], 'sec': d[3], 'confirm': [], 'delays': [],
            'ops': [('pdu', {'op': 0x02, 'parts': [('lit', u16(d[1][0]))]}, 'wait', 0), ('pdu', d[2], 'wait', 0),
                    ('pdu', LIVENESS, 'wait', 0)],
        }
    )


# ---------------------------------------------------------------------------
# histories: several bearers of different ATT_MTU at once (the fixed bearer next to enhanced ones), requests
# outstanding on several bearers at the same time, the per-bearer notify/indicate API, and connections that go
# down and come back (the connection handle is used again, the bearers are new)
# ---------------------------------------------------------------------------
HIST_DB = {'services': [{'uuid': u16(0xABCD), 'primary': True, 'inc': [], 'chars': [
    _ch(u16(0x1234), 0x3A, 0x03, 'static', 60),                  # long value, notify + indicate
    _ch(u16(0x1235), 0x3A, 0x03, 'dyn_async', 40, delay=3),      # slow to read and to write
    _ch(u16(0x1235), 0x22, 0x03, 'static', 3),
    _ch(u16(0x2A19), 0x1A, 0x03, 'dyn_async', 200, delay=8),
    _ch(U128_B, 0x0A, 0x03, 'err_async', 10, err=0x05, werr=0x03, delay=3),
    _ch(U128_C, 0x3A, 0x03, 'static', 300),
]}]}
FULL_RANGE = ('lit', u16(1) + u16(0xFFFF))


def slow_template(kind: str, k: int) -> dict:
    """A request whose handler waits (virtual seconds) for a value callback before it can answer."""
    h = ('h', ('slow', k))
    if kind == 'read':
        return {'op': 0x0A, 'parts': [h]}
    if kind == 'blob':
        return {'op': 0x0C, 'parts': [h, ('lit', u16(0))]}
    if kind == 'write':
        return {'op': 0x12, 'parts': [h, ('lit', pattern(5))]}
    if kind == 'read_by_type':
        return {'op': 0x08, 'parts': [FULL_RANGE, ('typeof', ('slow', k))]}
    if kind == 'read_multiple':
        return {'op': 0x0E, 'parts': [('hset', [('slow', k), ('long', 0)])]}
    return {'op': 0x20, 'parts': [('hset', [('long', 0), ('slow', k)])]}


SLOW_KINDS = ('read', 'blob', 'write', 'read_by_type', 'read_multiple', 'read_multiple_variable')


def history_ops(B: int, reconnects: int):
    """Operation sequences over B bearers of one connection with `reconnects` link losses in between."""
    o = op_strategy(B)
    classes = [att.ATT_PDU.pdu_classes[k] for k in sorted(att.ATT_PDU.pdu_classes)]
    request_t = st.one_of(*[class_template(c) for c in classes if int(c.op_code) in REQ_RSP])
    slow_t = st.tuples(st.sampled_from(SLOW_KINDS), st.integers(0, 3)).map(lambda d: slow_template(*d))
    long_read_t = st.integers(0, 7).map(lambda k: {'op': 0x0A, 'parts': [('h', ('long', k))]})
    any_t = weighted((3, request_t), (2, slow_t), (2, long_read_t))
    bearer = st.integers(0, B - 1)
    slow = st.tuples(st.just('pdu'), slow_t, st.sampled_from(['par', 'par', 'p1', 'tick', 'wait']), bearer)
    target = st.tuples(st.sampled_from(['sub', 'sub', 'sub', 'val', 'slow']), st.integers(0, 7))
    length = st.one_of(st.none(), LENS, LENS)
    whom = weighted((1, st.just('conn')), (1, bearer))
    api = st.tuples(st.sampled_from(['notify1', 'notify1', 'indicate1']), target, length, st.sampled_from([False, False, False, True]),
                    st.sampled_from(['now', 'tick', 'wait', 'wait', 'p1']), whom)
    # requests outstanding on 2..B bearers at once (never two on one bearer), commands in between
    command = st.tuples(st.just('pdu'), st.one_of(class_template(att.ATT_Write_Command), st.just(b'\x1e')), st.just('now'), bearer)

    def par_build(d):
        order, templates, cmds = d
        out = [('pdu', t, 'par', b) for b, t in zip(order, templates)]
        out[1:1] = cmds
        return out + [('settle',)]

    par = st.tuples(st.permutations(list(range(B))), st.lists(any_t, min_size=2, max_size=max(2, B)),
                    st.lists(command, max_size=1)).map(par_build)
    single = weighted((3, o['request']), (2, slow), (2, o['reads']), (2, o['notify']), (2, o['indicate']), (3, api),
                      (1, o['confirm']), (1, o['mtu']), (1, o['sub']))
    chunk = weighted((4, single.map(lambda x: [x])), (3 if B > 1 else 0, par))
    phase = st.lists(chunk, min_size=1, max_size=3).map(lambda ch: [x for c in ch for x in c])
    subs = st.lists(
        st.tuples(st.integers(0, 5), st.sampled_from([b'\x01\x00', b'\x02\x00', b'\x03\x00', b'\x03\x00']), bearer),
        min_size=0, max_size=B + 1,
    ).map(lambda lst: [('pdu', {'op': 0x12, 'parts': [('h', ('cccd', k)), ('lit', bits)]}, 'wait', b) for k, bits, b in lst])
    mtu = st.sampled_from([None, 23, 64, 100, 185, 517, 517]).map(
        lambda v: [] if v is None else [('pdu', {'op': 0x02, 'parts': [('lit', u16(v))]}, 'wait', 0)])
    rec = st.tuples(st.just('reconnect'), st.sampled_from(['abrupt', 'abrupt', 'clean']),
                    st.sampled_from(['peer', 'peer', 'victim'])).map(lambda r: [r])
    parts = [mtu, subs, phase]
    for _ in range(reconnects):
        parts += [rec, mtu, subs, phase]
    return st.tuples(*parts).map(lambda d: [x for part in d for x in part] + [('settle',), ('pdu', LIVENESS, 'wait', 0)])


def history_case():
    l2 = st.one_of(st.sampled_from([23, 27, 64, 100, 247, 512]), st.integers(23, 517))
    shape = st.sampled_from([('fixed', 0, 1), ('fixed', 0, 1), ('fixed', 0, 2), ('mixed', 1, 0), ('mixed', 2, 0), ('mixed', 1, 1),
                             ('mixed', 2, 1), ('mixed', 1, 2)])
    db = weighted((2, st.just(HIST_DB)), (1, db_spec()))

    def build(sh):
        topo, nb, reconnects = sh
        d = {'bearer': st.just(topo), 'db': db, 'server_mtu': MTUS,
             'sec': st.sampled_from([[0, 0], [0, 0], [1, 1]]), 'confirm': CONFIRMS, 'delays': DELAYS,
             'ops': history_ops(nb + 1, reconnects)}
        if topo == 'mixed':
            d['nb'] = st.just(nb)
            d['l2mtu'] = st.tuples(l2, l2).map(list)
        return st.fixed_dictionaries(d)

    return shape.flatmap(build)


def _sub(k, bits, b):
    return ('pdu', {'op': 0x12, 'parts': [('h', ('cccd', k)), ('lit', bits)]}, 'wait', b)


def _mtu(v, b=0):
    return ('pdu', {'op': 0x02, 'parts': [('lit', u16(v))]}, 'wait', b)


# positions in HIST_DB behind the default GAP/GATT services: 'sub' 0 and 'cccd' 0 are Service Changed
H_LONG, H_SLOW = 1, 2
IN_FLIGHT = ('read', 'read_by_type', 'write', 'read_multiple_variable', 'indicate_slow', 'notify_slow', 'indication_unconfirmed', 'none')
AFTER = ('notify', 'indicate', 'read_long', 'notify1', 'resubscribe_notify')


def reconnect_build(topo, who, mode, mtu, inflight, after, nb=1):
    """One case of the enumerated `reconnect` family: the client raises ATT_MTU and subscribes; an operation is in flight
    (abrupt) or has completed (clean) when the link goes down; the client comes back on the same connection handle and the
    server is asked to send / to answer on the new bearers."""
    B = nb + 1 if topo == 'mixed' else 1
    hold = 'p1' if mode == 'abrupt' else 'wait'
    ops = [_mtu(mtu)] + [_sub(k, b'\x03\x00', b) for b in range(B) for k in (H_LONG, H_SLOW)]
    if inflight in ('read', 'read_by_type', 'write', 'read_multiple_variable'):
        ops.append(('pdu', slow_template(inflight, 0), 'par' if mode == 'abrupt' else 'wait', 0))
        if mode == 'abrupt':
            ops.append(('pdu', b'\x1e', hold, 0))  # (a command: lets one virtual second pass before the link goes down)
    elif inflight == 'indicate_slow':
        ops.append(('indicate', ('sub', H_SLOW), None, False, hold))
    elif inflight == 'notify_slow':
        ops.append(('notify', ('sub', H_SLOW), None, False, hold))
    elif inflight == 'indication_unconfirmed':
        ops.append(('indicate', ('sub', H_LONG), 200, False, hold))
    ops.append(('reconnect', mode, who))
    if after == 'notify':
        ops.append(('notify', ('sub', H_LONG), 200, False, 'wait'))
    elif after == 'indicate':
        ops.append(('indicate', ('sub', H_LONG), None, False, 'wait'))
    elif after == 'read_long':
        ops.append(('pdu', {'op': 0x0A, 'parts': [('h', ('sub', H_LONG))]}, 'wait', 0))
    elif after == 'notify1':
        ops.append(('notify1', ('sub', H_LONG), 200, False, 'wait', 'conn'))
    else:
        ops += [_sub(H_LONG, b'\x01\x00', 0), ('notify', ('sub', H_LONG), 200, False, 'wait')]
    ops += [('settle',), ('pdu', LIVENESS, 'wait', 0)]
    case = {'bearer': topo, 'db': HIST_DB, 'server_mtu': 517, 'sec': [0, 0],
            'confirm': [None] if inflight == 'indication_unconfirmed' else [0], 'delays': [], 'ops': ops}
    if topo == 'mixed':
        case.update(nb=nb, l2mtu=[100, 64])
    return case


def isolation_build(nb, l2mtu, src, big, probe):
    """One case of the enumerated `isolation` family: fixed bearer + nb enhanced bearers, all subscribed; ATT_MTU is raised
    on ONE bearer (`src`) by an Exchange MTU Request; then every bearer is asked for a long value / the server is told to
    send one to every bearer: each PDU has to respect the ATT_MTU of the bearer it is sent on."""
    B = nb + 1
    ops = [_sub(H_LONG, b'\x03\x00', b) for b in range(B)] + [_mtu(big, src)]
    read = {'op': 0x0A, 'parts': [('h', ('sub', H_LONG))]}
    if probe == 'read':
        ops += [('pdu', read, 'wait', b) for b in range(B)]
    elif probe == 'read_at_once':
        ops += [('pdu', read, 'par', b) for b in range(B)] + [('settle',)]
    elif probe == 'blob_at_once':
        ops += [('pdu', {'op': 0x0C, 'parts': [('h', ('sub', 5)), ('lit', u16(1))]}, 'par', b) for b in range(B)] + [('settle',)]
    elif probe in ('notify', 'indicate'):
        ops.append((probe, ('sub', H_LONG), 300 if probe == 'notify' else None, False, 'wait'))
    elif probe == 'notify1_one':  # the per-bearer API on one bearer (not the one whose ATT_MTU was raised)
        ops.append(('notify1', ('sub', H_LONG), 300, False, 'wait', (src + 1) % B))
    else:  # the per-bearer API on the Connection: every bearer of the connection in turn
        ops.append((probe, ('sub', H_LONG), 300, False, 'wait', 'conn'))
    ops += [('settle',), ('pdu', LIVENESS, 'wait', 0)]
    return {'bearer': 'mixed', 'nb': nb, 'l2mtu': list(l2mtu), 'db': HIST_DB, 'server_mtu': big, 'sec': [0, 0],
            'confirm': [0], 'delays': [], 'ops': ops}


def held_indication_build(nb, l2mtu, silent, api):
    """`isolation`, indication clause: every bearer is subscribed; the client never confirms on bearer `silent` and
    confirms at once on the others; three rounds of indications one second apart. The silent bearer must not see a
    second indication while the others go on."""
    B = nb + 1
    ops = [_sub(H_LONG, b'\x02\x00', b) for b in range(B)]
    for g in ('p1', 'p1', 'wait'):
        ops.append(('indicate', ('sub', H_LONG), 10, False, g) if api == 'all' else
                   ('indicate1', ('sub', H_LONG), 10, False, g, 'conn' if api == 'conn' else (silent + 1) % B))
    ops += [('settle',), ('pdu', LIVENESS, 'wait', 0)]
    return {'bearer': 'mixed', 'nb': nb, 'l2mtu': list(l2mtu), 'db': HIST_DB, 'server_mtu': 185, 'sec': [0, 0],
            'confirm': [0], 'confirm_b': [[None] if b == silent else [0] for b in range(B)], 'delays': [], 'ops': ops}


def enumerated_histories(ctx):
    """Plain loops. Thorough: everything, in every shard (the labels have floors). Quick: one third of the reconnect and
    isolation cases, rotated by the seed, and all held-indication cases."""
    cases = []
    for topo in ('fixed', 'mixed'):
        for who in ('peer', 'victim'):
            for mode in ('abrupt', 'clean'):
                for mtu in (23, 100, 517):
                    for j, inflight in enumerate(IN_FLIGHT):
                        after = AFTER[(len(cases) + j) % len(AFTER)]
                        cases.append(reconnect_build(topo, who, mode, mtu, inflight, after, nb=1 + len(cases) % 2))
    for nb in (1, 2):
        for l2mtu in ((64, 100), (247, 64)):
            for src in range(nb + 1):
                for big in (517, 185):
                    for probe in ('read', 'read_at_once', 'blob_at_once', 'notify', 'indicate', 'notify1', 'indicate1', 'notify1_one'):
                        cases.append(isolation_build(nb, l2mtu, src, big, probe))
    rot = ctx.subseed('histories') % 3
    for i, c in enumerate(cases):
        if ctx.quick and (i + rot) % 3:  # (the innermost axes have 8 values each: every value keeps a third of its cases)
            continue
        yield c
    for nb in (1, 2):  # (small: always complete)
        for l2mtu in ((64, 100), (247, 64)):
            for silent in range(nb + 1):
                for api in ('all', 'conn', 'one'):
                    yield held_indication_build(nb, l2mtu, silent, api)


# ---------------------------------------------------------------------------
# one case: drive the real stack, record the bearer history
# ---------------------------------------------------------------------------
def materialize(op, L, limits):
    """Symbolic operation -> concrete plain-data operation."""
    kind = op[0]
    if kind == 'pdu':
        body, gap, b = op[1], op[2], int(op[3]) % len(limits)
        pdu = render(body, L) if isinstance(body, dict) else bytes(body)
        lim = limits[b]
        if lim is not None:  # enhanced bearer (see ASSUMPTIONS)
            pdu = pdu[: lim['sdu']] or b'\x00'
            if pdu[0] == 0x02 and len(pdu) >= 3 and int.from_bytes(pdu[1:3], 'little') > lim['mtu']:
                pdu = pdu[:1] + u16(lim['mtu']) + pdu[3:]
        return ['pdu', pdu, gap, b]
    if kind in ('notify', 'indicate', 'notify1', 'indicate1'):
        target = op[1]
        handle = pick(target, L)[1] if isinstance(target, (tuple, list)) else int(target)
        out = [kind, handle, op[2], bool(op[3]), op[4]]
        if kind.endswith('1'):  # the per-bearer API: the Connection itself or one bearer
            out.append('conn' if op[5] == 'conn' else int(op[5]) % len(limits))
        if isinstance(op[-1], dict):  # the caller gives up
            out.append({'giveup_ms': int(op[-1]['giveup_ms'])})
        return out
    if kind == 'settle':
        return ['settle']
    if kind == 'reconnect':
        return ['reconnect', str(op[1]), str(op[2])]
    raise HarnessError(f'unknown operation {op!r}')


async def _drive(loop, case, S):
    topo = case['bearer']  # 'fixed': raw peer on CID 4; 'eatt': enhanced bearers only; 'mixed': CID 4 + enhanced bearers
    eatt = topo in ('eatt', 'mixed')
    mixed = topo == 'mixed'
    delays = list(case.get('delays') or []) or None
    w = world.World(2 if eatt else 1, delays=delays)
    dev = w[0].device
    info = build_db(dev, case['db'])
    dev.gatt_server.max_mtu = int(case['server_mtu'])
    log = S['log'] = []
    S['timers'] = 0
    S['epoch'] = 0
    S['api'] = set()
    epochs = S['epochs'] = []
    confirm = itertools.cycle(list(case.get('confirm') or [0]))
    # optional: one confirmation policy per bearer (each cycled on its own) instead of the common one
    confirm_b = [itertools.cycle(list(p)) if p else None for p in (case.get('confirm_b') or [])]
    senders: list = []
    link = {'up': False, 'conn': None, 'conn_c': None, 'chans': []}

    def tx(b, pdu):
        log.append((loop.time(), 'tx', b, bytes(pdu)))
        senders[b](bytes(pdu))

    def fire(b):
        S['timers'] -= 1
        if link['up']:  # (a confirmation that was due while the link is down is not sent)
            tx(b, b'\x1e')

    def rx(b, pdu):
        pdu = bytes(pdu)
        log.append((loop.time(), 'rx', b, pdu))
        if pdu[:1] == b'\x1d':
            own = confirm_b[b] if b < len(confirm_b) else None
            d = next(own if own is not None else confirm)
            if d is None:
                return
            n = 2 if d == 'dbl' else 1
            for _ in range(n):
                S['timers'] += 1
                loop.call_later(0.0 if d == 'dbl' else float(d), fire, b)

    # the victim's own view of its HCI boundary (order in which it sends / is handed L2CAP PDUs)
    vlog = S['vlog'] = []

    class Rec:
        def __init__(self, inner, direction):
            self.inner, self.direction = inner, direction

        def on_packet(self, packet):
            if packet[0] == 0x02 and len(packet) >= 10 and (int.from_bytes(packet[1:3], 'little') >> 12) & 3 != 1:
                vlog.append((loop.time(), self.direction, int.from_bytes(packet[7:9], 'little'), bytes(packet[9:12]),
                             S['epoch']))
            self.inner.on_packet(packet)

    w[0].host.set_packet_sink(Rec(w[0].tap.to_controller, 'S'))
    w[0].tap.sinks[world.C2H] = Rec(w[0].host, 'A')
    await w.power_on()
    peer = None
    sig: dict = {}
    if not eatt:
        peer = world.RawPeer(w, 9)
        await peer.start()
        peer.host.on('l2cap_pdu', lambda _h, cid, p: cid == att.ATT_CID and rx(0, p))
    else:
        w[0].host.on('l2cap_pdu', lambda _h, cid, p: cid == 5 and p[:1] == b'\x17' and sig.setdefault('req', bytes(p)))
        w[1].host.on('l2cap_pdu', lambda _h, cid, p: cid == 5 and p[:1] == b'\x18' and sig.setdefault('rsp', bytes(p)))
        if mixed:  # the fixed bearer of the same connection, driven with raw PDUs next to the enhanced ones
            w[1].host.on('l2cap_pdu', lambda _h, cid, p: cid == att.ATT_CID and rx(0, p))
        dev.gatt_server.register_eatt(l2cap.LeCreditBasedChannelSpec(psm=att.EATT_PSM, mtu=int(case['l2mtu'][1])))

    async def connect():
        """(Re-)establishes the link and its bearers; one epoch record per connection."""
        del senders[:]
        if not eatt:
            conn = await peer.connect_to(dev)
            conn_c, chans = None, []
            senders.append(lambda pdu: peer.send(att.ATT_CID, pdu))
            mtu0, limits, enh = [23], [None], [False]
            cids = {'S': {att.ATT_CID: 0}, 'A': {att.ATT_CID: 0}}
            client_l2 = None
        else:
            sig.clear()
            conn_c, conn = await w.connect_le(1, 0)
            if mixed:  # the client device must not answer on CID 4 by itself (its GATT client would confirm indications)
                conn_c.gatt_client = None
            chans = await w[1].device.l2cap_channel_manager.create_enhanced_credit_based_channels(
                conn_c, l2cap.LeCreditBasedChannelSpec(psm=att.EATT_PSM, mtu=int(case['l2mtu'][0])), int(case['nb'])
            )
            if 'req' not in sig or 'rsp' not in sig:
                raise HarnessError('EATT channel set-up not seen on the wire')
            client_l2 = int.from_bytes(sig['req'][6:8], 'little')
            server_l2 = int.from_bytes(sig['rsp'][4:6], 'little')
            mtu0, limits, enh = [], [], []
            cids = {'S': {}, 'A': {}}
            if mixed:
                senders.append(lambda pdu, h=conn_c.handle: w[1].device.send_l2cap_pdu(h, att.ATT_CID, pdu))
                mtu0.append(23)
                limits.append(None)
                enh.append(False)
                cids['S'][att.ATT_CID] = cids['A'][att.ATT_CID] = 0
            for ch in chans:
                b = len(senders)
                ch.sink = lambda pdu, b=b: rx(b, pdu)
                senders.append(ch.write)
                cids['S'][ch.source_cid] = b
                cids['A'][ch.destination_cid] = b
                mtu0.append(min(client_l2, server_l2))
                limits.append({'sdu': server_l2, 'mtu': min(client_l2, server_l2)})
                enh.append(True)
        conn.encryption = 1 if case['sec'][0] else 0
        conn.authenticated = bool(case['sec'][1])
        link.update(up=True, conn=conn, conn_c=conn_c, chans=chans)
        epochs.append({'mtu0': mtu0, 'cids': cids, 't': loop.time()})
        S['client_l2'] = client_l2
        S['enh'] = enh
        return limits

    async def disconnect(who):
        """The link goes down (HCI Disconnect by the peer or by the victim); returns when both sides have seen it."""
        conn, conn_c = link['conn'], link['conn_c']
        link['up'] = False
        if not eatt:
            gone = loop.create_future()
            peer.host.once('disconnection', lambda *_a: gone.done() or gone.set_result(None))
            if who == 'victim':
                await conn.disconnect()
            else:
                await peer.host.send_async_command(hci.HCI_Disconnect_Command(connection_handle=peer.handle, reason=0x13))
            await gone
        else:
            await (conn if who == 'victim' else conn_c).disconnect()
        for _ in range(500):
            if dev.connections.get(conn.handle) is not conn and (
                    conn_c is None or w[1].device.connections.get(conn_c.handle) is not conn_c):
                return
            await asyncio.sleep(0.01)
        raise HarnessError('C10 driver: the link did not go down')

    def victim_bearer(target):
        """The victim-side object of a bearer: the Connection (fixed bearer) or its end of an enhanced channel."""
        if target == 'conn' or not S['enh'][target]:
            return link['conn']
        chan = link['chans'][target - (1 if mixed else 0)]
        mine = dev.l2cap_channel_manager.le_coc_channels.get(link['conn'].handle, {})
        return next((c for c in mine.values() if c.source_cid == chan.destination_cid), None)

    limits = await connect()
    S['mtu0'] = list(epochs[0]['mtu0'])
    L = S['layout'] = make_layout(dev, info)
    ops = S['ops'] = [materialize(op, L, limits) for op in case['ops']]
    windows = S['windows'] = []
    tasks: list = []
    cur = None

    def window():
        return {'lo': len(log), 'ops': [], 'ntf': 0, 'ind': 0, 'err_lo': len(loop.errors), 't0': loop.time(),
                'epoch': S['epoch'], 'reqb': set(), 'cut': False}

    def finish(quiet, cut=False):
        nonlocal cur
        cur['hi'] = len(log)
        cur['err_hi'] = len(loop.errors)
        cur['t1'] = loop.time()
        cur['quiet'] = quiet
        cur['cut'] = cut
        cur['in_flight'] = cut and not all(t.done() for t in tasks)  # (requests: decided from the history)
        windows.append(cur)
        cur = None

    async def close():
        quiet = False
        for _ in range(MAX_ROUNDS):
            n = len(log)
            await asyncio.sleep(QUIET)
            if len(log) == n and S['timers'] == 0 and all(t.done() for t in tasks):
                quiet = True
                break
        finish(quiet)

    async def gap(g):
        if g == 'tick':
            await asyncio.sleep(0.01)
        elif g == 'p1':  # pauses shorter than some confirmation delays: the next operation starts while an
            await asyncio.sleep(1.0)  # earlier indication is still unconfirmed and later ones are queued
        elif g == 'p6':
            await asyncio.sleep(6.0)

    for i, op in enumerate(ops):
        if cur is None:
            cur = window()
        if op[0] == 'pdu':
            _k, pdu, g, b = op
            is_request = bool(pdu) and klass(pdu[0]) == 'request'
            if is_request and b in cur['reqb']:  # one request at a time per bearer (see ASSUMPTIONS)
                await close()
                cur = window()
            cur['ops'].append(i)
            tx(b, pdu)
            if is_request:
                cur['reqb'].add(b)
            # 'par': the request stays outstanding while the next operations (on other bearers) are issued
            if g == 'wait' or (is_request and g != 'par'):
                await close()
            else:
                await gap(g)
        elif op[0] in ('notify', 'indicate', 'notify1', 'indicate1'):
            _k, handle, n, force, g = op[:5]
            cur['ops'].append(i)
            attribute = dev.gatt_server.get_attribute(handle)
            one = op[0].endswith('1')
            bearer = victim_bearer(op[5]) if one else None
            if attribute is not None and not (one and bearer is None):
                cur['ntf' if op[0].startswith('notify') else 'ind'] += 1
                value = None if n is None else pattern(int(n))
                server = dev.gatt_server
                if one:
                    S['api'].add(f'api:{op[0][:-1]}_subscriber/{"connection" if op[5] == "conn" else "one_bearer"}')
                    fn = server.notify_subscriber if op[0] == 'notify1' else server.indicate_subscriber
                    task = loop.create_task(fn(bearer, attribute, value, force))
                else:
                    fn = server.notify_subscribers if op[0] == 'notify' else server.indicate_subscribers
                    task = loop.create_task(fn(attribute, value, force))
                task.add_done_callback(lambda t: t.cancelled() or t.exception())
                tasks.append(task)
                if isinstance(op[-1], dict) and op[-1].get('giveup_ms') is not None:
                    # the caller of this send gives up (task.cancel()) after that many virtual ms: the obligations on the
                    # wire (one indication awaiting its confirmation per bearer) do not go away with the caller
                    loop.call_later(op[-1]['giveup_ms'] / 1000.0, task.cancel)
                    S['api'].add('caller_gives_up_indication')
                    if one:
                        S['api'].add('caller_gives_up_indication/per_bearer_api')
            if g == 'wait':
                await close()
            else:
                await gap(g)
        elif op[0] == 'reconnect':
            _k, mode, who = op
            if mode == 'clean' and cur['ops']:  # 'abrupt': the link drops with whatever is in flight
                await close()
                cur = window()
            cur['ops'].append(i)
            await disconnect(who)
            finish(True, cut=True)
            S['epoch'] += 1
            cur = window()  # what arrives while the bearers are set up again belongs to the new connection
            await connect()
        else:
            cur['ops'].append(i)
            await close()
    if cur is not None:
        await close()


def run_case(ctx, case) -> None:
    # UUID.from_bytes appends every new UUID to a process-wide list that is searched linearly; restore it
    # after each case so that a case does not depend on (or slow down with) what earlier cases parsed
    uuids = list(core.UUID.UUIDS)
    loop = vloop.new_loop()
    S: dict = {}
    try:
        try:
            loop.complete(_drive(loop, case, S), horizon=HORIZON)
            outcome = 'done'
        except vloop.BudgetExceeded:
            outcome = 'budget'
        except (vloop.Stalled, vloop.HorizonExceeded) as e:
            raise HarnessError(f'C10 driver did not finish: {type(e).__name__}') from e
        if outcome == 'budget' or 'windows' not in S:
            ctx.case(('budget', repr(case)[:200]), False, {'inconclusive:iteration_budget'})
            return
        analyse(ctx, case, S, loop)
    finally:
        loop.shutdown()
        core.UUID.UUIDS[:] = uuids


# ---------------------------------------------------------------------------
# oracle over the recorded history
# ---------------------------------------------------------------------------
def tags_of(pdu: bytes, L: dict, bound: int) -> set:
    """Generator classes reached (for the evidence / floors); never used by the oracle."""
    if not pdu:
        return {'tx:empty_pdu'}
    op = pdu[0]
    k = klass(op)
    tags = {f'tx:{k}'}
    if k == 'request':
        tags.add(f'req:{opname(op)}')
        if malformed(pdu):
            tags.add('malformed_request')
        if len(pdu) > bound:
            tags.add('request_longer_than_mtu')

    def htag(h):
        if h == 0:
            tags.add('handle:zero')
        elif h == 0xFFFF:
            tags.add('handle:ffff')
        elif h > L['last']:
            tags.add('handle:past_end')
        else:
            tags.add('handle:valid')

    if op in (0x04, 0x06, 0x08, 0x10) and len(pdu) >= 5:
        s, e = int.from_bytes(pdu[1:3], 'little'), int.from_bytes(pdu[3:5], 'little')
        htag(s)
        if s > e:
            tags.add('range:start>end')
        if op in (0x08, 0x10):
            tags.add('uuid:len2' if len(pdu) == 7 else 'uuid:len16' if len(pdu) == 21 else 'uuid:invalid_len')
    elif op in (0x0A, 0x0C, 0x12, 0x16, 0x52, 0xD2) and len(pdu) >= 3:
        h = int.from_bytes(pdu[1:3], 'little')
        htag(h)
        if op == 0x0C and len(pdu) >= 5 and h in L['by_h']:
            off, n = int.from_bytes(pdu[3:5], 'little'), L['by_h'][h]['vlen']
            tags.add('offset:<len' if off < n else 'offset:=len' if off == n else 'offset:>len')
        if op in (0x12, 0x52) and len(pdu) - 3 > 512:
            tags.add('write:longer_than_512')
    elif op in (0x0E, 0x20):
        n = (len(pdu) - 1) // 2
        if (len(pdu) - 1) % 2:
            tags.add('handle_set:odd')
        if n == 0:
            tags.add('handle_set:empty')
        if len(pdu) > bound:
            tags.add('handle_set:overlong')
        hs = [int.from_bytes(pdu[1 + 2 * j: 3 + 2 * j], 'little') for j in range(n)]
        if n >= 2 and all(h in L['by_h'] for h in hs):
            tags.add('handle_set:all_valid')
        for h in hs[:4]:
            htag(h)
    return tags


def analyse(ctx, case, S, loop) -> None:
    log, windows, L, ops = S['log'], S['windows'], S['layout'], S['ops']
    nb = len(S['mtu0'])
    eatt = case['bearer'] in ('eatt', 'mixed')
    enh, epochs = S['enh'], S['epochs']  # enh[b]: bearer b is an enhanced bearer (else the fixed one)
    concrete = {k: case[k] for k in ('bearer', 'db', 'server_mtu', 'sec', 'confirm', 'delays')}
    if eatt:
        concrete['nb'] = case['nb']
        concrete['l2mtu'] = case['l2mtu']
    if case.get('confirm_b'):
        concrete['confirm_b'] = case['confirm_b']
    bound = list(S['mtu0'])
    exchanged = [False] * nb
    pending_c = [None] * nb
    outstanding: list = [None] * nb
    labels = {f'bearer:{case["bearer"]}'} | set(S['api'])
    if case['bearer'] == 'eatt' and nb > 1:
        labels.add('bearer:eatt_two_channels')
    if case['bearer'] == 'mixed' and nb > 2:
        labels.add('bearer:mixed_three_bearers')
    nontrivial = False

    def last_error(wnd):  # diagnostic text only
        errs = [e.get('exception') for e in loop.errors[wnd['err_lo']: wnd['err_hi']] if e.get('exception') is not None]
        return f'; exception escaped in the stack: {errs[-1]!r}' if errs else ''

    vmax = max([a['vlen'] for a in L['attrs']] + [0])
    if vmax >= 512:
        labels.add('db:value_512')
    if any(len(a['type']) == 16 for a in L['attrs']):
        labels.add('db:uuid128')

    dead = [False] * nb  # a count violation happened on this bearer: what follows there is not judged

    # set while judging a connection whose predecessor went down with an operation still in flight (one history class,
    # one prefix: what the server does with the leftovers of a closed connection)
    leftover = ['']
    prefix_of = {0: ''}

    def fail(sig, what, upto):
        ctx.fail(leftover[0] + sig, what, dict(concrete, kind='seq', ops=ops[: upto + 1]))

    epoch = 0
    subscribed = False
    cccds = {a['h'] for a in L['attrs'] if a['cccd']}
    for wnd in windows:
        last_op = wnd['ops'][-1] if wnd['ops'] else len(ops) - 1
        if not wnd['quiet']:
            labels.add('inconclusive:not_quiescent')
            break
        if wnd['epoch'] != epoch:
            # a new connection: new bearers. The fixed bearer starts again at the default ATT_MTU, the enhanced ones
            # at their channel MTUs; nothing is subscribed, nothing is outstanding.
            epoch = wnd['epoch']
            kind = ops[windows[windows.index(wnd) - 1]['ops'][-1]]
            labels.add(f'reconnect:{kind[1]}')
            labels.add(f'reconnect:by_{kind[2]}')
            if any(bound[b] > 23 for b in range(nb) if not enh[b]):
                labels.add('reconnect:mtu_was_raised')
            if subscribed:
                labels.add('reconnect:subscribed_before')
            if epoch >= 2:
                labels.add('reconnect:twice')
            before = windows[windows.index(wnd) - 1]
            leftover[0] = prefix_of[epoch] = 'after_link_loss/' if before['in_flight'] else ''
            if before['in_flight']:
                labels.add('reconnect:operation_in_flight')
            bound = list(epochs[epoch]['mtu0'])
            exchanged = [False] * nb
            pending_c = [None] * nb
            dead = [False] * nb
            subscribed = False
        if epoch and (wnd['ntf'] or wnd['ind']):
            labels.add('reconnect:server_send_after')
        txs = [[] for _ in range(nb)]
        rxs = [[] for _ in range(nb)]
        for t, d, b, pdu in log[wnd['lo']: wnd['hi']]:
            if d == 'tx':
                txs[b].append(pdu)
                labels |= tags_of(pdu, L, bound[b])
                if pdu[:1] == b'\x02' and len(pdu) >= 3 and not enh[b]:
                    pending_c[b] = int.from_bytes(pdu[1:3], 'little')
                if pdu[:1] == b'\x12' and len(pdu) == 5 and pdu[3] & 3 and int.from_bytes(pdu[1:3], 'little') in cccds:
                    subscribed = True
                continue
            rxs[b].append(pdu)
            # ---- size clause
            if len(pdu) > bound[b]:
                fail(f'oversize/{opname(pdu[0])}',
                     f'{opname(pdu[0])} of {len(pdu)} bytes sent on a bearer whose ATT_MTU is {bound[b]}', last_op)
            elif len(pdu) == bound[b]:
                labels.add('pdu_fills_mtu')
                nontrivial = True
            if bound[b] > 23:
                labels.add('mtu>23')
            if pdu[0] == 0x1D:
                labels.add('indication_sent')
                nontrivial = True
            elif pdu[0] == 0x1B:
                labels.add('notification_sent')
                nontrivial = True
            if len(set(bound)) > 1:
                if pdu[0] in (0x1B, 0x1D):
                    labels.add('mixed:server_send_with_different_mtus')
                if len(pdu) == bound[b] and bound[b] < max(bound):
                    labels.add('mixed:pdu_fills_the_smaller_mtu')
                if len(pdu) > min(bound):
                    labels.add('mixed:pdu_longer_than_another_bearers_mtu')
            # ---- MTU tracking from the wire
            if pdu[0] == 0x03 and len(pdu) == 3 and pending_c[b] is not None:
                new = max(23, min(pending_c[b], int.from_bytes(pdu[1:3], 'little')))
                bound[b] = max(bound[b], new) if exchanged[b] else new
                if exchanged[b]:
                    labels.add('mtu:exchanged_twice')
                exchanged[b] = True
                pending_c[b] = None
        # ---- count clause
        asked = [b for b in range(nb) if any(p and klass(p[0]) == 'request' for p in txs[b])]
        if len(asked) >= 2:
            labels.add('par:requests_outstanding_on_two_bearers')
            nontrivial = True
        if len(asked) >= 3:
            labels.add('par:requests_outstanding_on_three_bearers')
        pushed = [b for b in range(nb) if any(p[0] in (0x1B, 0x1D) for p in rxs[b])]
        if len(pushed) >= 2:
            labels.add('mixed:server_send_on_two_bearers')
        for b in range(nb):
            if dead[b]:
                labels.add('not_judged:after_count_violation')
                continue
            ntf = sum(1 for p in rxs[b] if p[0] == 0x1B)
            ind = sum(1 for p in rxs[b] if p[0] == 0x1D)
            if ntf > wnd['ntf'] or ind > wnd['ind']:
                fail('unsolicited_notification',
                     f'{ntf} notification(s)/{ind} indication(s) received, {wnd["ntf"]}/{wnd["ind"]} triggered', last_op)
            if ind >= 2:
                labels.add('indicate:two_or_more_in_window')
            rest = [p for p in rxs[b] if p[0] not in (0x1B, 0x1D)]
            sent = [p for p in txs[b] if p]
            for q in [p for p in sent if klass(p[0]) == 'request']:
                want = REQ_RSP[q[0]]
                match = [p for p in rest if p[0] == want or is_error_for(p, q[0])]
                if not match and wnd['cut']:
                    labels.add('reconnect:request_in_flight')  # the link went down first: no answer is owed
                    wnd['in_flight'] = True
                    nontrivial = True
                elif not match:
                    sig = 'no_response/malformed_request' if malformed(q) else f'no_response/{opname(q[0])}'
                    fail(sig, f'{opname(q[0])} {q[:12].hex()}{"..." if len(q) > 12 else ""} ({len(q)} bytes) got no response '
                              f'after quiescence{last_error(wnd)}', last_op)
                    dead[b] = True
                elif len(match) > 1:
                    fail(f'multiple_responses/{opname(q[0])}', f'{len(match)} responses to one {opname(q[0])}', last_op)
                for p in match:
                    rest.remove(p)
                    if p[0] == 0x01:
                        labels.add('rsp:error')
                        labels.add(f'rsp:error_for/{opname(q[0])}')
                        nontrivial = True
                    else:
                        labels.add(f'rsp:{opname(p[0])}')
                        if len(p) == bound[b]:
                            labels.add(f'rsp_fills_mtu:{opname(p[0])}')
                        elif p[0] in MULTI_RSP and bound[b] - len(p) <= 4:
                            labels.add(f'rsp_nearly_fills_mtu:{opname(p[0])}')  # the next entry did not fit
                        if p[0] in MULTI_RSP:
                            nontrivial = True
                if malformed(q):
                    nontrivial = True
            for p in sent:
                k = klass(p[0])
                if k == 'indication' and b'\x1e' in rest:
                    rest.remove(b'\x1e')
                    labels.add('peer_indication_confirmed')
                elif k == 'undefined':
                    errs = [r for r in rest if is_error_for(r, p[0])]
                    if errs:
                        rest.remove(errs[0])
                        labels.add('undefined_opcode:error_response')
                if k != 'request':
                    nontrivial = True
            full = [p for p in rxs[b] if enh[b] and len(p) >= S['client_l2']]
            if rest and full and rxs[b].index(full[0]) < len(rxs[b]) - 1:
                # enhanced bearer: a PDU longer than the client's channel MTU is cut into several SDUs by L2CAP, the
                # client then sees a full-sized SDU followed by the remaining bytes as "PDUs" of their own
                p = full[0]
                sizes = [len(q) for q in rxs[b][rxs[b].index(p):]]
                fail(f'oversize/{opname(p[0])}',
                     f'{opname(p[0])} longer than the channel MTU {S["client_l2"]}: it arrived as SDUs of {sizes} bytes', last_op)
                dead[b] = True
                rest = []
            for p in rest:
                kinds = sorted({klass(q[0]) for q in sent}) or ['nothing']
                what = opname(p[0]) + (f'_for_{opname(p[1])}' if p[0] == 0x01 and len(p) >= 2 else '')
                fail(f'unexpected_pdu/{what}',
                     f'server sent {p[:8].hex()} ({len(p)} bytes) although the peer sent only {"+".join(kinds)} PDU(s) '
                     f'in this window{last_error(wnd)}', last_op)
                dead[b] = True
    # ---- at most one indication awaiting confirmation, in the order the victim itself sent / was handed PDUs
    epoch = 0
    leftover[0] = ''
    for t, d, cid, head, e in S['vlog']:
        if e != epoch:  # the bearers of the previous connection are gone, and what they were waiting for with them
            leftover[0] = prefix_of.get(e, '')
            if any(o is not None and epochs[e]['t'] - o < IND_TIMEOUT for o in outstanding):
                labels.add('reconnect:indication_unconfirmed')
            outstanding = [None] * nb
            epoch = e
        b = epochs[e]['cids'][d].get(cid)
        if b is None:
            continue
        skip = 2 if enh[b] else 0  # enhanced bearer: K-frame = SDU length + PDU (every ATT PDU fits one frame)
        if len(head) <= skip:
            continue
        op = head[skip]
        if d == 'S' and op == 0x1D:
            if outstanding[b] is not None and t - outstanding[b] < IND_TIMEOUT - 1e-6:  # (virtual time is a float: 30 s later may read 29.999999999)
                upto = next((wn['ops'][-1] for wn in windows if wn['t0'] <= t <= wn['t1']), len(ops) - 1)
                fail('indication/second_while_unconfirmed',
                     f'indication sent {t - outstanding[b]:.3f}s after another one on the same bearer that has not '
                     f'been confirmed', upto)
            if outstanding[b] is not None:
                labels.add('indicate:after_timeout')
            outstanding[b] = t
        elif d == 'A' and op == 0x1E:
            if outstanding[b] is not None and t - outstanding[b] >= 1.0:
                labels.add('indicate:confirm_delayed')
            outstanding[b] = None
    if len(ops) >= 2:
        labels.add('sequence')
    fp = (concrete, ops)
    sample = {'bearer': case['bearer'], 'server_mtu': case['server_mtu'], 'attributes': len(L['attrs']),
              'ops': [[o[0], o[1].hex() if isinstance(o[1], bytes) else o[1]] + list(o[2:]) for o in ops[:6] if o[0] != 'settle'],
              'history': [[d, b, p[:16].hex()] for _t, d, b, p in log[:8]]}
    ctx.case(fp, nontrivial, labels, sample=sample)


# ---------------------------------------------------------------------------
def run(ctx) -> None:
    vloop.selftest()
    # 1. every opcode 0x00..0xFF (enumerated), generated parameterisations, fixed databases
    covered = 0
    mine = [op for op in range(256) if op % ctx.nshards == ctx.shard]
    for i in range(0, len(mine), 16):
        block = mine[i: i + 16]
        covered += len(block)

        def many(cases):
            for c in cases:
                run_case(ctx, c)

        ctx.hyp(f'sweep/{block[0]:02x}', many, st.tuples(*[sweep_case(op) for op in block]), max_examples=ctx.pick(3, 60))
    for j, op in enumerate(sorted(REQ_RSP)):
        if j % ctx.nshards == ctx.shard:
            ctx.hyp(f'sweep_req/{op:02x}', lambda c: run_case(ctx, c), sweep_case(op), max_examples=ctx.pick(25, 400))
    ctx.extra['sum_opcodes_swept'] = covered
    ctx.extra['defined_classes'] = len(att.ATT_PDU.pdu_classes)
    # 2. generated databases and operation sequences, fixed bearer
    ctx.hyp('fixed', lambda c: run_case(ctx, c), fixed_case(), max_examples=ctx.n(850, 72000))
    # 2b. multi-entry responses on dense databases at every residue of ATT_MTU modulo the entry size
    for c in fill_cases(ctx):
        if ctx.out_of_time():
            break
        run_case(ctx, c)
    # 2c. overlapping indications on one bearer
    ctx.hyp('indicate_overlap', lambda c: run_case(ctx, c), indicate_overlap_case(), max_examples=ctx.n(150, 8000))
    # 3. enhanced bearers
    ctx.hyp('eatt', lambda c: run_case(ctx, c), eatt_case(), max_examples=ctx.n(320, 24000))
    # 4. histories: fixed + enhanced bearers of one connection at once, requests outstanding on several bearers, the
    #    per-bearer notify/indicate API, connections that go down and come back
    for c in enumerated_histories(ctx):
        if ctx.out_of_time():
            break
        run_case(ctx, c)
    ctx.hyp('history', lambda c: run_case(ctx, c), history_case(), max_examples=ctx.n(220, 16000))
    for label, n in (
        ('tx:request', 100), ('tx:command', 10), ('tx:confirmation', 10), ('tx:wrong_way', 10), ('tx:undefined', 50),
        ('malformed_request', 20), ('handle:zero', 10), ('handle:past_end', 10), ('handle:ffff', 10),
        ('range:start>end', 5), ('handle_set:empty', 3), ('handle_set:odd', 3), ('handle_set:overlong', 3),
        ('uuid:invalid_len', 5), ('uuid:len16', 5), ('offset:>len', 3), ('offset:=len', 2), ('offset:<len', 2),
        ('rsp:error', 50), ('pdu_fills_mtu', 20), ('rsp:READ_BLOB_RESPONSE', 5), ('rsp_fills_mtu:READ_BLOB_RESPONSE', 2),
        ('rsp_fills_mtu:READ_RESPONSE', 3), ('rsp:READ_BY_TYPE_RESPONSE', 5), ('rsp:READ_BY_GROUP_TYPE_RESPONSE', 3),
        ('rsp:FIND_BY_TYPE_VALUE_RESPONSE', 3), ('rsp:READ_MULTIPLE_RESPONSE', 5), ('rsp:READ_MULTIPLE_VARIABLE_RESPONSE', 5),
        ('rsp:FIND_INFORMATION_RESPONSE', 10), ('mtu>23', 50), ('db:value_512', 10), ('db:uuid128', 10),
        ('bearer:fixed', 50), ('bearer:eatt', 20), ('bearer:eatt_two_channels', 5), ('sequence', 50),
        ('notification_sent', 5), ('indication_sent', 10), ('indicate:two_or_more_in_window', 3),
        ('indicate:confirm_delayed', 2), ('rsp_nearly_fills_mtu:FIND_BY_TYPE_VALUE_RESPONSE', 5),
        ('rsp_fills_mtu:READ_BY_TYPE_RESPONSE', 2), ('rsp_fills_mtu:READ_BY_GROUP_TYPE_RESPONSE', 1),
        ('rsp_fills_mtu:FIND_INFORMATION_RESPONSE', 2), ('rsp_fills_mtu:READ_MULTIPLE_RESPONSE', 2),
        ('rsp_fills_mtu:READ_MULTIPLE_VARIABLE_RESPONSE', 2), ('rsp_nearly_fills_mtu:READ_BY_TYPE_RESPONSE', 5),
        # histories
        ('bearer:mixed', 40), ('bearer:mixed_three_bearers', 15), ('par:requests_outstanding_on_two_bearers', 15),
        ('par:requests_outstanding_on_three_bearers', 3), ('mixed:server_send_on_two_bearers', 10),
        ('mixed:server_send_with_different_mtus', 10), ('mixed:pdu_fills_the_smaller_mtu', 10),
        ('mixed:pdu_longer_than_another_bearers_mtu', 10), ('api:notify_subscriber/connection', 10),
        ('api:indicate_subscriber/connection', 5), ('api:notify_subscriber/one_bearer', 3),
        ('api:indicate_subscriber/one_bearer', 3), ('reconnect:abrupt', 20), ('reconnect:clean', 15),
        ('reconnect:by_peer', 20), ('reconnect:by_victim', 15), ('reconnect:twice', 3), ('reconnect:mtu_was_raised', 15),
        ('reconnect:subscribed_before', 15), ('reconnect:request_in_flight', 8), ('reconnect:indication_unconfirmed', 3),
        ('reconnect:server_send_after', 15),
        # callers that give up an indication
        ('caller_gives_up_indication', 30), ('caller_gives_up_indication/per_bearer_api', 15),
    ):
        ctx.floor(label, n)


def replay(ctx, case) -> None:
    run_case(ctx, case)
