"""
C08 - Classic L2CAP channels (Basic/ERTM) deliver every SDU once, in order.

Two full devices (vlib.world.World(2)) on a BR/EDR link or on an LE link (as tests/l2cap_test.py
does), a classic-channel server on node 1 and `Connection.create_l2cap_channel` on node 0, each
with a generated `l2cap.ClassicChannelSpec`.  After set-up a program of writes (both directions,
pauses, an optional echo written from inside the server's sink) is run under generated
order-preserving HCI delays.

Oracles
  set-up   : both ends OPEN in the same mode and create_l2cap_channel() returned, or both ends
             CLOSED and it raised; no stall / livelock / horizon overrun.
  delivery : per direction, list of SDUs at the sink == list of SDUs written.
  wire     : L2CAP frames of both directions reassembled from the HCI traffic of each host
             (ACL fragments), signalling and ERTM control fields decoded by THIS file's decoders
             (not Bumble's): TxSeq 0,1,..63,0.. without gaps; unacknowledged I-frames <= the
             TxWindow the peer put in its Configure Request; ReqSeq never acknowledges a frame
             that was not sent; SAR sequences well-formed with START.sdu_length == total;
             information payload <= peer MPS; FCS (own CRC-16, poly x^16+x^15+x^2+1, LSB first,
             init 0) verifies over header+control+payload when FCS was negotiated.

Extension families (case keys 'skew', 'lazy', 'bg', 'pre'; absent = the plain case above)
  skew     : requests to PSMs without a server are pending on either device while the channel under judgement is
             set up, so that its two ends get different CIDs; the refused requests must raise.
  lazy     : the peer acknowledges cumulatively (plain RR S-frames to the sender are thinned out by a cyclic
             pattern); delivery and the window / ReqSeq monitor as above, on what the sender really received.
  bg       : a second channel between the same devices (either creator, Basic or ERTM, before or together with
             the one under judgement) stays open and carries its own SDUs: set-up clause + delivery per direction.
  pre      : history - earlier channels of the link, opened / used / closed (or failed because of mismatching
             modes, optionally with the next set-up started the moment the failure is raised): set-up clause +
             delivery on each; the channel under judgement then re-uses their CIDs.
"""

from __future__ import annotations

import asyncio

from hypothesis import strategies as st

from bumble import l2cap
from vlib import vloop, world
from vlib.runner import HarnessError

PROPERTY = 'C08'
LEVEL = 'exploration'
RULE = (
    'carrier {BR/EDR, LE} x ClassicChannelSpec on each side (mode {BASIC, ERTM}, MTU 48..65535, MPS 23..1010 '
    'dense at small values and rarely up to 65525, TxWindow 1..63, FCS on/off, FCS option supported or not by a '
    'side that does not ask for FCS, max_retransmission {0,1,3,255}, retransmission timeout {2 s, 0.4 s, 30 ms}) x '
    'ACL fragment size {27, 251, 1021} x programs of writes in both directions (sizes 0..receiver MTU: '
    'unsegmented, k x MPS +-1, >64 segments in one SDU, >64 SDUs, one SDU near the MTU), pauses, an optional '
    'echo written from inside the server sink, client writes issued the moment create_l2cap_channel() returns x '
    'order-preserving HCI delays per device (0/1/7/50 ms, and a "slow" class whose round trip exceeds the '
    'retransmission timeout: 20-50 ms per HCI packet with a 30 ms timeout, or 0.7-1.2 s with the default 2 s); plus '
    'an exhaustively enumerated set-up grid mode x mode x {no FCS, FCS, no FCS + option unsupported}^2 x carrier x '
    '3 delay profiles (7 in the thorough tier) and mode x carrier with no server on the PSM. '
    'Extension families (generated family "ext" + three enumerations run by every shard): (1) identifier skew - 0..3 requests '
    'to PSMs without a server are pending on either device while the channel is set up, so its two ends get '
    'different CIDs (0x40+a / 0x40+b; with one channel per link both ends always get 0x40) - enumerated over '
    'carrier x mode pair (also mismatching) x 4 skews x FCS x delay profile; (2) a peer that acknowledges '
    'cumulatively - of the RR S-frames (P=0, F=0) on their way to the sender a generated cyclic pattern is removed '
    '(every 2nd, only when the window is full, only when polled, irregular), ReqSeq then advances by 2..63 per '
    'frame, also across the 63->0 wrap and by exactly TxWindow - enumerated over TxWindow {1,2,3,5,8,63} x 4 policies x '
    'writer with 133 I-frames; (3) a background channel (Basic or ERTM, own spec pair, created by either device, '
    'before or at the same time as the channel under judgement - crossing requests) that stays open and carries '
    'its own SDUs interleaved with the program, delivery judged per direction; (4) history - 1..3 earlier channels '
    'of the same link (any mode pair, created by either device) opened, used, closed by either end, so the channel '
    'under judgement re-uses their CIDs and starts again at TxSeq 0; earlier set-ups that fail (mismatching modes) '
    'are followed by the next create_l2cap_channel() either after quiescence or the moment the failure is raised '
    '(the latter also enumerated: failing pair {EB, BE} x created by either device x mode of the next channel x 5 '
    'FCS states x 3 delay profiles). '
    'non-trivial = ERTM with an SDU of >=2 segments, or TxWindow smaller than the segments of an SDU, or '
    'TxSeq wrap-around, or FCS on, or mismatching modes, or any extension family; '
    'distinct by (carrier, spec pair, delays, program, skew, acknowledgement pattern, background spec, history).'
)
ASSUMPTIONS = [
    'no frame loss is injected (the virtual link does not lose frames, Bumble\'s ERTM has no retransmission, the '
    'property quantifies over order-preserving delays only)',
    'SDU sizes are <= the MTU the receiver advertised; in Basic mode additionally <= 65529 so that the PDU fits one '
    'HCI ACL packet of the virtual controller (its missing fragmentation is C05\'s subject)',
    'information payload <= MPS is checked without counting the 2-octet SDU length field of a START frame '
    '(Core Vol 3 Part A 3.3.5 reading; the stricter reading is not imposed)',
    'the window / ReqSeq monitor works on the order in which HCI ACL packets leave and reach each host; a frame '
    'waiting in the host ACL queue is seen later than the moment ERTM decided to send it, which can only make '
    'the monitor more lenient, never raise a false alarm',
    'FCS counts as negotiated when an accepted Configure Request carries the FCS option with value 1 (Bumble only '
    'sends the option when it wants FCS); the Core-spec default (FCS on when the option is absent) is not imposed',
    'a client whose create_l2cap_channel() raised counts as closed (it never got a channel object)',
    '"hang" = virtual loop stalled / horizon exceeded / more than 60 signalling frames from one side during one '
    'channel set-up (livelock in zero virtual time)',
    'MPS values above 65525 are clamped to 65525 (counted as exclusions): the largest I-frame has to fit one HCI '
    'ACL packet of the virtual controller; above 65529 Bumble cannot build the frame at all (no cap on the segment size)',
    'a side that asks for FCS always supports the FCS option; monitor time-outs stay at 12 s (above every '
    'generated round trip) so that max_retransmission can never legitimately close the channel',
    'the cumulatively acknowledging peer is the Bumble peer plus a filter in front of the sender\'s host that removes '
    'plain RR S-frames (P=0, F=0) of the channel under judgement; acknowledgements are cumulative, so the remaining '
    'traffic is that of a conforming peer that acknowledges less often (the sender\'s retransmission timer polls '
    'when nothing comes, the answer with F=1 always passes); I-frames are never removed, so this is not loss of '
    'data; the window / ReqSeq monitor of the sender works on what the sender actually received',
    'the wire monitor judges the channel under judgement only (frames from its Connection Request on, by its own '
    'CIDs); background and history channels are judged by set-up outcome and delivery; how a channel is closed '
    '(disconnect() of a history channel) is C09\'s subject: a close that does not finish is counted, not judged',
    'requests to PSMs nobody listens on must be refused (same clause as the no-server grid); SDUs written on '
    'history channels are delivered before the channel is closed (closing starts at quiescence)',
]
SHRINK_KEYS = ('ops',)

E, B = 'E', 'B'
MODES = {
    E: l2cap.TransmissionMode.ENHANCED_RETRANSMISSION,
    B: l2cap.TransmissionMode.BASIC,
}
FCS_OPTION = l2cap.L2CAP_Information_Request.ExtendedFeatures.FCS_OPTION
BASIC_MAX_SDU = 65529
MAX_MPS = 65525
SIGNALLING_LIMIT = 60
CLIENT, SERVER = 'c', 's'
OTHER = {CLIENT: SERVER, SERVER: CLIENT}
NODE = {CLIENT: 0, SERVER: 1}  # the client of the channel under judgement is always node 0
BG_C, BG_S = 'C', 'S'  # ops: write on the background channel by node 0's / node 1's end
BG_END = {BG_C: CLIENT, BG_S: SERVER}
UNUSED_PSMS = (0x10F1, 0x10F3, 0x10F5, 0x10F7)  # nobody ever listens on these (servers get 0x1001, 0x1003, ..)


# ---------------------------------------------------------------------------
# harness-side decoders (independent of bumble.l2cap)
# ---------------------------------------------------------------------------
def crc16(data: bytes) -> int:
    """L2CAP FCS: g(D) = D^16 + D^15 + D^2 + 1, LSB first, initial value 0 (bitwise, table-free)."""
    crc = 0
    for byte in data:
        crc ^= byte
        for _ in range(8):
            crc = (crc >> 1) ^ 0xA001 if crc & 1 else crc >> 1
    return crc


def le16(b, off=0) -> int:
    return b[off] | (b[off + 1] << 8)


class HostView:
    """HCI ACL packets in the order one host sends ('tx', when they leave the host) and
    receives ('rx', when the tap delivers them to the host)."""

    def __init__(self, node):
        self.events: list[tuple[str, bytes]] = []
        inner = node.tap.to_controller
        events = self.events

        class _Tx:
            def on_packet(self, packet):
                packet = bytes(packet)
                if packet[0] == 0x02:
                    events.append(('tx', packet))
                inner.on_packet(packet)

        node.host.set_packet_sink(_Tx())

        def on_delivery(direction, packet):
            if direction == world.C2H and packet[0] == 0x02:
                events.append(('rx', packet))

        node.tap.listeners.append(on_delivery)

    def frames(self):
        """Reassembled L2CAP frames [(pos, 'tx'|'rx', cid, payload)] sorted by position; a sent frame is
        placed at its first fragment, a received frame at its last."""
        out = []
        partial: dict = {'tx': None, 'rx': None}
        for pos, (d, pkt) in enumerate(self.events):
            pb = (le16(pkt, 1) >> 12) & 3
            n = le16(pkt, 3)
            data = pkt[5 : 5 + n]
            if pb != 1 or partial[d] is None:
                partial[d] = [pos, bytearray()]
            partial[d][1] += data
            buf = partial[d][1]
            if len(buf) >= 4 and len(buf) >= 4 + le16(buf, 0):
                need = 4 + le16(buf, 0)
                out.append((partial[d][0] if d == 'tx' else pos, d, le16(buf, 2), bytes(buf[4:need])))
                partial[d] = None
        out.sort(key=lambda f: f[0])
        return out


def parse_commands(payload: bytes):
    """C-frame -> [(code, identifier, data)]."""
    out = []
    off = 0
    while off + 4 <= len(payload):
        code, ident, ln = payload[off], payload[off + 1], le16(payload, off + 2)
        out.append((code, ident, payload[off + 4 : off + 4 + ln]))
        off += 4 + ln
    return out


def parse_options(data: bytes) -> dict:
    out = {}
    off = 0
    while off + 2 <= len(data):
        t, ln = data[off] & 0x7F, data[off + 1]
        v = data[off + 2 : off + 2 + ln]
        off += 2 + ln
        if t == 0x01 and ln == 2:
            out['mtu'] = le16(v)
        elif t == 0x04 and ln == 9:
            out['mode'] = v[0]
            out['win'] = v[1]
            out['maxtx'] = v[2]
            out['mps'] = le16(v, 7)
        elif t == 0x05 and ln == 1:
            out['fcs'] = v[0]
        else:
            out.setdefault('other', []).append(t)
    return out


def negotiated(frames, psm: int):
    """What was agreed on the signalling channel for the channel opened on `psm`, from node 0's view
    (tx = client, rx = server).  Other channels of the same link (earlier ones that used the same identifiers,
    a background channel, refused requests) are left out: a Configure Request counts when its destination CID is
    the peer's end of this channel.

    Returns dict(cid={c,s}, adv={c: option values of the client's Configure Requests (last value sent per
    option), s: ...}, n_req, last_result={c: result of the response to the client's last request, s: ...},
    start=position of the Connection Request)."""
    cid = {CLIENT: None, SERVER: None}
    pending: dict = {}
    adv = {CLIENT: {}, SERVER: {}}
    n_req = {CLIENT: 0, SERVER: 0}
    last_result = {CLIENT: None, SERVER: None}
    start = None
    for pos, d, fcid, payload in frames:
        if fcid != 0x0001:
            continue
        sender = CLIENT if d == 'tx' else SERVER
        for code, ident, data in parse_commands(payload):
            if code == 0x02 and len(data) >= 4 and sender == CLIENT and le16(data, 0) == psm:
                cid[CLIENT] = le16(data, 2)
                start = pos
            elif code == 0x03 and len(data) >= 8 and sender == SERVER:
                if cid[SERVER] is None and le16(data, 2) == cid[CLIENT] and le16(data, 4) == 0:
                    cid[SERVER] = le16(data, 0)
            elif code == 0x04 and len(data) >= 4:
                if start is None or cid[OTHER[sender]] is None or le16(data, 0) != cid[OTHER[sender]]:
                    continue
                # a later request overrides the options it repeats (re-negotiation after "unacceptable
                # parameters" repeats only the adjusted option; the others keep their last value)
                n_req[sender] += 1
                pending[(sender, ident)] = True
                adv[sender].update(parse_options(data[4:]))
            elif code == 0x05 and len(data) >= 6:
                if pending.pop((OTHER[sender], ident), None):
                    last_result[OTHER[sender]] = le16(data, 4)
    return {'cid': cid, 'adv': adv, 'n_req': n_req, 'last_result': last_result, 'start': start}


def request_position(frames, psm: int):
    """Position of the Connection Request for `psm` among the frames node 1 received."""
    for pos, d, fcid, payload in frames:
        if fcid == 0x0001 and d == 'rx':
            for code, _ident, data in parse_commands(payload):
                if code == 0x02 and len(data) >= 4 and le16(data, 0) == psm:
                    return pos
    return None


def parse_ertm(cid: int, payload: bytes, fcs_on: bool):
    """Enhanced control field (Core Vol 3 Part A 3.3.2). Returns dict or a string describing the malformation."""
    body = payload
    fcs_ok = None
    if fcs_on:
        if len(payload) < 4:
            return 'frame shorter than control field + FCS'
        body = payload[:-2]
        header = bytes([len(payload) & 0xFF, len(payload) >> 8, cid & 0xFF, cid >> 8])
        fcs_ok = crc16(header + body) == le16(payload, len(payload) - 2)
    if len(body) < 2:
        return 'frame shorter than the control field'
    ctrl = le16(body, 0)
    f = {'fcs_ok': fcs_ok, 'final': (ctrl >> 7) & 1, 'req_seq': (ctrl >> 8) & 0x3F}
    if ctrl & 1:
        f.update(kind='S', function=(ctrl >> 2) & 3, poll=(ctrl >> 4) & 1, extra=len(body) - 2)
    else:
        sar = (ctrl >> 14) & 3
        f.update(kind='I', tx_seq=(ctrl >> 1) & 0x3F, sar=sar)
        if sar == 1:
            if len(body) < 4:
                return 'START frame without SDU length'
            f.update(sdu_length=le16(body, 2), info=body[4:])
        else:
            f.update(info=body[2:])
    return f


# ---------------------------------------------------------------------------
# case execution
# ---------------------------------------------------------------------------
class Collector:
    def __init__(self):
        self.fails: list[tuple[str, str]] = []
        self.labels: set = set()
        self.loop_errors: list = []

    def fail(self, sig: str, what: str) -> None:
        if not any(s == sig for s, _ in self.fails):
            self.fails.append((sig, what))


def _site(exc) -> str:
    tb = exc.__traceback__
    site = '?'
    while tb is not None:
        fn = tb.tb_frame.f_code.co_filename
        if '/bumble/' in fn:
            site = f'{fn.split("/bumble/")[-1]}:{tb.tb_frame.f_code.co_name}'
        tb = tb.tb_next
    return site


_BLOCK = 251


_HEAD = {'c': 0xC0, 's': 0x50, 'C': 0xB0, 'S': 0xB5}
_SALT = {'c': 0, 's': 101, 'C': 53, 'S': 197}


def sdu_bytes(direction: str, index: int, size: int, tag: int = 0) -> bytes:
    """Reference content of the index-th SDU written in a direction (position dependent, prime period).
    direction: 'c'/'s' = written by the client / server end of a channel, 'C'/'S' = written on the background
    channel by node 0's / node 1's end; tag > 0 = a channel of the history (opened and closed earlier)."""
    salt = (index * 7 + _SALT[direction] + 29 * tag) % _BLOCK
    block = bytes((salt + 3 * k) % _BLOCK for k in range(_BLOCK))
    head = bytes([_HEAD[direction] ^ (tag & 0x0F), index & 0xFF, (index >> 8) & 0xFF, size & 0xFF, (size >> 8) & 0xFF])
    data = head + block * (size // _BLOCK + 1)
    return data[:size]


def mkspec(s: dict, psm=None) -> l2cap.ClassicChannelSpec:
    return l2cap.ClassicChannelSpec(
        psm=psm,
        mtu=int(s['mtu']),
        mps=int(s['mps']),
        tx_window_size=int(s['win']),
        max_retransmission=int(s['maxr']),
        retransmission_timeout=float(s['rto']),
        mode=MODES[s['mode']],
        fcs_enabled=bool(s['fcs']),
    )


def max_sdu(receiver: dict, mode: str) -> int:
    return int(receiver['mtu']) if mode == E else min(int(receiver['mtu']), BASIC_MAX_SDU)


def segments(size: int, mps: int) -> int:
    return 1 if size <= mps else -(-size // mps)


def delay_max(case) -> float:
    vals = [int(x) for x in (case.get('dc') or []) + (case.get('ds') or [])]
    return (max(vals) if vals else 0) / 1000.0


def delivery_verdict(want, got):
    """None when the list of SDUs at the sink equals the list written, else (kind, detail)."""
    if got == want:
        return None
    if len(got) < len(want) and got == want[: len(got)]:
        return 'lost', (f'{len(want) - len(got)} of {len(want)} SDUs written were never delivered '
                        f'(first missing: #{len(got)}, {len(want[len(got)])} bytes)')
    i = next((k for k in range(min(len(got), len(want))) if got[k] != want[k]), min(len(got), len(want)))
    if i >= len(want):
        return 'extra', f'{len(got)} SDUs delivered, only {len(want)} written'
    if got[i] in want:
        return 'order_or_duplicate', f'SDU #{want.index(got[i])} delivered at position {i}'
    return 'corrupt', f'SDU #{i}: {len(want[i])} bytes written, {len(got[i])} bytes delivered with different content'


def exec_case(case) -> Collector:
    col = Collector()
    spec = {CLIENT: case[CLIENT], SERVER: case[SERVER]}
    ops = [list(o) for o in case.get('ops') or []]
    echo = int(case.get('echo') or 0)
    classic = case['carrier'] == 'classic'
    acl = int(case.get('acl') or 27)
    dmax = delay_max(case)
    skew = [int(x) for x in (case.get('skew') or [0, 0])]
    lazy = {side: [int(x) for x in ((case.get('lazy') or {}).get(side) or [])] for side in (CLIENT, SERVER)}
    bg = case.get('bg') or None
    pre = list(case.get('pre') or [])
    loop = vloop.new_loop()
    loop.max_iterations = 6_000_000
    st_: dict = {'server_channels': [], 'lazy_cid': {}, 'lazy_dropped': {CLIENT: 0, SERVER: 0}}
    rx = {CLIENT: [], SERVER: []}  # SDUs received BY that side
    written = {CLIENT: [], SERVER: []}  # SDUs written BY that side

    def lazy_filter(side):
        """A peer that acknowledges cumulatively: of the RR S-frames (P=0, F=0) addressed to `side`'s end of the
        channel under judgement, pattern[i] are removed before one is let through (cyclic).  Acknowledgements are
        cumulative, so what is left is the traffic of a conforming peer that acknowledges less often; I-frames,
        polls and final responses always pass."""
        pattern = lazy[side]
        state = {'left': pattern[0], 'idx': 0}

        def f(direction, packet):
            cid = st_['lazy_cid'].get(side)
            if cid is None or direction != world.C2H or packet[0] != 0x02 or len(packet) < 11:
                return packet
            if (le16(packet, 1) >> 12) & 3 == 1:
                return packet  # continuation fragment
            n = le16(packet, 5)
            if n not in (2, 4) or len(packet) != 9 + n or le16(packet, 7) != cid:
                return packet
            ctrl = le16(packet, 9)
            if not ctrl & 1 or (ctrl >> 2) & 3 or ctrl & 0x10 or ctrl & 0x80:
                return packet  # not a plain RR
            if state['left'] > 0:
                state['left'] -= 1
                st_['lazy_dropped'][side] += 1
                return None
            state['idx'] = (state['idx'] + 1) % len(pattern)
            state['left'] = pattern[state['idx']]
            return packet

        return f

    async def build():
        geometry = {'acl_data_packet_length': acl, 'le_acl_data_packet_length': acl}
        w = world.World(2, classic=classic, geometry=geometry,
                        delays=[list(case.get('dc') or []), list(case.get('ds') or [])])
        for i, side in enumerate((CLIENT, SERVER)):
            if lazy[side]:
                w[i].tap.filters.append(lazy_filter(side))
        views = [HostView(w[0]), HostView(w[1])]
        for i, side in enumerate((CLIENT, SERVER)):
            if not spec[side].get('fcs_sup', True):
                w[i].device.l2cap_channel_manager.extended_features.discard(FCS_OPTION)
        await w.power_on()
        if classic:
            conn_c, conn_s = await w.connect_classic(0, 1)
        else:
            conn_c, conn_s = await w.connect_le(0, 1)
        st_.update(w=w, views=views, conn=conn_c, conns={CLIENT: conn_c, SERVER: conn_s})

    # ---- auxiliary channels (history, background) --------------------------------------------
    def aux_record(desc, tag):
        return {'desc': desc, 'tag': tag, 'by': desc.get('by') or CLIENT, 'spec': {CLIENT: desc[CLIENT], SERVER: desc[SERVER]},
                'accepted': [], 'end': {}, 'exc': None,
                'rx': {CLIENT: [], SERVER: []}, 'written': {CLIENT: [], SERVER: []}}

    async def aux_open(rec):
        """One more channel on the same link.  rec['spec'][CLIENT] belongs to node 0's end, [SERVER] to node 1's end;
        rec['by'] names the end that calls create_l2cap_channel(), the other end hosts a server on a fresh PSM."""
        w = st_['w']
        by, acc = rec['by'], OTHER[rec['by']]

        def on_channel(channel):
            rec['accepted'].append(channel)
            channel.sink = lambda sdu: rec['rx'][acc].append(bytes(sdu))

        server = w[NODE[acc]].device.create_l2cap_server(spec=mkspec(rec['spec'][acc]), handler=on_channel)
        rec['psm'] = server.psm
        try:
            ch = await st_['conns'][by].create_l2cap_channel(spec=mkspec(rec['spec'][by], psm=server.psm))
        except asyncio.CancelledError:
            raise
        except Exception as e:  # noqa: BLE001 - judged against the set-up clause
            rec['exc'] = e
        else:
            ch.sink = lambda sdu: rec['rx'][by].append(bytes(sdu))
            rec['end'][by] = ch

    def aux_setup(rec, what) -> bool:
        """Opens an auxiliary channel and judges the set-up clause on it. True = both ends open."""
        pair = rec['spec'][rec['by']]['mode'] + rec['spec'][OTHER[rec['by']]]['mode']
        try:
            loop.complete(aux_open(rec), horizon=vloop.HORIZON + 2000 * dmax)
        except (vloop.Stalled, vloop.HorizonExceeded) as e:
            col.fail(f'aux_setup/hang/{type(e).__name__}/{pair}', f'{what}: create_l2cap_channel() neither returned nor raised; modes {pair}')
            return False
        except vloop.BudgetExceeded:
            col.labels.add('iteration_budget_hit')
            return False
        loop.run_for(60.0 + 40 * dmax)
        return aux_judge(rec, what)

    def aux_judge(rec, what) -> bool:
        pair = rec['spec'][rec['by']]['mode'] + rec['spec'][OTHER[rec['by']]]['mode']
        by, acc = rec['by'], OTHER[rec['by']]
        a_state = rec['accepted'][0].state.name if rec['accepted'] else 'NONE'
        if by in rec['end']:
            ch = rec['end'][by]
            if ch.state.name != 'OPEN':
                col.fail(f'aux_setup/returned_not_open/{ch.state.name}', f'{what}: create_l2cap_channel() returned a channel in state {ch.state.name}')
                return False
            if a_state != 'OPEN':
                col.fail(f'aux_setup/asymmetric/client_OPEN/server_{a_state}/{pair}', f'{what}: creating end OPEN but accepting end is {a_state} at quiescence')
                return False
            if pair[0] != pair[1] or ch.mode != rec['accepted'][0].mode:
                col.fail(f'aux_setup/open_with_different_modes/{pair}', f'{what}: both ends OPEN although the specs ask for modes {pair}')
                return False
            rec['end'][acc] = rec['accepted'][0]
            rec['cids'] = {x: rec['end'][x].source_cid for x in (CLIENT, SERVER)}
            return True
        if rec['accepted'] and a_state != 'CLOSED':
            col.fail(f'aux_setup/asymmetric/client_raised/server_{a_state}/{pair}',
                     f'{what}: create_l2cap_channel() raised {rec["exc"]!r} but the accepting end is {a_state} at quiescence')
        return False

    def aux_write(rec, side, size) -> bool:
        data = sdu_bytes(side if rec['tag'] else (BG_C if side == CLIENT else BG_S), len(rec['written'][side]), size, rec['tag'])
        rec['written'][side].append(data)
        try:
            rec['end'][side].write(data)
        except Exception as e:  # noqa: BLE001 - judged against the property
            rec['written'][side].pop()
            rec['write_exc'] = (side, size, e)
            return False
        return True

    def aux_frames(rec) -> int:
        mode = rec['spec'][CLIENT]['mode']
        return sum(segments(len(d), int(rec['spec'][OTHER[side]]['mps'])) if mode == E else 1 + len(d) // acl
                   for side in (CLIENT, SERVER) for d in rec['written'][side])

    def aux_delivery(rec, prefix, what) -> None:
        mode = rec['spec'][CLIENT]['mode']
        if 'write_exc' in rec:
            side, size, exc = rec['write_exc']
            col.fail(f'{prefix}write_raises/{mode}/{type(exc).__name__}/{_site(exc)}',
                     f'{what}: write() of a {size}-byte SDU (receiver MTU {rec["spec"][OTHER[side]]["mtu"]}) raised {exc!r}')
        for side in (CLIENT, SERVER):
            v = delivery_verdict(rec['written'][side], rec['rx'][OTHER[side]])
            if v is not None:
                col.fail(f'{prefix}delivery/{v[0]}/{"ertm" if mode == E else "basic"}',
                         f'{what}, node {NODE[side]} -> node {NODE[OTHER[side]]}: {v[1]}')

    def server_sink(sdu):
        rx[SERVER].append(bytes(sdu))
        if echo:
            ch = st_['server_channels'][0]
            data = sdu_bytes(SERVER, len(written[SERVER]), echo)
            written[SERVER].append(data)
            try:
                ch.write(data)
            except Exception as e:  # noqa: BLE001 - judged against the property
                written[SERVER].pop()
                st_.setdefault('write_exc', (SERVER, len(data), e))

    def on_server_channel(channel):
        st_['server_channels'].append(channel)
        channel.sink = server_sink
        st_['lazy_cid'].setdefault(SERVER, channel.source_cid)

    def do_write(side, size) -> bool:
        ch = st_['client'] if side == CLIENT else st_['server_channels'][0]
        data = sdu_bytes(side, len(written[side]), size)
        written[side].append(data)
        try:
            ch.write(data)
        except Exception as e:  # noqa: BLE001 - judged against the property
            written[side].pop()
            st_['write_exc'] = (side, size, e)
            return False
        return True

    async def open_channel():
        w = st_['w']
        if case.get('no_server'):
            st_['psm'] = 0x1001  # nobody listens on this PSM: the request must be refused
        else:
            st_['psm'] = w[1].device.create_l2cap_server(spec=mkspec(spec[SERVER]), handler=on_server_channel).psm
        abort = loop.create_future()

        def watch(direction, packet, which):
            # signalling frames leaving a host during this set-up (cheap test on the ACL payload)
            if direction == world.H2C and packet[0] == 0x02 and len(packet) >= 9 and le16(packet, 7) == 0x0001:
                st_[which] = st_.get(which, 0) + 1
                if st_[which] > SIGNALLING_LIMIT and not abort.done():
                    abort.set_result(which)

        for i, name in ((0, 'sig_c'), (1, 'sig_s')):
            w[i].tap.listeners.append(lambda d, p, name=name: watch(d, p, name))

        async def create():
            return await st_['conn'].create_l2cap_channel(spec=mkspec(spec[CLIENT], psm=st_['psm']))

        async def refused(side, k):
            # a request nobody will accept: while it is pending it occupies one channel identifier on `side`
            return await st_['conns'][side].create_l2cap_channel(spec=mkspec(spec[side], psm=UNUSED_PSMS[k]))

        # requests to PSMs without a server, still pending when the request under judgement is issued: the
        # two ends of the channel get different identifiers (no other way to get there with one channel per link)
        decoys = [loop.create_task(refused(side, k)) for side, n in ((CLIENT, skew[0]), (SERVER, skew[1])) for k in range(n)]
        st_['decoys'] = decoys
        if 'bg_pending' in st_:
            # the background channel is set up at the same time (crossing requests when node 1 creates it)
            decoys = decoys + [loop.create_task(aux_open(st_['bg_pending']))]
        task = loop.create_task(create())
        await asyncio.wait({task, abort}, return_when=asyncio.FIRST_COMPLETED)
        if not task.done():
            st_['livelock'] = True
            task.cancel()
            for t in decoys:
                t.cancel()
            return
        if task.cancelled():
            st_['client_exc'] = asyncio.CancelledError()
        elif task.exception() is not None:
            st_['client_exc'] = task.exception()
        else:
            st_['client'] = task.result()
            st_['client'].sink = lambda sdu: rx[CLIENT].append(bytes(sdu))
            st_['lazy_cid'][CLIENT] = st_['client'].source_cid
            if case.get('early') and st_['client'].state == l2cap.ClassicChannel.State.OPEN:
                # the client writes as soon as create_l2cap_channel() returns (the server end may still be
                # waiting for the last configuration frame, which is ahead of the data on the same link)
                k = 0
                while k < len(ops) and ops[k][0] == CLIENT and do_write(CLIENT, int(ops[k][1])):
                    k += 1
                st_['next_op'] = k
        if decoys:
            await asyncio.wait(set(decoys))

    async def drive():
        for op in ops[st_.get('next_op', 0):]:
            if 'write_exc' in st_:
                return
            if op[0] == 't':
                await asyncio.sleep(int(op[1]) / 1000.0)
            elif op[0] in BG_END:
                rec = st_.get('bg')
                if rec is not None and 'write_exc' not in rec:
                    aux_write(rec, BG_END[op[0]], int(op[1]))
            elif not do_write(op[0], int(op[1])):
                return

    try:
        try:
            loop.complete(build(), horizon=100_000.0)
        except (vloop.Stalled, vloop.HorizonExceeded, vloop.BudgetExceeded) as e:
            raise HarnessError(f'C08 harness: devices did not power on / connect ({type(e).__name__})') from e

        # ---- history: channels opened, used and closed before the one under judgement --------
        for j, desc in enumerate(pre):
            rec = aux_record(desc, j + 1)
            what = f'earlier channel #{j + 1} of the link'
            if desc.get('rush'):
                # no quiescence: the next create_l2cap_channel() is called the moment this one has raised (the
                # closing handshake of the failed channel is still going on); judged after the last set-up
                try:
                    loop.complete(aux_open(rec), horizon=vloop.HORIZON + 2000 * dmax)
                except (vloop.Stalled, vloop.HorizonExceeded) as e:
                    col.fail(f'aux_setup/hang/{type(e).__name__}/{rec["spec"][rec["by"]]["mode"]}{rec["spec"][OTHER[rec["by"]]]["mode"]}',
                             f'{what}: create_l2cap_channel() neither returned nor raised')
                    return col
                except vloop.BudgetExceeded:
                    col.labels.add('iteration_budget_hit')
                    return col
                if rec['by'] not in rec['end']:
                    st_.setdefault('postponed', []).append((rec, what))
                    col.labels.add('history:next_setup_right_after_failure')
                    continue
                loop.run_for(60.0 + 40 * dmax)
                opened = aux_judge(rec, what)
            else:
                opened = aux_setup(rec, what)
            if not opened:
                if col.fails or 'iteration_budget_hit' in col.labels:
                    return col
                col.labels.add('history:setup_closed')
                continue
            async def program(rec=rec, desc=desc):
                for op in desc.get('ops') or []:
                    if op[0] in (CLIENT, SERVER) and not aux_write(rec, op[0], int(op[1])):
                        break

            loop.complete(program())
            loop.run_for(600.0 + aux_frames(rec) * 14 * (dmax + 0.001) * 4)
            if loop.budget_hit:
                col.labels.add('iteration_budget_hit')
                return col
            aux_delivery(rec, 'history/', what)
            if col.fails:
                return col
            try:
                loop.complete(rec['end'][desc.get('close') or CLIENT].disconnect(), horizon=vloop.HORIZON + 2000 * dmax)
            except (vloop.Stalled, vloop.HorizonExceeded, vloop.BudgetExceeded):
                col.labels.add('history:disconnect_did_not_finish')  # closing a channel is C09's subject
            except Exception:  # noqa: BLE001 - idem
                col.labels.add('history:disconnect_raised')
            loop.run_for(60.0 + 40 * dmax)
            if all(rec['end'][x].state.name == 'CLOSED' for x in (CLIENT, SERVER)):
                col.labels.add('history:opened_used_closed')
                st_.setdefault('old_cids', []).append(rec['cids'])

        # ---- background channel: stays open, carries its own traffic during the program --------
        if bg and bg.get('with_main'):
            st_['bg_pending'] = aux_record(bg, 0)
        elif bg:
            rec = aux_record(bg, 0)
            if aux_setup(rec, 'background channel'):
                st_['bg'] = rec
                col.labels.add('bg:open')
            elif col.fails or 'iteration_budget_hit' in col.labels:
                return col
            else:
                col.labels.add('bg:closed')

        # ---- set-up ----------------------------------------------------------------------
        outcome = 'done'
        try:
            loop.complete(open_channel(), horizon=vloop.HORIZON + 2000 * dmax)
        except vloop.Stalled:
            outcome = 'stalled'
        except vloop.HorizonExceeded:
            outcome = 'horizon'
        except vloop.BudgetExceeded:
            outcome = 'budget'
        pair = spec[CLIENT]['mode'] + spec[SERVER]['mode']
        fcsk = ''.join(
            'F' if spec[x]['fcs'] else ('-' if spec[x].get('fcs_sup', True) else 'u') for x in (CLIENT, SERVER)
        )
        if st_.get('livelock'):
            cause = 'fcs_option_unsupported' if ('F' in fcsk and 'u' in fcsk) else f'fcs:{fcsk}'
            col.fail(
                f'setup/livelock/{cause}',
                f'channel set-up never ends: more than {SIGNALLING_LIMIT} signalling frames from one side in zero time '
                f'(modes {pair}, FCS {fcsk}: F=requested, -=not requested, u=not requested and option unsupported)',
            )
            col.labels.add('setup_livelock')
            return col
        if outcome == 'budget':
            col.labels.add('iteration_budget_hit')
            return col
        if outcome != 'done' and ('client' in st_ or 'client_exc' in st_):
            col.fail(f'aux_setup/hang/{outcome}', 'the channel under judgement is set up, but a request issued together with it (to a PSM '
                     f'without a server, or the background channel) neither returned nor raised ({outcome})')
            return col
        if outcome != 'done':
            col.fail(f'setup/hang/{outcome}/{pair}', f'create_l2cap_channel() neither returned nor raised ({outcome}); modes {pair}, FCS {fcsk}')
            return col
        loop.run_for(60.0 + 40 * dmax)
        client = st_.get('client')
        servers = st_['server_channels']
        s_state = servers[0].state.name if servers else 'NONE'
        for t in st_.get('decoys') or []:
            if t.done() and not t.cancelled() and t.exception() is None:
                col.fail('setup/open_without_server', 'create_l2cap_channel() returned although nobody listens on the PSM')
                return col
        if client is not None and case.get('no_server'):
            col.fail('setup/open_without_server', 'create_l2cap_channel() returned although nobody listens on the PSM')
            return col
        for rec, what in st_.get('postponed') or []:
            aux_judge(rec, what + ' (the next set-up started the moment this one had failed)')
            if col.fails:
                return col
            col.labels.add('history:setup_closed')
        if 'bg_pending' in st_:
            if aux_judge(st_['bg_pending'], 'background channel (set up together with the channel under judgement)'):
                st_['bg'] = st_['bg_pending']
                col.labels.update(('bg:open', 'bg:opened_with_main'))
            elif col.fails:
                return col
            else:
                col.labels.add('bg:closed')
        if client is not None:
            c_state = client.state.name
            if c_state != 'OPEN':
                col.fail(f'setup/returned_not_open/{c_state}', f'create_l2cap_channel() returned a channel in state {c_state}')
                return col
            if s_state != 'OPEN':
                col.fail(
                    f'setup/asymmetric/client_OPEN/server_{s_state}/{pair}',
                    f'client end OPEN (create returned) but server end is {s_state} at quiescence; modes {pair}, FCS {fcsk}',
                )
                return col
            if pair[0] != pair[1] or client.mode != servers[0].mode:
                col.fail(f'setup/open_with_different_modes/{pair}', f'both ends OPEN although the specs ask for modes {pair}')
                return col
            col.labels.add('setup:open')
        else:
            exc = st_.get('client_exc')
            if servers and s_state != 'CLOSED':
                col.fail(
                    f'setup/asymmetric/client_raised/server_{s_state}/{pair}',
                    f'create_l2cap_channel() raised {exc!r} but the server end is {s_state} at quiescence; modes {pair}, FCS {fcsk}',
                )
                return col
            for ch in st_['w'][0].device.l2cap_channel_manager.channels.get(st_['conn'].handle, {}).values():
                if isinstance(ch, l2cap.ClassicChannel) and ch.state == ch.State.OPEN and ch is not st_.get('bg', {}).get('end', {}).get(CLIENT):
                    col.fail(f'setup/asymmetric/client_raised_but_open/{pair}', 'create raised but the client keeps an OPEN channel')
                    return col
            col.labels.add('setup:closed')
            if pair[0] == pair[1] and not case.get('no_server'):
                # allowed by the statement ("or both ends closed"); counted so that it cannot go unnoticed
                col.labels.add('setup:closed_although_same_mode')
            return col

        # ---- transfer --------------------------------------------------------------------
        outcome = 'done'
        try:
            loop.complete(drive(), horizon=vloop.HORIZON + sum(int(o[1]) for o in ops if o[0] == 't') / 1000.0)
        except (vloop.Stalled, vloop.HorizonExceeded):
            raise HarnessError('C08 harness: the write program itself cannot block')
        except vloop.BudgetExceeded:
            col.labels.add('iteration_budget_hit')
            return col
        mode = pair[0]
        total_frames = total_frags = 0
        for side in (CLIENT, SERVER):
            for data in written[side]:
                n = segments(len(data), int(spec[OTHER[side]]['mps'])) if mode == E else 1
                total_frames += n
                total_frags += n + (len(data) + 12 * n) // acl
        if 'bg' in st_:
            total_frames += aux_frames(st_['bg'])
            total_frags += aux_frames(st_['bg']) * 2
        bound = 600.0 + (total_frames * 12 + total_frags) * (dmax + 0.001) * 4
        if lazy[CLIENT] or lazy[SERVER]:
            # every window may have to wait for the sender's retransmission timer (<= 2 s) and one poll round trip
            bound += total_frames * (2.0 + 8 * dmax)
        loop.run_for(bound)
        if loop.budget_hit:
            col.labels.add('iteration_budget_hit')
            return col
        col.loop_errors = list(loop.errors)

        analysis = analyse_wire(col, st_, spec, mode)
        if 'write_exc' in st_:
            side, size, exc = st_['write_exc']
            col.fail(
                f'write_raises/{mode}/{type(exc).__name__}/{_site(exc)}',
                f'write() of a {size}-byte SDU (receiver MTU {spec[OTHER[side]]["mtu"]}, MPS {spec[OTHER[side]]["mps"]}) raised {exc!r}',
            )
        # delivery, per direction
        for side in (CLIENT, SERVER):
            v = delivery_verdict(written[side], rx[OTHER[side]])
            if v is None:
                continue
            kind, detail = v
            if kind == 'lost' and analysis.get('rr_poll', {}).get(side):
                kind = 'lost/after_retransmission_timer'
                detail += '; the sender\'s retransmission timer had fired (it sent an RR S-frame on its own)'
            errs = '; '.join(sorted({repr(e.get('exception')) for e in col.loop_errors}))[:200]
            col.fail(
                f'delivery/{kind}/{"ertm" if mode == E else "basic"}',
                f'{"client" if side == CLIENT else "server"} -> peer: {detail}' + (f' [loop errors: {errs}]' if errs else ''),
            )
        if 'bg' in st_:
            rec = st_['bg']
            aux_delivery(rec, 'background/', 'background channel (open during the whole program)')
            if any(rec['written'][x] for x in (CLIENT, SERVER)):
                col.labels.add('bg_traffic')
            if all(rec['end'][x].state.name == 'OPEN' for x in (CLIENT, SERVER)):
                col.labels.add('bg:still_open')
        for side in (CLIENT, SERVER):
            if st_['lazy_dropped'][side]:
                col.labels.add('lazy_ack')
        return col
    finally:
        loop.shutdown()


def analyse_wire(col: Collector, st_, spec, mode) -> dict:
    """Wire monitor. Adds failures to col; returns statistics."""
    views = st_['views']
    frames = [views[0].frames(), views[1].frames()]
    neg = negotiated(frames[0], st_['psm'])
    out: dict = {'rr_poll': {}}
    if neg is None or neg['cid'][CLIENT] is None or neg['cid'][SERVER] is None:
        raise HarnessError('C08 harness: channel OPEN but no Connection Request/Response found on the wire')
    cid, adv = neg['cid'], neg['adv']
    # frames older than the Connection Request belong to earlier channels that may have used the same identifiers
    start = [neg['start'], request_position(frames[1], st_['psm'])]
    if start[1] is None:
        raise HarnessError('C08 harness: channel OPEN but node 1 never received the Connection Request')
    if cid[CLIENT] != cid[SERVER]:
        col.labels.add('cid_asymmetric')
    if any(cid[x] == old[x] for old in st_.get('old_cids') or [] for x in (CLIENT, SERVER)):
        col.labels.add('cid_reused')
    if any(neg['last_result'][x] != 0 for x in (CLIENT, SERVER)):
        col.fail('wire/open_without_accepted_configuration', f'both ends OPEN but the last Configure Requests were answered {neg["last_result"]}')
        return out
    wire_mode = {x: adv[x].get('mode', 0) for x in (CLIENT, SERVER)}
    if wire_mode[CLIENT] != wire_mode[SERVER]:
        col.fail('wire/config_modes_differ', f'accepted Configure Requests carry different modes: {wire_mode}')
        return out
    if (wire_mode[CLIENT] == 3) != (mode == E):
        col.fail('wire/config_mode_not_spec', f'specs ask for mode {mode} but the accepted configuration says {wire_mode}')
        return out
    fcs_on = any(adv[x].get('fcs') == 1 for x in (CLIENT, SERVER))
    if fcs_on:
        col.labels.add('fcs_on_wire')
    if mode != E:
        return out
    for x in (CLIENT, SERVER):
        for k, name in (('win', 'TxWindow'), ('mps', 'MPS')):
            if adv[x].get(k) != int(spec[x][k]):
                col.fail(f'wire/config_{k}', f'{name} in the accepted Configure Request is {adv[x].get(k)}, spec says {spec[x][k]}')
                return out
    for i, x in enumerate((CLIENT, SERVER)):
        y = OTHER[x]
        window, mps = adv[y]['win'], adv[y]['mps']
        who = 'client' if x == CLIENT else 'server'
        n_sent = acked = 0  # I-frames x sent / acknowledged by ReqSeq values x received
        n_rcvd = ack_sent = 0  # I-frames x received / acknowledged by ReqSeq values x sent
        sar_total = None  # (announced, accumulated) while inside a segmented SDU
        polled = False
        max_unacked = 0
        for pos, d, fcid, payload in frames[i]:
            if pos < start[i]:
                continue
            if d == 'rx':
                if fcid != cid[x]:
                    continue
                f = parse_ertm(fcid, payload, fcs_on)
                if isinstance(f, str):
                    continue  # reported from the sender's view
                adv_ = (f['req_seq'] - acked) % 64
                if adv_ > n_sent - acked:
                    col.fail(
                        'wire/reqseq_acknowledges_unsent',
                        f'{who} received ReqSeq={f["req_seq"]} after sending {n_sent} I-frames of which {acked} were acknowledged',
                    )
                    return out
                if adv_ >= 2:
                    col.labels.add('cumulative_ack')
                    if adv_ == window:
                        col.labels.add('cumulative_ack_of_whole_window')
                    if acked % 64 + adv_ > 64:
                        col.labels.add('cumulative_ack_across_wrap')
                acked += adv_
                if f['kind'] == 'I':
                    n_rcvd += 1
                elif f['poll']:
                    polled = True
                continue
            if fcid != cid[y]:
                continue
            f = parse_ertm(fcid, payload, fcs_on)
            if isinstance(f, str):
                col.fail('wire/malformed_frame', f'{who} sent: {f}')
                return out
            if f['fcs_ok'] is False:
                col.fail(f'wire/fcs_bad/{f["kind"]}', f'{who} sent an {f["kind"]}-frame whose FCS does not verify although FCS was negotiated')
                return out
            adv_ = (f['req_seq'] - ack_sent) % 64
            if adv_ > n_rcvd - ack_sent:
                col.fail(
                    'wire/reqseq_acknowledges_unsent',
                    f'{who} sent ReqSeq={f["req_seq"]} in an {f["kind"]}-frame after receiving {n_rcvd} I-frames',
                )
                return out
            ack_sent += adv_
            if f['kind'] == 'S':
                if f['extra']:
                    col.fail('wire/malformed_frame', f'{who} sent an S-frame with {f["extra"]} extra octets' + ('' if fcs_on else ' (FCS not negotiated)'))
                    return out
                if f['poll'] or (f['final'] and not polled):
                    out['rr_poll'][x] = True
                polled = False
                continue
            if f['tx_seq'] != n_sent % 64:
                col.fail('wire/txseq_gap', f'{who} sent I-frame #{n_sent} with TxSeq={f["tx_seq"]}, expected {n_sent % 64}')
                return out
            n_sent += 1
            max_unacked = max(max_unacked, n_sent - acked)
            if n_sent - acked > window:
                col.fail(
                    'wire/window_exceeded',
                    f'{who} has {n_sent - acked} unacknowledged I-frames, the peer advertised TxWindow={window}',
                )
                return out
            if len(f['info']) > mps:
                col.fail('wire/mps_exceeded', f'{who} sent an I-frame with {len(f["info"])} payload octets, peer MPS={mps}')
                return out
            sar = f['sar']
            if sar in (0, 1):
                if sar_total is not None:
                    col.fail('wire/sar', f'{who} sent SAR={sar} inside a segmented SDU ({sar_total[1]}/{sar_total[0]} octets so far)')
                    return out
                if sar == 1:
                    sar_total = (f['sdu_length'], len(f['info']))
            else:
                if sar_total is None:
                    col.fail('wire/sar', f'{who} sent SAR={sar} (continuation/end) without a START')
                    return out
                sar_total = (sar_total[0], sar_total[1] + len(f['info']))
                if sar == 2:
                    if sar_total[0] != sar_total[1]:
                        col.fail('wire/sar', f'{who}: START announced {sar_total[0]} octets, segments carry {sar_total[1]}')
                        return out
                    sar_total = None
        if n_sent > 64:
            col.labels.add('txseq_wrapped')
        if max_unacked >= window and n_sent:
            col.labels.add('window_filled')
        if out['rr_poll'].get(x):
            col.labels.add('retransmission_timer_fired')
    return out


# ---------------------------------------------------------------------------
# recording / classification
# ---------------------------------------------------------------------------
def classify(case):
    spec = {CLIENT: case[CLIENT], SERVER: case[SERVER]}
    pair = spec[CLIENT]['mode'] + spec[SERVER]['mode']
    labels = {f'mode:{pair}', f'carrier:{case["carrier"]}'}
    nontrivial = False
    if pair[0] != pair[1]:
        labels.add('mode_mismatch')
        nontrivial = True
    if case.get('no_server'):
        labels.add('no_server_on_psm')
    if any(case.get('dc') or []) or any(case.get('ds') or []):
        labels.add('delayed')
    fcs = any(spec[x]['fcs'] for x in spec)
    if fcs:
        labels.add('fcs_requested')
        nontrivial = True
    if any(not spec[x].get('fcs_sup', True) for x in spec):
        labels.add('fcs_option_unsupported')
    writers = set()
    if any(case.get('skew') or []):
        labels.add('ext:skew')
        nontrivial = True
    if any((case.get('lazy') or {}).values()):
        labels.add('ext:lazy')
        nontrivial = True
    if case.get('bg'):
        labels.add('ext:bg')
        labels.add(f'bg:mode:{case["bg"][CLIENT]["mode"]}')
        nontrivial = True
        if case['bg'][CLIENT]['mode'] == E and pair == 'EE':
            labels.add('two_ertm_channels')
    if case.get('pre'):
        labels.add('ext:history')
        nontrivial = True
    for op in case.get('ops') or []:
        if op[0] == 't':
            labels.add('pause')
            continue
        if op[0] in BG_END:
            continue
        writers.add(op[0])
        if pair == 'EE':
            r = spec[OTHER[op[0]]]
            n = segments(int(op[1]), int(r['mps']))
            if n >= 2:
                labels.add('segmented')
                nontrivial = True
            if n > int(r['win']):
                labels.add('window_lt_segments')
                nontrivial = True
            if n > 64:
                labels.add('sdu_over_64_segments')
    if len(writers) == 2 or (writers and case.get('echo')):
        labels.add('bidirectional')
    if case.get('echo'):
        labels.add('echo_from_sink')
    if case.get('early') and (case.get('ops') or [['t']])[0][0] == CLIENT:
        labels.add('write_right_after_create')
    if pair == 'EE' and (case.get('dc') and case.get('ds')):
        rtt = 2 * (min(int(x) for x in case['dc']) + min(int(x) for x in case['ds'])) / 1000.0
        if any(rtt > float(spec[x]['rto']) for x in spec) and 'window_lt_segments' in labels:
            labels.add('round_trip_exceeds_retransmission_timeout')
    return labels, nontrivial


def run_case(ctx, case, record=True) -> None:
    for side in (CLIENT, SERVER):
        if int(case[side]['mps']) > MAX_MPS:
            # the largest I-frame (START: control + SDU length + MPS octets + FCS) must fit one HCI ACL packet
            # of the virtual controller, which does not fragment towards the host (C05); above 65529 Bumble
            # itself cannot build the frame (struct.error in L2CAP_PDU.to_bytes, no cap on the segment size)
            ctx.exclude('mps_above_65525_clamped')
            case = dict(case, **{side: dict(case[side], mps=MAX_MPS)})
    col = exec_case(case)
    if col.fails:
        other = dict(case, carrier='le' if case['carrier'] == 'classic' else 'classic')
        osigs = {s for s, _ in exec_case(other).fails}
        for sig, what in col.fails:
            if sig not in osigs:
                sig = f'{sig}@{case["carrier"]}-only'
            ctx.fail(sig, what, case)
    if not record:
        return
    labels, nontrivial = classify(case)
    labels |= col.labels
    if 'txseq_wrapped' in labels:
        nontrivial = True
    ctx.case(('c08', case), nontrivial, labels,
             sample={k: case.get(k) for k in ('carrier', 'acl', CLIENT, SERVER, 'dc', 'ds', 'echo', 'early')}
             | {k: case[k] for k in ('skew', 'lazy', 'bg', 'pre') if case.get(k)} | {'ops': (case.get('ops') or [])[:8]})


# ---------------------------------------------------------------------------
# generators
# ---------------------------------------------------------------------------
def spec_strategy(mode=None):
    mtu = st.one_of(st.sampled_from([48, 49, 64, 672, 1024, 2048, 65535]), st.integers(48, 4096), st.integers(48, 65535))
    mps = st.one_of(
        st.sampled_from([23, 24, 25, 31, 48, 64, 255, 256, 1009, 1010]),
        st.integers(23, 80), st.integers(23, 1010), st.integers(23, 1010),
    )
    huge_mps = st.sampled_from([1011, 2048, 4096, 65525, 65525, 65526, 65530, 65535])
    win = st.one_of(st.sampled_from([1, 2, 3, 8, 32, 62, 63]), st.integers(1, 63))

    def build(d):
        m, mtu_, mps_, huge, pick_huge, win_, fcs, sup, maxr, rto = d
        return {'mode': m, 'mtu': mtu_, 'mps': huge if pick_huge == 0 else mps_, 'win': win_, 'fcs': fcs,
                'fcs_sup': True if fcs else sup, 'maxr': maxr, 'rto': rto}

    return st.tuples(
        st.just(mode) if mode else st.sampled_from([E, E, E, B]), mtu, mps, huge_mps, st.integers(0, 19), win,
        st.booleans(), st.sampled_from([True, True, True, False]), st.sampled_from([0, 1, 1, 3, 255]),
        st.sampled_from([2.0] * 6 + [0.4, 0.03]),
    ).map(build)


@st.composite
def case_strategy(draw):
    pair = draw(st.sampled_from(['EE'] * 9 + ['BB'] * 3 + ['EB', 'BE']))
    spec = {CLIENT: draw(spec_strategy(pair[0])), SERVER: draw(spec_strategy(pair[1]))}
    acl = draw(st.sampled_from([27, 27, 251, 1021]))
    mode = pair[0]
    shapes = ['small', 'segmented', 'segmented', 'segmented', 'wrap', 'wrap', 'many', 'mtu']
    if pair == 'EE':
        shapes += ['slow', 'slow']
    shape = draw(st.sampled_from(shapes))
    writer = draw(st.sampled_from([CLIENT, SERVER]))  # the side that writes the characteristic SDUs
    r = spec[OTHER[writer]]
    dc = draw(st.lists(st.sampled_from([0, 0, 0, 1, 7, 50]), max_size=5))
    ds = draw(st.lists(st.sampled_from([0, 0, 0, 1, 7, 50]), max_size=5))
    if shape == 'wrap' and mode == E and draw(st.integers(0, 3)):
        # one SDU of more than 64 segments needs a small MPS and an MTU that admits it
        r['mps'] = draw(st.integers(23, 60))
        r['mtu'] = max(r['mtu'], 141 * r['mps'] + 8)
    if shape == 'slow':
        # acknowledgements take longer than the sender's retransmission timeout while frames are waiting
        # behind a full window: the timer fires, the sender polls, the peer answers, the transfer goes on
        big = draw(st.booleans())
        pool = [1200, 700] if big else [50, 20]
        dc = draw(st.lists(st.sampled_from(pool), min_size=1, max_size=3))
        ds = draw(st.lists(st.sampled_from(pool), min_size=1, max_size=3))
        spec[writer]['rto'] = 2.0 if big else 0.03
        r['win'] = draw(st.integers(1, 4))
        r['mps'] = draw(st.sampled_from([23, 30, 48, 100]))
        r['mtu'] = max(r['mtu'], 16 * r['mps'])
    case = {'kind': 'xfer', 'carrier': draw(st.sampled_from(['classic', 'le'])), 'acl': acl,
            CLIENT: spec[CLIENT], SERVER: spec[SERVER], 'dc': dc, 'ds': ds, 'echo': 0, 'early': False, 'ops': []}
    if pair[0] != pair[1]:
        return case
    cap = 65535 if acl == 1021 else 8000
    ops: list = []

    def size_for(w, kind):
        rr = spec[OTHER[w]]
        limit = min(max_sdu(rr, mode), cap)
        mps = int(rr['mps']) if mode == E else draw(st.sampled_from([23, 48, 100]))
        if kind == 'small':
            n = draw(st.one_of(st.integers(0, min(mps, 40)), st.sampled_from([mps - 1, mps])))
        elif kind == 'segmented':
            k = draw(st.sampled_from([1, 2, 2, 3, 4, 5, 8, 13, 31, 63]))
            n = k * mps + draw(st.sampled_from([-1, 0, 0, 1, draw(st.integers(2, 22))]))
        elif kind == 'wrap':
            k = draw(st.sampled_from([64, 65, 66, 70, 127, 128, 129, 140]))
            n = k * mps + draw(st.sampled_from([-1, 0, 1, 7]))
        elif kind == 'over_window':
            k = int(rr['win']) + draw(st.integers(1, 9))
            n = k * mps + draw(st.sampled_from([-1, 0, 1]))
        else:  # near the receiver's MTU
            n = limit - draw(st.sampled_from([0, 0, 1, 2, 3, draw(st.integers(0, 40))]))
        return max(0, min(n, limit))

    if shape == 'many':
        # more than 64 I-frames made of many small SDUs
        for _ in range(draw(st.integers(65, 140))):
            ops.append([writer, size_for(writer, 'small')])
            if draw(st.integers(0, 15)) == 0:
                ops.append([OTHER[writer], size_for(OTHER[writer], 'small')])
    elif shape == 'wrap':
        mps = int(r['mps']) if mode == E else 48
        if 66 * mps <= min(max_sdu(r, mode), cap):
            ops.append([writer, size_for(writer, 'wrap')])
        else:
            # the receiver's MTU (or the cost cap) does not allow one SDU of >64 segments: several SDUs
            per = max(1, min(max_sdu(r, mode), cap, 3 * mps))
            for _ in range(-(-70 * mps // per) if per >= mps else 70):
                ops.append([writer, per - draw(st.integers(0, 1))])
        for _ in range(draw(st.integers(0, 2))):
            ops.insert(draw(st.integers(0, len(ops))),
                       [OTHER[writer], size_for(OTHER[writer], draw(st.sampled_from(['small', 'segmented'])))])
    elif shape == 'slow':
        for _ in range(draw(st.integers(1, 3))):
            ops.append([writer, size_for(writer, 'over_window')])
            if draw(st.integers(0, 3)) == 0:
                ops.append([OTHER[writer], size_for(OTHER[writer], 'small')])
    else:
        for _ in range(draw(st.integers(1, 7))):
            kind = draw(st.sampled_from([CLIENT, CLIENT, SERVER, SERVER, 't']))
            if kind == 't':
                ops.append(['t', draw(st.sampled_from([0, 1, 10, 100, 3000]))])
            else:
                first = not any(o[0] != 't' for o in ops)
                ops.append([kind, size_for(kind, 'mtu' if (shape == 'mtu' and first) else ('segmented' if shape == 'mtu' else shape))])
    if draw(st.integers(0, 5)) == 0 and any(o[0] == CLIENT for o in ops):
        case['echo'] = max(1, min(size_for(SERVER, draw(st.sampled_from(['small', 'segmented']))), 3000))
    case['ops'] = ops
    case['early'] = bool(ops) and ops[0][0] == CLIENT and draw(st.integers(0, 2)) == 0
    return case


def grid_cases(thorough=False):
    """Set-up grid, enumerated: mode x mode x {no FCS, FCS, no FCS + option unsupported}^2 x carrier x delays
    (+ mode x carrier with no server on the PSM)."""
    fcs_states = (('-', False, True), ('F', True, True), ('u', False, False))
    profiles = [[[], []], [[0, 7], []], [[], [3, 0, 50]]]
    if thorough:
        profiles += [[[50], [0, 1]], [[1, 0], [7]], [[0, 0, 50], [50, 0]], [[7], [7]]]
    out = []
    for carrier in ('classic', 'le'):
        for mc in (E, B):
            for ms in (E, B):
                for _nc, fc, sc in fcs_states:
                    for _ns, fs, ss in fcs_states:
                        for dc, ds in profiles:
                            c = {'mode': mc, 'mtu': 672, 'mps': 40, 'win': 3, 'fcs': fc, 'fcs_sup': sc, 'maxr': 1, 'rto': 2.0}
                            s = {'mode': ms, 'mtu': 512, 'mps': 32, 'win': 2, 'fcs': fs, 'fcs_sup': ss, 'maxr': 1, 'rto': 2.0}
                            ops = [[CLIENT, 150], [SERVER, 130], [CLIENT, 7]] if mc == ms else []
                            out.append({'kind': 'grid', 'carrier': carrier, 'acl': 27, CLIENT: c, SERVER: s,
                                        'dc': list(dc), 'ds': list(ds), 'echo': 0, 'ops': ops})
            c = {'mode': mc, 'mtu': 672, 'mps': 40, 'win': 3, 'fcs': False, 'fcs_sup': True, 'maxr': 1, 'rto': 2.0}
            out.append({'kind': 'grid', 'carrier': carrier, 'acl': 27, CLIENT: c, SERVER: dict(c), 'no_server': True,
                        'dc': [], 'ds': [1], 'echo': 0, 'ops': []})
    return out


# ---------------------------------------------------------------------------
# extension families: identifier skew, lazily acknowledging peer, background channel, history
# ---------------------------------------------------------------------------
SKEWS = ([1, 0], [0, 1], [2, 1], [1, 3], [3, 0], [0, 2])


def aux_sizes(draw, receiver: dict, mode: str, n: int, cap: int = 3000):
    """n SDU sizes for an auxiliary channel: unsegmented, k x MPS +-1, more segments than the window."""
    limit = min(max_sdu(receiver, mode), cap)
    mps = int(receiver['mps']) if mode == E else 48
    out = []
    for _ in range(n):
        kind = draw(st.sampled_from(['small', 'small', 'seg', 'seg', 'win']))
        if kind == 'small':
            size = draw(st.one_of(st.integers(0, min(mps, 40)), st.sampled_from([mps - 1, mps])))
        elif kind == 'seg':
            size = draw(st.sampled_from([1, 2, 2, 3, 5, 8])) * mps + draw(st.sampled_from([-1, 0, 0, 1, 9]))
        else:
            size = (int(receiver['win']) + draw(st.integers(1, 4))) * mps + draw(st.sampled_from([-1, 0, 1]))
        out.append(max(0, min(size, limit)))
    return out


@st.composite
def aux_spec_pair(draw, pair):
    out = {}
    for side, mode in ((CLIENT, pair[0]), (SERVER, pair[1])):
        sp = draw(spec_strategy(mode))
        sp['mps'] = min(int(sp['mps']), 1010)
        out[side] = sp
    return out


@st.composite
def ext_strategy(draw):
    feature = draw(st.sampled_from(['skew', 'lazy', 'lazy', 'bg', 'bg', 'bg', 'history', 'history', 'mix', 'mix']))
    with_ = {
        'skew': feature == 'skew' or (feature == 'mix' and draw(st.booleans())) or draw(st.integers(0, 5)) == 0,
        'lazy': feature == 'lazy' or (feature == 'mix' and draw(st.booleans())),
        'bg': feature == 'bg' or (feature == 'mix' and draw(st.booleans())),
        'history': feature == 'history' or (feature == 'mix' and draw(st.booleans())),
    }
    if with_['lazy']:
        pair = 'EE'
    else:
        pair = draw(st.sampled_from(['EE'] * 7 + ['BB'] * 3 + ['EB', 'BE']))
    spec = {CLIENT: draw(spec_strategy(pair[0])), SERVER: draw(spec_strategy(pair[1]))}
    for side in spec:
        spec[side]['mps'] = min(int(spec[side]['mps']), 1010)
    acl = draw(st.sampled_from([27, 27, 251, 1021]))
    mode = pair[0]
    dc = draw(st.lists(st.sampled_from([0, 0, 0, 1, 7, 50]), max_size=4))
    ds = draw(st.lists(st.sampled_from([0, 0, 0, 1, 7, 50]), max_size=4))
    case = {'kind': 'ext', 'carrier': draw(st.sampled_from(['classic', 'le'])), 'acl': acl,
            CLIENT: spec[CLIENT], SERVER: spec[SERVER], 'dc': dc, 'ds': ds, 'echo': 0, 'early': False, 'ops': []}
    if with_['skew']:
        case['skew'] = list(draw(st.sampled_from(SKEWS)))
    if with_['history']:
        case['pre'] = []
        for _ in range(draw(st.sampled_from([1, 1, 2, 3]))):
            ppair = draw(st.sampled_from(['EE', 'EE', 'BB', 'BB', 'EE', 'BB', 'EB', 'BE']))
            d = draw(aux_spec_pair(ppair))
            for side in (CLIENT, SERVER):
                d[side]['fcs'] = bool(d[side]['fcs'] and spec[side].get('fcs_sup', True))
            d['by'] = draw(st.sampled_from([CLIENT, SERVER]))
            d['close'] = draw(st.sampled_from([CLIENT, SERVER]))
            d['ops'] = []
            if ppair[0] != ppair[1]:
                d['rush'] = draw(st.sampled_from([True, True, False]))
            if ppair[0] == ppair[1]:
                for _ in range(draw(st.integers(0, 3))):
                    wside = draw(st.sampled_from([CLIENT, SERVER]))
                    d['ops'].append([wside, aux_sizes(draw, d[OTHER[wside]], ppair[0], 1)[0]])
            case['pre'].append(d)
    if pair[0] != pair[1]:
        return case
    ops: list = []
    if with_['lazy']:
        # the writer's peer acknowledges cumulatively; programs keep more I-frames queued than the window holds
        writer = draw(st.sampled_from([CLIENT, SERVER]))
        r = spec[OTHER[writer]]
        r['win'] = draw(st.one_of(st.sampled_from([1, 2, 3, 4, 8, 16, 62, 63]), st.integers(1, 63)))
        r['mps'] = draw(st.sampled_from([23, 30, 48, 100]))
        r['mtu'] = max(int(r['mtu']), 150 * r['mps'])
        win, mps = int(r['win']), int(r['mps'])
        shape = draw(st.sampled_from(['one_sdu', 'many', 'several']))
        if shape == 'one_sdu':
            ops.append([writer, draw(st.integers(win + 1, 140)) * mps + draw(st.sampled_from([-1, 0, 1]))])
        elif shape == 'many':
            for _ in range(draw(st.integers(max(win + 1, 20), 140))):
                ops.append([writer, draw(st.integers(0, mps))])
        else:
            for _ in range(draw(st.integers(2, 4))):
                ops.append([writer, (win + draw(st.integers(1, 9))) * mps + draw(st.sampled_from([-1, 0, 1]))])
        for _ in range(draw(st.integers(0, 3))):
            # traffic the other way: acknowledgements ride on I-frames; pauses let the timers run
            what = draw(st.sampled_from([OTHER[writer], OTHER[writer], 't']))
            op = ['t', draw(st.sampled_from([1, 100, 3000]))] if what == 't' else \
                [what, aux_sizes(draw, spec[writer], E, 1, cap=2000)[0]]
            ops.insert(draw(st.integers(0, len(ops))), op)
        patterns = [[1], [2], [max(win - 1, 1)], [win], [win + 3], [70], [0, 2, 1]]
        case['lazy'] = {writer: draw(st.one_of(st.sampled_from(patterns), st.lists(st.integers(0, win + 2), min_size=1, max_size=4)))}
        if sum(case['lazy'][writer]) == 0:
            case['lazy'][writer] = [1]
        if draw(st.integers(0, 2)) == 0:
            case['lazy'][OTHER[writer]] = draw(st.sampled_from([[1], [3], [0, 5]]))
    else:
        for _ in range(draw(st.integers(1, 6))):
            what = draw(st.sampled_from([CLIENT, CLIENT, SERVER, SERVER, 't']))
            if what == 't':
                ops.append(['t', draw(st.sampled_from([0, 1, 10, 100, 3000]))])
            else:
                ops.append([what, aux_sizes(draw, spec[OTHER[what]], mode, 1, cap=8000)[0]])
    if with_['bg']:
        bmode = draw(st.sampled_from([E, E, B]))
        b = draw(aux_spec_pair(bmode + bmode))
        for side in (CLIENT, SERVER):
            b[side]['fcs'] = bool(b[side]['fcs'] and spec[side].get('fcs_sup', True))
        b['by'] = draw(st.sampled_from([CLIENT, SERVER]))
        b['with_main'] = draw(st.booleans())
        case['bg'] = b
        for _ in range(draw(st.integers(1, 6))):
            wside = draw(st.sampled_from([CLIENT, SERVER]))
            ops.insert(draw(st.integers(0, len(ops))),
                       [BG_C if wside == CLIENT else BG_S, aux_sizes(draw, b[OTHER[wside]], bmode, 1)[0]])
    if draw(st.integers(0, 7)) == 0 and any(o[0] == CLIENT for o in ops):
        case['echo'] = max(1, aux_sizes(draw, spec[CLIENT], mode, 1)[0])
    case['ops'] = ops
    case['early'] = bool(ops) and ops[0][0] == CLIENT and draw(st.integers(0, 3)) == 0
    return case


def skew_cases(quick: bool):
    """Identifier skew, enumerated: the two ends of the channel under judgement get different channel identifiers
    (requests that will be refused are pending on either side while it is set up)."""
    profiles = [[[], []], [[0, 7], []], [[], [3, 0, 50]]]
    out = []
    n = 0
    for carrier in ('classic', 'le'):
        for pair in ('EE', 'BB', 'EB', 'BE'):
            for skew in SKEWS[:4]:
                for fc in (False, True):
                    n += 1
                    for k, (dc, ds) in enumerate(profiles):
                        if (quick or pair[0] != pair[1]) and k != n % 3:
                            continue
                        c = {'mode': pair[0], 'mtu': 672, 'mps': 40, 'win': 3, 'fcs': fc, 'fcs_sup': True, 'maxr': 1, 'rto': 2.0}
                        s = {'mode': pair[1], 'mtu': 512, 'mps': 32, 'win': 2, 'fcs': False, 'fcs_sup': True, 'maxr': 1, 'rto': 2.0}
                        ops = [[CLIENT, 150], [SERVER, 130], [CLIENT, 7], [SERVER, 0]] if pair[0] == pair[1] else []
                        out.append({'kind': 'skewgrid', 'carrier': carrier, 'acl': 27, CLIENT: c, SERVER: s, 'skew': list(skew),
                                    'dc': list(dc), 'ds': list(ds), 'echo': 0, 'early': bool(fc), 'ops': ops})
    return out


def rush_cases(quick: bool):
    """Set-up right after a failed set-up, enumerated: an earlier channel with mismatching modes (created by either
    device) fails; the moment its create_l2cap_channel() raises, node 0 sets up the channel under judgement while the
    closing handshake of the failed one is still on the link.  x mode of the new channel x FCS states x delays."""
    fcs_pairs = (('-', '-'), ('F', '-'), ('-', 'F'), ('u', 'F'), ('F', 'u'))
    flag = {'-': (False, True), 'F': (True, True), 'u': (False, False)}
    profiles = [[[], []], [[7], [7]], [[1], [50]]]
    out = []
    n = 0
    for ppair in ('EB', 'BE'):
        for by in (CLIENT, SERVER):
            for mode in (E, B):
                for fc, fs in fcs_pairs:
                    n += 1
                    for k, (dc, ds) in enumerate(profiles):
                        if quick and k != n % 3:
                            continue
                        c = {'mode': mode, 'mtu': 672, 'mps': 40, 'win': 3, 'fcs': flag[fc][0], 'fcs_sup': flag[fc][1], 'maxr': 1, 'rto': 2.0}
                        s = {'mode': mode, 'mtu': 512, 'mps': 32, 'win': 2, 'fcs': flag[fs][0], 'fcs_sup': flag[fs][1], 'maxr': 1, 'rto': 2.0}
                        pc = {'mode': ppair[0], 'mtu': 672, 'mps': 40, 'win': 3, 'fcs': False, 'fcs_sup': True, 'maxr': 1, 'rto': 2.0}
                        ps = dict(pc, mode=ppair[1])
                        out.append({'kind': 'rushgrid', 'carrier': 'classic' if n % 2 else 'le', 'acl': 27, CLIENT: c, SERVER: s,
                                    'pre': [{CLIENT: pc, SERVER: ps, 'by': by, 'close': CLIENT, 'ops': [], 'rush': True}],
                                    'dc': list(dc), 'ds': list(ds), 'echo': 0, 'early': False,
                                    'ops': [[CLIENT, 90], [SERVER, 70], [CLIENT, 5]]})
    return out


def lazy_cases(quick: bool):
    """Cumulative acknowledgements, enumerated: TxWindow x acknowledgement policy of the peer x writing side; each
    program sends 133 I-frames one way (sequence numbers wrap twice) with some traffic the other way."""
    out = []
    n = 0
    for win in (1, 2, 3, 5, 8, 63):
        for name, pattern in (('every_2nd', [1]), ('when_window_full', [max(win - 1, 1)]), ('on_poll_only', [1000]), ('irregular', [0, 2, 1])):
            for writer in (CLIENT, SERVER):
                n += 1
                if quick and n % 2:
                    continue
                sp = {x: {'mode': E, 'mtu': 4000, 'mps': 23, 'win': win, 'fcs': bool(n % 3 == 0), 'fcs_sup': True, 'maxr': 1, 'rto': 2.0}
                      for x in (CLIENT, SERVER)}
                o = OTHER[writer]
                ops = [[writer, 130 * 23 - 5], [o, 10], ['t', 3000], [writer, 23], [o, 60], [writer, 24]]
                out.append({'kind': 'lazygrid', 'carrier': 'classic' if n % 4 < 2 else 'le', 'acl': 27, CLIENT: sp[CLIENT], SERVER: sp[SERVER],
                            'lazy': {writer: list(pattern)}, 'policy': name, 'dc': [], 'ds': [7] if n % 5 == 0 else [], 'echo': 0,
                            'early': False, 'ops': ops})
    return out


# ---------------------------------------------------------------------------
def selftest() -> None:
    """Exit-2 guards for the harness's own decoders."""
    # FCS examples of Core Vol 3 Part A 3.3.5: I-frame (FCS 0x6138) and RR S-frame (FCS 0x14D4) on CID 0x0040
    for hexframe in ('0E0040000200000102030405060708093861', '040040000101D414'):
        frame = bytes.fromhex(hexframe)
        if crc16(frame[:-2]) != le16(frame, len(frame) - 2):
            raise HarnessError('C08 harness: CRC-16 self-test failed')
        if parse_ertm(0x40, frame[4:], True)['fcs_ok'] is not True:
            raise HarnessError('C08 harness: FCS check self-test failed')
    # I-frame TxSeq=5 F=1 ReqSeq=9 SAR=END(2) -> ctrl = (5<<1)|(1<<7)|(9<<8)|(2<<14)
    ctrl = (5 << 1) | (1 << 7) | (9 << 8) | (2 << 14)
    f = parse_ertm(0x40, bytes([ctrl & 0xFF, ctrl >> 8]) + b'xy', False)
    if (f['kind'], f['tx_seq'], f['final'], f['req_seq'], f['sar'], f['info']) != ('I', 5, 1, 9, 2, b'xy'):
        raise HarnessError('C08 harness: I-frame control field self-test failed')
    # S-frame RNR(2) P=1 ReqSeq=63 -> ctrl = 1 | (2<<2) | (1<<4) | (63<<8)
    ctrl = 1 | (2 << 2) | (1 << 4) | (63 << 8)
    f = parse_ertm(0x40, bytes([ctrl & 0xFF, ctrl >> 8]), False)
    if (f['kind'], f['function'], f['poll'], f['final'], f['req_seq'], f['extra']) != ('S', 2, 1, 0, 63, 0):
        raise HarnessError('C08 harness: S-frame control field self-test failed')


def run(ctx) -> None:
    vloop.selftest()
    selftest()
    grid = grid_cases(thorough=not ctx.quick)
    for i, case in enumerate(grid):
        if i % ctx.nshards != ctx.shard:
            continue
        if ctx.out_of_time():
            ctx.label('budget_hit:grid')
            break
        run_case(ctx, case)
    ctx.extra['setup_grid_pairs'] = len(grid)
    ctx.hyp('xfer', lambda c: run_case(ctx, c), case_strategy(), max_examples=ctx.n(600, 40000))
    # enumerated extension families: small, so every shard runs them (their floors hold per shard)
    for family in (skew_cases(ctx.quick), lazy_cases(ctx.quick), rush_cases(ctx.quick)):
        for case in family:
            if ctx.out_of_time():
                ctx.label('budget_hit:ext_grid')
                break
            run_case(ctx, case)
    ctx.hyp('ext', lambda c: run_case(ctx, c), ext_strategy(), max_examples=ctx.n(280, 16000))
    for label, n in (
        ('mode:EE', 100), ('mode:BB', 30), ('mode_mismatch', 20), ('carrier:classic', 50), ('carrier:le', 50),
        ('fcs_requested', 50), ('fcs_on_wire', 30), ('segmented', 50), ('window_lt_segments', 40),
        ('txseq_wrapped', 20), ('sdu_over_64_segments', 5), ('delayed', 50), ('bidirectional', 30),
        ('echo_from_sink', 10), ('round_trip_exceeds_retransmission_timeout', 5), ('window_filled', 30),
        ('fcs_option_unsupported', 20), ('write_right_after_create', 20), ('setup:open', 300), ('setup:closed', 50),
        # extension families
        ('cid_asymmetric', 60), ('cid_reused', 15), ('lazy_ack', 45), ('cumulative_ack', 40),
        ('cumulative_ack_across_wrap', 15), ('cumulative_ack_of_whole_window', 15), ('bg:open', 35), ('bg_traffic', 35),
        ('bg:opened_with_main', 8), ('two_ertm_channels', 20), ('history:opened_used_closed', 20),
        ('history:setup_closed', 20), ('history:next_setup_right_after_failure', 30),
    ):
        ctx.floor(label, n if ctx.nshards == 1 else max(1, n // 4))


def replay(ctx, case) -> None:
    run_case(ctx, case)
