"""
C08 - Classic L2CAP channels (Basic/ERTM) deliver every SDU once, in order.

Two full devices (vlib.world.World(2)) on a BR/EDR link or on an LE link (as tests/l2cap_test.py
does), a classic-channel server on node 1 and `Connection.create_l2cap_channel` on node 0, each
with a generated `l2cap.ClassicChannelSpec`.  After set-up a program of writes (both directions,
pauses, an optional echo written from inside the server's sink) is run under generated
order-preserving HCI delays.

Oracles
  set-up   : both ends OPEN in the same mode and create_l2cap_channel() returned, or both ends
             CLOSED and it raised; no stall / livelock / horizon overrun.
  delivery : per direction, list of SDUs at the sink == list of SDUs written.
  wire     : L2CAP frames of both directions reassembled from the HCI traffic of each host
             (ACL fragments), signalling and ERTM control fields decoded by THIS file's decoders
             (not Bumble's): TxSeq 0,1,..63,0.. without gaps; unacknowledged I-frames <= the
             TxWindow the peer put in its Configure Request; ReqSeq never acknowledges a frame
             that was not sent; SAR sequences well-formed with START.sdu_length == total;
             information payload <= peer MPS; FCS (own CRC-16, poly x^16+x^15+x^2+1, LSB first,
             init 0) verifies over header+control+payload when FCS was negotiated.
"""

from __future__ import annotations

import asyncio

from hypothesis import strategies as st

from bumble import l2cap
from vlib import vloop, world
from vlib.runner import HarnessError

PROPERTY = 'C08'
LEVEL = 'exploration'
RULE = (
    'carrier {BR/EDR, LE} x ClassicChannelSpec on each side (mode {BASIC, ERTM}, MTU 48..65535, MPS 23..1010 '
    'dense at small values and rarely up to 65525, TxWindow 1..63, FCS on/off, FCS option supported or not by a '
    'side that does not ask for FCS, max_retransmission {0,1,3,255}, retransmission timeout {2 s, 0.4 s, 30 ms}) x '
    'ACL fragment size {27, 251, 1021} x programs of writes in both directions (sizes 0..receiver MTU: '
    'unsegmented, k x MPS +-1, >64 segments in one SDU, >64 SDUs, one SDU near the MTU), pauses, an optional '
    'echo written from inside the server sink, client writes issued the moment create_l2cap_channel() returns x '
    'order-preserving HCI delays per device (0/1/7/50 ms, and a "slow" class whose round trip exceeds the '
    'retransmission timeout: 20-50 ms per HCI packet with a 30 ms timeout, or 0.7-1.2 s with the default 2 s); plus '
    'an exhaustively enumerated set-up grid mode x mode x {no FCS, FCS, no FCS + option unsupported}^2 x carrier x '
    '3 delay profiles (7 in the thorough tier) and mode x carrier with no server on the PSM. '
    'non-trivial = ERTM with an SDU of >=2 segments, or TxWindow smaller than the segments of an SDU, or '
    'TxSeq wrap-around, or FCS on, or mismatching modes; distinct by (carrier, spec pair, delays, program).'
)
ASSUMPTIONS = [
    'no frame loss is injected (the virtual link does not lose frames, Bumble\'s ERTM has no retransmission, the '
    'property quantifies over order-preserving delays only)',
    'SDU sizes are <= the MTU the receiver advertised; in Basic mode additionally <= 65529 so that the PDU fits one '
    'HCI ACL packet of the virtual controller (its missing fragmentation is C05\'s subject)',
    'information payload <= MPS is checked without counting the 2-octet SDU length field of a START frame '
    '(Core Vol 3 Part A 3.3.5 reading; the stricter reading is not imposed)',
    'the window / ReqSeq monitor works on the order in which HCI ACL packets leave and reach each host; a frame '
    'waiting in the host ACL queue is seen later than the moment ERTM decided to send it, which can only make '
    'the monitor more lenient, never raise a false alarm',
    'FCS counts as negotiated when an accepted Configure Request carries the FCS option with value 1 (Bumble only '
    'sends the option when it wants FCS); the Core-spec default (FCS on when the option is absent) is not imposed',
    'a client whose create_l2cap_channel() raised counts as closed (it never got a channel object)',
    '"hang" = virtual loop stalled / horizon exceeded / more than 60 signalling frames from one side during one '
    'channel set-up (livelock in zero virtual time)',
    'MPS values above 65525 are clamped to 65525 (counted as exclusions): the largest I-frame has to fit one HCI '
    'ACL packet of the virtual controller; above 65529 Bumble cannot build the frame at all (no cap on the segment size)',
    'a side that asks for FCS always supports the FCS option; monitor time-outs stay at 12 s (above every '
    'generated round trip) so that max_retransmission can never legitimately close the channel',
]
SHRINK_KEYS = ('ops',)

E, B = 'E', 'B'
MODES = {
    E: l2cap.TransmissionMode.ENHANCED_RETRANSMISSION,
    B: l2cap.TransmissionMode.BASIC,
}
FCS_OPTION = l2cap.L2CAP_Information_Request.ExtendedFeatures.FCS_OPTION
BASIC_MAX_SDU = 65529
MAX_MPS = 65525
SIGNALLING_LIMIT = 60
CLIENT, SERVER = 'c', 's'
OTHER = {CLIENT: SERVER, SERVER: CLIENT}


# ---------------------------------------------------------------------------
# harness-side decoders (independent of bumble.l2cap)
# ---------------------------------------------------------------------------
def crc16(data: bytes) -> int:
    """L2CAP FCS: g(D) = D^16 + D^15 + D^2 + 1, LSB first, initial value 0 (bitwise, table-free)."""
    crc = 0
    for byte in data:
        crc ^= byte
        for _ in range(8):
            crc = (crc >> 1) ^ 0xA001 if crc & 1 else crc >> 1
    return crc


def le16(b, off=0) -> int:
    return b[off] | (b[off + 1] << 8)


class HostView:
    """HCI ACL packets in the order one host sends ('tx', when they leave the host) and
    receives ('rx', when the tap delivers them to the host)."""

    def __init__(self, node):
        self.events: list[tuple[str, bytes]] = []
        inner = node.tap.to_controller
        events = self.events

        class _Tx:
            def on_packet(self, packet):
                packet = bytes(packet)
                if packet[0] == 0x02:
                    events.append(('tx', packet))
                inner.on_packet(packet)

        node.host.set_packet_sink(_Tx())

        def on_delivery(direction, packet):
            if direction == world.C2H and packet[0] == 0x02:
                events.append(('rx', packet))

        node.tap.listeners.append(on_delivery)

    def frames(self):
        """Reassembled L2CAP frames [(pos, 'tx'|'rx', cid, payload)] sorted by position; a sent frame is
        placed at its first fragment, a received frame at its last."""
        out = []
        partial: dict = {'tx': None, 'rx': None}
        for pos, (d, pkt) in enumerate(self.events):
            pb = (le16(pkt, 1) >> 12) & 3
            n = le16(pkt, 3)
            data = pkt[5 : 5 + n]
            if pb != 1 or partial[d] is None:
                partial[d] = [pos, bytearray()]
            partial[d][1] += data
            buf = partial[d][1]
            if len(buf) >= 4 and len(buf) >= 4 + le16(buf, 0):
                need = 4 + le16(buf, 0)
                out.append((partial[d][0] if d == 'tx' else pos, d, le16(buf, 2), bytes(buf[4:need])))
                partial[d] = None
        out.sort(key=lambda f: f[0])
        return out


def parse_commands(payload: bytes):
    """C-frame -> [(code, identifier, data)]."""
    out = []
    off = 0
    while off + 4 <= len(payload):
        code, ident, ln = payload[off], payload[off + 1], le16(payload, off + 2)
        out.append((code, ident, payload[off + 4 : off + 4 + ln]))
        off += 4 + ln
    return out


def parse_options(data: bytes) -> dict:
    out = {}
    off = 0
    while off + 2 <= len(data):
        t, ln = data[off] & 0x7F, data[off + 1]
        v = data[off + 2 : off + 2 + ln]
        off += 2 + ln
        if t == 0x01 and ln == 2:
            out['mtu'] = le16(v)
        elif t == 0x04 and ln == 9:
            out['mode'] = v[0]
            out['win'] = v[1]
            out['maxtx'] = v[2]
            out['mps'] = le16(v, 7)
        elif t == 0x05 and ln == 1:
            out['fcs'] = v[0]
        else:
            out.setdefault('other', []).append(t)
    return out


def negotiated(frames, psm: int):
    """What was agreed on the signalling channel, from node 0's view (tx = client, rx = server).

    Returns dict(cid={c,s}, adv={c: option values of the client's Configure Requests (last value sent per
    option), s: ...}, n_req, last_result={c: result of the response to the client's last request, s: ...})."""
    cid = {CLIENT: None, SERVER: None}
    pending: dict = {}
    adv = {CLIENT: {}, SERVER: {}}
    n_req = {CLIENT: 0, SERVER: 0}
    last_result = {CLIENT: None, SERVER: None}
    for _pos, d, fcid, payload in frames:
        if fcid != 0x0001:
            continue
        sender = CLIENT if d == 'tx' else SERVER
        for code, ident, data in parse_commands(payload):
            if code == 0x02 and len(data) >= 4 and sender == CLIENT and le16(data, 0) == psm:
                cid[CLIENT] = le16(data, 2)
            elif code == 0x03 and len(data) >= 8 and sender == SERVER:
                if le16(data, 2) == cid[CLIENT] and le16(data, 4) == 0:
                    cid[SERVER] = le16(data, 0)
            elif code == 0x04 and len(data) >= 4:
                # a later request overrides the options it repeats (re-negotiation after "unacceptable
                # parameters" repeats only the adjusted option; the others keep their last value)
                n_req[sender] += 1
                pending[(sender, ident)] = True
                adv[sender].update(parse_options(data[4:]))
            elif code == 0x05 and len(data) >= 6:
                if pending.pop((OTHER[sender], ident), None):
                    last_result[OTHER[sender]] = le16(data, 4)
    return {'cid': cid, 'adv': adv, 'n_req': n_req, 'last_result': last_result}


def parse_ertm(cid: int, payload: bytes, fcs_on: bool):
    """Enhanced control field (Core Vol 3 Part A 3.3.2). Returns dict or a string describing the malformation."""
    body = payload
    fcs_ok = None
    if fcs_on:
        if len(payload) < 4:
            return 'frame shorter than control field + FCS'
        body = payload[:-2]
        header = bytes([len(payload) & 0xFF, len(payload) >> 8, cid & 0xFF, cid >> 8])
        fcs_ok = crc16(header + body) == le16(payload, len(payload) - 2)
    if len(body) < 2:
        return 'frame shorter than the control field'
    ctrl = le16(body, 0)
    f = {'fcs_ok': fcs_ok, 'final': (ctrl >> 7) & 1, 'req_seq': (ctrl >> 8) & 0x3F}
    if ctrl & 1:
        f.update(kind='S', function=(ctrl >> 2) & 3, poll=(ctrl >> 4) & 1, extra=len(body) - 2)
    else:
        sar = (ctrl >> 14) & 3
        f.update(kind='I', tx_seq=(ctrl >> 1) & 0x3F, sar=sar)
        if sar == 1:
            if len(body) < 4:
                return 'START frame without SDU length'
            f.update(sdu_length=le16(body, 2), info=body[4:])
        else:
            f.update(info=body[2:])
    return f


# ---------------------------------------------------------------------------
# case execution
# ---------------------------------------------------------------------------
class Collector:
    def __init__(self):
        self.fails: list[tuple[str, str]] = []
        self.labels: set = set()
        self.loop_errors: list = []

    def fail(self, sig: str, what: str) -> None:
        if not any(s == sig for s, _ in self.fails):
            self.fails.append((sig, what))


def _site(exc) -> str:
    tb = exc.__traceback__
    site = '?'
    while tb is not None:
        fn = tb.tb_frame.f_code.co_filename
        if '/bumble/' in fn:
            site = f'{fn.split("/bumble/")[-1]}:{tb.tb_frame.f_code.co_name}'
        tb = tb.tb_next
    return site


_BLOCK = 251


def sdu_bytes(direction: str, index: int, size: int) -> bytes:
    """Reference content of the index-th SDU written in a direction (position dependent, prime period)."""
    salt = (index * 7 + (0 if direction == CLIENT else 101)) % _BLOCK
    block = bytes((salt + 3 * k) % _BLOCK for k in range(_BLOCK))
    head = bytes([0xC0 if direction == CLIENT else 0x50, index & 0xFF, (index >> 8) & 0xFF, size & 0xFF, (size >> 8) & 0xFF])
    data = head + block * (size // _BLOCK + 1)
    return data[:size]


def mkspec(s: dict, psm=None) -> l2cap.ClassicChannelSpec:
    return l2cap.ClassicChannelSpec(
        psm=psm,
        mtu=int(s['mtu']),
        mps=int(s['mps']),
        tx_window_size=int(s['win']),
        max_retransmission=int(s['maxr']),
        retransmission_timeout=float(s['rto']),
        mode=MODES[s['mode']],
        fcs_enabled=bool(s['fcs']),
    )


def max_sdu(receiver: dict, mode: str) -> int:
    return int(receiver['mtu']) if mode == E else min(int(receiver['mtu']), BASIC_MAX_SDU)


def segments(size: int, mps: int) -> int:
    return 1 if size <= mps else -(-size // mps)


def delay_max(case) -> float:
    vals = [int(x) for x in (case.get('dc') or []) + (case.get('ds') or [])]
    return (max(vals) if vals else 0) / 1000.0


def exec_case(case) -> Collector:
    col = Collector()
    spec = {CLIENT: case[CLIENT], SERVER: case[SERVER]}
    ops = [list(o) for o in case.get('ops') or []]
    echo = int(case.get('echo') or 0)
    classic = case['carrier'] == 'classic'
    acl = int(case.get('acl') or 27)
    dmax = delay_max(case)
    loop = vloop.new_loop()
    loop.max_iterations = 6_000_000
    st_: dict = {'server_channels': []}
    rx = {CLIENT: [], SERVER: []}  # SDUs received BY that side
    written = {CLIENT: [], SERVER: []}  # SDUs written BY that side

    async def build():
        geometry = {'acl_data_packet_length': acl, 'le_acl_data_packet_length': acl}
        w = world.World(2, classic=classic, geometry=geometry,
                        delays=[list(case.get('dc') or []), list(case.get('ds') or [])])
        views = [HostView(w[0]), HostView(w[1])]
        for i, side in enumerate((CLIENT, SERVER)):
            if not spec[side].get('fcs_sup', True):
                w[i].device.l2cap_channel_manager.extended_features.discard(FCS_OPTION)
        await w.power_on()
        if classic:
            conn_c, _conn_s = await w.connect_classic(0, 1)
        else:
            conn_c, _conn_s = await w.connect_le(0, 1)
        st_.update(w=w, views=views, conn=conn_c)

    def server_sink(sdu):
        rx[SERVER].append(bytes(sdu))
        if echo:
            ch = st_['server_channels'][0]
            data = sdu_bytes(SERVER, len(written[SERVER]), echo)
            written[SERVER].append(data)
            try:
                ch.write(data)
            except Exception as e:  # noqa: BLE001 - judged against the property
                written[SERVER].pop()
                st_.setdefault('write_exc', (SERVER, len(data), e))

    def on_server_channel(channel):
        st_['server_channels'].append(channel)
        channel.sink = server_sink

    def do_write(side, size) -> bool:
        ch = st_['client'] if side == CLIENT else st_['server_channels'][0]
        data = sdu_bytes(side, len(written[side]), size)
        written[side].append(data)
        try:
            ch.write(data)
        except Exception as e:  # noqa: BLE001 - judged against the property
            written[side].pop()
            st_['write_exc'] = (side, size, e)
            return False
        return True

    async def open_channel():
        w = st_['w']
        if case.get('no_server'):
            st_['psm'] = 0x1001  # nobody listens on this PSM: the request must be refused
        else:
            st_['psm'] = w[1].device.create_l2cap_server(spec=mkspec(spec[SERVER]), handler=on_server_channel).psm
        abort = loop.create_future()

        def watch(direction, packet, which):
            # signalling frames leaving a host during this set-up (cheap test on the ACL payload)
            if direction == world.H2C and packet[0] == 0x02 and len(packet) >= 9 and le16(packet, 7) == 0x0001:
                st_[which] = st_.get(which, 0) + 1
                if st_[which] > SIGNALLING_LIMIT and not abort.done():
                    abort.set_result(which)

        for i, name in ((0, 'sig_c'), (1, 'sig_s')):
            w[i].tap.listeners.append(lambda d, p, name=name: watch(d, p, name))

        async def create():
            return await st_['conn'].create_l2cap_channel(spec=mkspec(spec[CLIENT], psm=st_['psm']))

        task = loop.create_task(create())
        await asyncio.wait({task, abort}, return_when=asyncio.FIRST_COMPLETED)
        if not task.done():
            st_['livelock'] = True
            task.cancel()
            return
        if task.cancelled():
            st_['client_exc'] = asyncio.CancelledError()
        elif task.exception() is not None:
            st_['client_exc'] = task.exception()
        else:
            st_['client'] = task.result()
            st_['client'].sink = lambda sdu: rx[CLIENT].append(bytes(sdu))
            if case.get('early') and st_['client'].state == l2cap.ClassicChannel.State.OPEN:
                # the client writes as soon as create_l2cap_channel() returns (the server end may still be
                # waiting for the last configuration frame, which is ahead of the data on the same link)
                k = 0
                while k < len(ops) and ops[k][0] == CLIENT and do_write(CLIENT, int(ops[k][1])):
                    k += 1
                st_['next_op'] = k

    async def drive():
        for op in ops[st_.get('next_op', 0):]:
            if 'write_exc' in st_:
                return
            if op[0] == 't':
                await asyncio.sleep(int(op[1]) / 1000.0)
            elif not do_write(op[0], int(op[1])):
                return

    try:
        try:
            loop.complete(build(), horizon=100_000.0)
        except (vloop.Stalled, vloop.HorizonExceeded, vloop.BudgetExceeded) as e:
            raise HarnessError(f'C08 harness: devices did not power on / connect ({type(e).__name__})') from e

        # ---- set-up ----------------------------------------------------------------------
        outcome = 'done'
        try:
            loop.complete(open_channel(), horizon=vloop.HORIZON + 2000 * dmax)
        except vloop.Stalled:
            outcome = 'stalled'
        except vloop.HorizonExceeded:
            outcome = 'horizon'
        except vloop.BudgetExceeded:
            outcome = 'budget'
        pair = spec[CLIENT]['mode'] + spec[SERVER]['mode']
        fcsk = ''.join(
            'F' if spec[x]['fcs'] else ('-' if spec[x].get('fcs_sup', True) else 'u') for x in (CLIENT, SERVER)
        )
        if st_.get('livelock'):
            cause = 'fcs_option_unsupported' if ('F' in fcsk and 'u' in fcsk) else f'fcs:{fcsk}'
            col.fail(
                f'setup/livelock/{cause}',
                f'channel set-up never ends: more than {SIGNALLING_LIMIT} signalling frames from one side in zero time '
                f'(modes {pair}, FCS {fcsk}: F=requested, -=not requested, u=not requested and option unsupported)',
            )
            col.labels.add('setup_livelock')
            return col
        if outcome == 'budget':
            col.labels.add('iteration_budget_hit')
            return col
        if outcome != 'done':
            col.fail(f'setup/hang/{outcome}/{pair}', f'create_l2cap_channel() neither returned nor raised ({outcome}); modes {pair}, FCS {fcsk}')
            return col
        loop.run_for(60.0 + 40 * dmax)
        client = st_.get('client')
        servers = st_['server_channels']
        s_state = servers[0].state.name if servers else 'NONE'
        if client is not None and case.get('no_server'):
            col.fail('setup/open_without_server', 'create_l2cap_channel() returned although nobody listens on the PSM')
            return col
        if client is not None:
            c_state = client.state.name
            if c_state != 'OPEN':
                col.fail(f'setup/returned_not_open/{c_state}', f'create_l2cap_channel() returned a channel in state {c_state}')
                return col
            if s_state != 'OPEN':
                col.fail(
                    f'setup/asymmetric/client_OPEN/server_{s_state}/{pair}',
                    f'client end OPEN (create returned) but server end is {s_state} at quiescence; modes {pair}, FCS {fcsk}',
                )
                return col
            if pair[0] != pair[1] or client.mode != servers[0].mode:
                col.fail(f'setup/open_with_different_modes/{pair}', f'both ends OPEN although the specs ask for modes {pair}')
                return col
            col.labels.add('setup:open')
        else:
            exc = st_.get('client_exc')
            if servers and s_state != 'CLOSED':
                col.fail(
                    f'setup/asymmetric/client_raised/server_{s_state}/{pair}',
                    f'create_l2cap_channel() raised {exc!r} but the server end is {s_state} at quiescence; modes {pair}, FCS {fcsk}',
                )
                return col
            for ch in st_['w'][0].device.l2cap_channel_manager.channels.get(st_['conn'].handle, {}).values():
                if isinstance(ch, l2cap.ClassicChannel) and ch.state == ch.State.OPEN:
                    col.fail(f'setup/asymmetric/client_raised_but_open/{pair}', 'create raised but the client keeps an OPEN channel')
                    return col
            col.labels.add('setup:closed')
            if pair[0] == pair[1] and not case.get('no_server'):
                # allowed by the statement ("or both ends closed"); counted so that it cannot go unnoticed
                col.labels.add('setup:closed_although_same_mode')
            return col

        # ---- transfer --------------------------------------------------------------------
        outcome = 'done'
        try:
            loop.complete(drive(), horizon=vloop.HORIZON + sum(int(o[1]) for o in ops if o[0] == 't') / 1000.0)
        except (vloop.Stalled, vloop.HorizonExceeded):
            raise HarnessError('C08 harness: the write program itself cannot block')
        except vloop.BudgetExceeded:
            col.labels.add('iteration_budget_hit')
            return col
        mode = pair[0]
        total_frames = total_frags = 0
        for side in (CLIENT, SERVER):
            for data in written[side]:
                n = segments(len(data), int(spec[OTHER[side]]['mps'])) if mode == E else 1
                total_frames += n
                total_frags += n + (len(data) + 12 * n) // acl
        bound = 600.0 + (total_frames * 12 + total_frags) * (dmax + 0.001) * 4
        loop.run_for(bound)
        if loop.budget_hit:
            col.labels.add('iteration_budget_hit')
            return col
        col.loop_errors = list(loop.errors)

        analysis = analyse_wire(col, st_, spec, mode)
        if 'write_exc' in st_:
            side, size, exc = st_['write_exc']
            col.fail(
                f'write_raises/{mode}/{type(exc).__name__}/{_site(exc)}',
                f'write() of a {size}-byte SDU (receiver MTU {spec[OTHER[side]]["mtu"]}, MPS {spec[OTHER[side]]["mps"]}) raised {exc!r}',
            )
        # delivery, per direction
        for side in (CLIENT, SERVER):
            want, got = written[side], rx[OTHER[side]]
            if got == want:
                continue
            if len(got) < len(want) and got == want[: len(got)]:
                kind = 'lost'
                detail = f'{len(want) - len(got)} of {len(want)} SDUs written were never delivered (first missing: #{len(got)}, {len(want[len(got)])} bytes)'
                if analysis.get('rr_poll', {}).get(side):
                    kind = 'lost/after_retransmission_timer'
                    detail += '; the sender\'s retransmission timer had fired (it sent an RR S-frame on its own)'
            else:
                i = next((k for k in range(min(len(got), len(want))) if got[k] != want[k]), min(len(got), len(want)))
                if i >= len(want):
                    kind = 'extra'
                    detail = f'{len(got)} SDUs delivered, only {len(want)} written'
                elif got[i] in want:
                    kind = 'order_or_duplicate'
                    detail = f'SDU #{want.index(got[i])} delivered at position {i}'
                else:
                    kind = 'corrupt'
                    detail = f'SDU #{i}: {len(want[i])} bytes written, {len(got[i])} bytes delivered with different content'
            errs = '; '.join(sorted({repr(e.get('exception')) for e in col.loop_errors}))[:200]
            col.fail(
                f'delivery/{kind}/{"ertm" if mode == E else "basic"}',
                f'{"client" if side == CLIENT else "server"} -> peer: {detail}' + (f' [loop errors: {errs}]' if errs else ''),
            )
        return col
    finally:
        loop.shutdown()


def analyse_wire(col: Collector, st_, spec, mode) -> dict:
    """Wire monitor. Adds failures to col; returns statistics."""
    views = st_['views']
    frames = [views[0].frames(), views[1].frames()]
    neg = negotiated(frames[0], st_['psm'])
    out: dict = {'rr_poll': {}}
    if neg is None or neg['cid'][CLIENT] is None or neg['cid'][SERVER] is None:
        raise HarnessError('C08 harness: channel OPEN but no Connection Request/Response found on the wire')
    cid, adv = neg['cid'], neg['adv']
    if any(neg['last_result'][x] != 0 for x in (CLIENT, SERVER)):
        col.fail('wire/open_without_accepted_configuration', f'both ends OPEN but the last Configure Requests were answered {neg["last_result"]}')
        return out
    wire_mode = {x: adv[x].get('mode', 0) for x in (CLIENT, SERVER)}
    if wire_mode[CLIENT] != wire_mode[SERVER]:
        col.fail('wire/config_modes_differ', f'accepted Configure Requests carry different modes: {wire_mode}')
        return out
    if (wire_mode[CLIENT] == 3) != (mode == E):
        col.fail('wire/config_mode_not_spec', f'specs ask for mode {mode} but the accepted configuration says {wire_mode}')
        return out
    fcs_on = any(adv[x].get('fcs') == 1 for x in (CLIENT, SERVER))
    if fcs_on:
        col.labels.add('fcs_on_wire')
    if mode != E:
        return out
    for x in (CLIENT, SERVER):
        for k, name in (('win', 'TxWindow'), ('mps', 'MPS')):
            if adv[x].get(k) != int(spec[x][k]):
                col.fail(f'wire/config_{k}', f'{name} in the accepted Configure Request is {adv[x].get(k)}, spec says {spec[x][k]}')
                return out
    for i, x in enumerate((CLIENT, SERVER)):
        y = OTHER[x]
        window, mps = adv[y]['win'], adv[y]['mps']
        who = 'client' if x == CLIENT else 'server'
        n_sent = acked = 0  # I-frames x sent / acknowledged by ReqSeq values x received
        n_rcvd = ack_sent = 0  # I-frames x received / acknowledged by ReqSeq values x sent
        sar_total = None  # (announced, accumulated) while inside a segmented SDU
        polled = False
        max_unacked = 0
        for _pos, d, fcid, payload in frames[i]:
            if d == 'rx':
                if fcid != cid[x]:
                    continue
                f = parse_ertm(fcid, payload, fcs_on)
                if isinstance(f, str):
                    continue  # reported from the sender's view
                adv_ = (f['req_seq'] - acked) % 64
                if adv_ > n_sent - acked:
                    col.fail(
                        'wire/reqseq_acknowledges_unsent',
                        f'{who} received ReqSeq={f["req_seq"]} after sending {n_sent} I-frames of which {acked} were acknowledged',
                    )
                    return out
                acked += adv_
                if f['kind'] == 'I':
                    n_rcvd += 1
                elif f['poll']:
                    polled = True
                continue
            if fcid != cid[y]:
                continue
            f = parse_ertm(fcid, payload, fcs_on)
            if isinstance(f, str):
                col.fail('wire/malformed_frame', f'{who} sent: {f}')
                return out
            if f['fcs_ok'] is False:
                col.fail(f'wire/fcs_bad/{f["kind"]}', f'{who} sent an {f["kind"]}-frame whose FCS does not verify although FCS was negotiated')
                return out
            adv_ = (f['req_seq'] - ack_sent) % 64
            if adv_ > n_rcvd - ack_sent:
                col.fail(
                    'wire/reqseq_acknowledges_unsent',
                    f'{who} sent ReqSeq={f["req_seq"]} in an {f["kind"]}-frame after receiving {n_rcvd} I-frames',
                )
                return out
            ack_sent += adv_
            if f['kind'] == 'S':
                if f['extra']:
                    col.fail('wire/malformed_frame', f'{who} sent an S-frame with {f["extra"]} extra octets' + ('' if fcs_on else ' (FCS not negotiated)'))
                    return out
                if f['poll'] or (f['final'] and not polled):
                    out['rr_poll'][x] = True
                polled = False
                continue
            if f['tx_seq'] != n_sent % 64:
                col.fail('wire/txseq_gap', f'{who} sent I-frame #{n_sent} with TxSeq={f["tx_seq"]}, expected {n_sent % 64}')
                return out
            n_sent += 1
            max_unacked = max(max_unacked, n_sent - acked)
            if n_sent - acked > window:
                col.fail(
                    'wire/window_exceeded',
                    f'{who} has {n_sent - acked} unacknowledged I-frames, the peer advertised TxWindow={window}',
                )
                return out
            if len(f['info']) > mps:
                col.fail('wire/mps_exceeded', f'{who} sent an I-frame with {len(f["info"])} payload octets, peer MPS={mps}')
                return out
            sar = f['sar']
            if sar in (0, 1):
                if sar_total is not None:
                    col.fail('wire/sar', f'{who} sent SAR={sar} inside a segmented SDU ({sar_total[1]}/{sar_total[0]} octets so far)')
                    return out
                if sar == 1:
                    sar_total = (f['sdu_length'], len(f['info']))
            else:
                if sar_total is None:
                    col.fail('wire/sar', f'{who} sent SAR={sar} (continuation/end) without a START')
                    return out
                sar_total = (sar_total[0], sar_total[1] + len(f['info']))
                if sar == 2:
                    if sar_total[0] != sar_total[1]:
                        col.fail('wire/sar', f'{who}: START announced {sar_total[0]} octets, segments carry {sar_total[1]}')
                        return out
                    sar_total = None
        if n_sent > 64:
            col.labels.add('txseq_wrapped')
        if max_unacked >= window and n_sent:
            col.labels.add('window_filled')
        if out['rr_poll'].get(x):
            col.labels.add('retransmission_timer_fired')
    return out


# ---------------------------------------------------------------------------
# recording / classification
# ---------------------------------------------------------------------------
def classify(case):
    spec = {CLIENT: case[CLIENT], SERVER: case[SERVER]}
    pair = spec[CLIENT]['mode'] + spec[SERVER]['mode']
    labels = {f'mode:{pair}', f'carrier:{case["carrier"]}'}
    nontrivial = False
    if pair[0] != pair[1]:
        labels.add('mode_mismatch')
        nontrivial = True
    if case.get('no_server'):
        labels.add('no_server_on_psm')
    if any(case.get('dc') or []) or any(case.get('ds') or []):
        labels.add('delayed')
    fcs = any(spec[x]['fcs'] for x in spec)
    if fcs:
        labels.add('fcs_requested')
        nontrivial = True
    if any(not spec[x].get('fcs_sup', True) for x in spec):
        labels.add('fcs_option_unsupported')
    writers = set()
    for op in case.get('ops') or []:
        if op[0] == 't':
            labels.add('pause')
            continue
        writers.add(op[0])
        if pair == 'EE':
            r = spec[OTHER[op[0]]]
            n = segments(int(op[1]), int(r['mps']))
            if n >= 2:
                labels.add('segmented')
                nontrivial = True
            if n > int(r['win']):
                labels.add('window_lt_segments')
                nontrivial = True
            if n > 64:
                labels.add('sdu_over_64_segments')
    if len(writers) == 2 or (writers and case.get('echo')):
        labels.add('bidirectional')
    if case.get('echo'):
        labels.add('echo_from_sink')
    if case.get('early') and (case.get('ops') or [['t']])[0][0] == CLIENT:
        labels.add('write_right_after_create')
    if pair == 'EE' and (case.get('dc') and case.get('ds')):
        rtt = 2 * (min(int(x) for x in case['dc']) + min(int(x) for x in case['ds'])) / 1000.0
        if any(rtt > float(spec[x]['rto']) for x in spec) and 'window_lt_segments' in labels:
            labels.add('round_trip_exceeds_retransmission_timeout')
    return labels, nontrivial


def run_case(ctx, case, record=True) -> None:
    for side in (CLIENT, SERVER):
        if int(case[side]['mps']) > MAX_MPS:
            # the largest I-frame (START: control + SDU length + MPS octets + FCS) must fit one HCI ACL packet
            # of the virtual controller, which does not fragment towards the host (C05); above 65529 Bumble
            # itself cannot build the frame (struct.error in L2CAP_PDU.to_bytes, no cap on the segment size)
            ctx.exclude('mps_above_65525_clamped')
            case = dict(case, **{side: dict(case[side], mps=MAX_MPS)})
    col = exec_case(case)
    if col.fails:
        other = dict(case, carrier='le' if case['carrier'] == 'classic' else 'classic')
        osigs = {s for s, _ in exec_case(other).fails}
        for sig, what in col.fails:
            if sig not in osigs:
                sig = f'{sig}@{case["carrier"]}-only'
            ctx.fail(sig, what, case)
    if not record:
        return
    labels, nontrivial = classify(case)
    labels |= col.labels
    if 'txseq_wrapped' in labels:
        nontrivial = True
    ctx.case(('c08', case), nontrivial, labels,
             sample={k: case.get(k) for k in ('carrier', 'acl', CLIENT, SERVER, 'dc', 'ds', 'echo', 'early')} | {'ops': (case.get('ops') or [])[:8]})


# ---------------------------------------------------------------------------
# generators
# ---------------------------------------------------------------------------
def spec_strategy(mode=None):
    mtu = st.one_of(st.sampled_from([48, 49, 64, 672, 1024, 2048, 65535]), st.integers(48, 4096), st.integers(48, 65535))
    mps = st.one_of(
        st.sampled_from([23, 24, 25, 31, 48, 64, 255, 256, 1009, 1010]),
        st.integers(23, 80), st.integers(23, 1010), st.integers(23, 1010),
    )
    huge_mps = st.sampled_from([1011, 2048, 4096, 65525, 65525, 65526, 65530, 65535])
    win = st.one_of(st.sampled_from([1, 2, 3, 8, 32, 62, 63]), st.integers(1, 63))

    def build(d):
        m, mtu_, mps_, huge, pick_huge, win_, fcs, sup, maxr, rto = d
        return {'mode': m, 'mtu': mtu_, 'mps': huge if pick_huge == 0 else mps_, 'win': win_, 'fcs': fcs,
                'fcs_sup': True if fcs else sup, 'maxr': maxr, 'rto': rto}

    return st.tuples(
        st.just(mode) if mode else st.sampled_from([E, E, E, B]), mtu, mps, huge_mps, st.integers(0, 19), win,
        st.booleans(), st.sampled_from([True, True, True, False]), st.sampled_from([0, 1, 1, 3, 255]),
        st.sampled_from([2.0] * 6 + [0.4, 0.03]),
    ).map(build)


@st.composite
def case_strategy(draw):
    pair = draw(st.sampled_from(['EE'] * 9 + ['BB'] * 3 + ['EB', 'BE']))
    spec = {CLIENT: draw(spec_strategy(pair[0])), SERVER: draw(spec_strategy(pair[1]))}
    acl = draw(st.sampled_from([27, 27, 251, 1021]))
    mode = pair[0]
    shapes = ['small', 'segmented', 'segmented', 'segmented', 'wrap', 'wrap', 'many', 'mtu']
    if pair == 'EE':
        shapes += ['slow', 'slow']
    shape = draw(st.sampled_from(shapes))
    writer = draw(st.sampled_from([CLIENT, SERVER]))  # the side that writes the characteristic SDUs
    r = spec[OTHER[writer]]
    dc = draw(st.lists(st.sampled_from([0, 0, 0, 1, 7, 50]), max_size=5))
    ds = draw(st.lists(st.sampled_from([0, 0, 0, 1, 7, 50]), max_size=5))
    if shape == 'wrap' and mode == E and draw(st.integers(0, 3)):
        # one SDU of more than 64 segments needs a small MPS and an MTU that admits it
        r['mps'] = draw(st.integers(23, 60))
        r['mtu'] = max(r['mtu'], 141 * r['mps'] + 8)
    if shape == 'slow':
        # acknowledgements take longer than the sender's retransmission timeout while frames are waiting
        # behind a full window: the timer fires, the sender polls, the peer answers, the transfer goes on
        big = draw(st.booleans())
        pool = [1200, 700] if big else [50, 20]
        dc = draw(st.lists(st.sampled_from(pool), min_size=1, max_size=3))
        ds = draw(st.lists(st.sampled_from(pool), min_size=1, max_size=3))
        spec[writer]['rto'] = 2.0 if big else 0.03
        r['win'] = draw(st.integers(1, 4))
        r['mps'] = draw(st.sampled_from([23, 30, 48, 100]))
        r['mtu'] = max(r['mtu'], 16 * r['mps'])
    case = {'kind': 'xfer', 'carrier': draw(st.sampled_from(['classic', 'le'])), 'acl': acl,
            CLIENT: spec[CLIENT], SERVER: spec[SERVER], 'dc': dc, 'ds': ds, 'echo': 0, 'early': False, 'ops': []}
    if pair[0] != pair[1]:
        return case
    cap = 65535 if acl == 1021 else 8000
    ops: list = []

    def size_for(w, kind):
        rr = spec[OTHER[w]]
        limit = min(max_sdu(rr, mode), cap)
        mps = int(rr['mps']) if mode == E else draw(st.sampled_from([23, 48, 100]))
        if kind == 'small':
            n = draw(st.one_of(st.integers(0, min(mps, 40)), st.sampled_from([mps - 1, mps])))
        elif kind == 'segmented':
            k = draw(st.sampled_from([1, 2, 2, 3, 4, 5, 8, 13, 31, 63]))
            n = k * mps + draw(st.sampled_from([-1, 0, 0, 1, draw(st.integers(2, 22))]))
        elif kind == 'wrap':
            k = draw(st.sampled_from([64, 65, 66, 70, 127, 128, 129, 140]))
            n = k * mps + draw(st.sampled_from([-1, 0, 1, 7]))
        elif kind == 'over_window':
            k = int(rr['win']) + draw(st.integers(1, 9))
            n = k * mps + draw(st.sampled_from([-1, 0, 1]))
        else:  # near the receiver's MTU
            n = limit - draw(st.sampled_from([0, 0, 1, 2, 3, draw(st.integers(0, 40))]))
        return max(0, min(n, limit))

    if shape == 'many':
        # more than 64 I-frames made of many small SDUs
        for _ in range(draw(st.integers(65, 140))):
            ops.append([writer, size_for(writer, 'small')])
            if draw(st.integers(0, 15)) == 0:
                ops.append([OTHER[writer], size_for(OTHER[writer], 'small')])
    elif shape == 'wrap':
        mps = int(r['mps']) if mode == E else 48
        if 66 * mps <= min(max_sdu(r, mode), cap):
            ops.append([writer, size_for(writer, 'wrap')])
        else:
            # the receiver's MTU (or the cost cap) does not allow one SDU of >64 segments: several SDUs
            per = max(1, min(max_sdu(r, mode), cap, 3 * mps))
            for _ in range(-(-70 * mps // per) if per >= mps else 70):
                ops.append([writer, per - draw(st.integers(0, 1))])
        for _ in range(draw(st.integers(0, 2))):
            ops.insert(draw(st.integers(0, len(ops))),
                       [OTHER[writer], size_for(OTHER[writer], draw(st.sampled_from(['small', 'segmented'])))])
    elif shape == 'slow':
        for _ in range(draw(st.integers(1, 3))):
            ops.append([writer, size_for(writer, 'over_window')])
            if draw(st.integers(0, 3)) == 0:
                ops.append([OTHER[writer], size_for(OTHER[writer], 'small')])
    else:
        for _ in range(draw(st.integers(1, 7))):
            kind = draw(st.sampled_from([CLIENT, CLIENT, SERVER, SERVER, 't']))
            if kind == 't':
                ops.append(['t', draw(st.sampled_from([0, 1, 10, 100, 3000]))])
            else:
                first = not any(o[0] != 't' for o in ops)
                ops.append([kind, size_for(kind, 'mtu' if (shape == 'mtu' and first) else ('segmented' if shape == 'mtu' else shape))])
    if draw(st.integers(0, 5)) == 0 and any(o[0] == CLIENT for o in ops):
        case['echo'] = max(1, min(size_for(SERVER, draw(st.sampled_from(['small', 'segmented']))), 3000))
    case['ops'] = ops
    case['early'] = bool(ops) and ops[0][0] == CLIENT and draw(st.integers(0, 2)) == 0
    return case


def grid_cases(thorough=False):
    """Set-up grid, enumerated: mode x mode x {no FCS, FCS, no FCS + option unsupported}^2 x carrier x delays
    (+ mode x carrier with no server on the PSM)."""
    fcs_states = (('-', False, True), ('F', True, True), ('u', False, False))
    profiles = [[[], []], [[0, 7], []], [[], [3, 0, 50]]]
    if thorough:
        profiles += [[[50], [0, 1]], [[1, 0], [7]], [[0, 0, 50], [50, 0]], [[7], [7]]]
    out = []
    for carrier in ('classic', 'le'):
        for mc in (E, B):
            for ms in (E, B):
                for _nc, fc, sc in fcs_states:
                    for _ns, fs, ss in fcs_states:
                        for dc, ds in profiles:
                            c = {'mode': mc, 'mtu': 672, 'mps': 40, 'win': 3, 'fcs': fc, 'fcs_sup': sc, 'maxr': 1, 'rto': 2.0}
                            s = {'mode': ms, 'mtu': 512, 'mps': 32, 'win': 2, 'fcs': fs, 'fcs_sup': ss, 'maxr': 1, 'rto': 2.0}
                            ops = [[CLIENT, 150], [SERVER, 130], [CLIENT, 7]] if mc == ms else []
                            out.append({'kind': 'grid', 'carrier': carrier, 'acl': 27, CLIENT: c, SERVER: s,
                                        'dc': list(dc), 'ds': list(ds), 'echo': 0, 'ops': ops})
            c = {'mode': mc, 'mtu': 672, 'mps': 40, 'win': 3, 'fcs': False, 'fcs_sup': True, 'maxr': 1, 'rto': 2.0}
            out.append({'kind': 'grid', 'carrier': carrier, 'acl': 27, CLIENT: c, SERVER: dict(c), 'no_server': True,
                        'dc': [], 'ds': [1], 'echo': 0, 'ops': []})
    return out


# ---------------------------------------------------------------------------
def selftest() -> None:
    """Exit-2 guards for the harness's own decoders."""
    # FCS examples of Core Vol 3 Part A 3.3.5: I-frame (FCS 0x6138) and RR S-frame (FCS 0x14D4) on CID 0x0040
    for hexframe in ('0E0040000200000102030405060708093861', '040040000101D414'):
        frame = bytes.fromhex(hexframe)
        if crc16(frame[:-2]) != le16(frame, len(frame) - 2):
            raise HarnessError('C08 harness: CRC-16 self-test failed')
        if parse_ertm(0x40, frame[4:], True)['fcs_ok'] is not True:
            raise HarnessError('C08 harness: FCS check self-test failed')
    # I-frame TxSeq=5 F=1 ReqSeq=9 SAR=END(2) -> ctrl = (5<<1)|(1<<7)|(9<<8)|(2<<14)
    ctrl = (5 << 1) | (1 << 7) | (9 << 8) | (2 << 14)
    f = parse_ertm(0x40, bytes([ctrl & 0xFF, ctrl >> 8]) + b'xy', False)
    if (f['kind'], f['tx_seq'], f['final'], f['req_seq'], f['sar'], f['info']) != ('I', 5, 1, 9, 2, b'xy'):
        raise HarnessError('C08 harness: I-frame control field self-test failed')
    # S-frame RNR(2) P=1 ReqSeq=63 -> ctrl = 1 | (2<<2) | (1<<4) | (63<<8)
    ctrl = 1 | (2 << 2) | (1 << 4) | (63 << 8)
    f = parse_ertm(0x40, bytes([ctrl & 0xFF, ctrl >> 8]), False)
    if (f['kind'], f['function'], f['poll'], f['final'], f['req_seq'], f['extra']) != ('S', 2, 1, 0, 63, 0):
        raise HarnessError('C08 harness: S-frame control field self-test failed')


def run(ctx) -> None:
    vloop.selftest()
    selftest()
    grid = grid_cases(thorough=not ctx.quick)
    for i, case in enumerate(grid):
        if i % ctx.nshards != ctx.shard:
            continue
        if ctx.out_of_time():
            ctx.label('budget_hit:grid')
            break
        run_case(ctx, case)
    ctx.extra['setup_grid_pairs'] = len(grid)
    ctx.hyp('xfer', lambda c: run_case(ctx, c), case_strategy(), max_examples=ctx.n(600, 40000))
    for label, n in (
        ('mode:EE', 100), ('mode:BB', 30), ('mode_mismatch', 20), ('carrier:classic', 50), ('carrier:le', 50),
        ('fcs_requested', 50), ('fcs_on_wire', 30), ('segmented', 50), ('window_lt_segments', 40),
        ('txseq_wrapped', 20), ('sdu_over_64_segments', 5), ('delayed', 50), ('bidirectional', 30),
        ('echo_from_sink', 10), ('round_trip_exceeds_retransmission_timeout', 5), ('window_filled', 30),
        ('fcs_option_unsupported', 20), ('write_right_after_create', 20), ('setup:open', 300), ('setup:closed', 50),
    ):
        ctx.floor(label, n if ctx.nshards == 1 else max(1, n // 4))


def replay(ctx, case) -> None:
    run_case(ctx, case)
