"""
C07 - LE credit-based channels: exact byte stream, credit discipline, progress.

Two harnesses on the virtual-time loop:

* A : two full Bumble devices (vlib.world.World(2)) over LE. Server and client get independently
      generated LeCreditBasedChannelSpec values; LE CoC (`create_l2cap_channel`, 1..3 channels
      opened one after the other) or enhanced credit based (`create_enhanced_credit_based_channels`,
      1..5 channels at once). Both sides write generated chunk sequences, every sink consumes.
* B : one Bumble device against a vlib.world.RawPeer that does the credit based signalling by hand
      (frames built with the classes in bumble.l2cap, parsed with the harness's own struct code)
      with ITS OWN channel identifiers, MTU/MPS/initial credits and credit-return policy, as the
      connection initiator (Bumble runs the server) and as the acceptor (Bumble's
      create_l2cap_channel / create_enhanced_credit_based_channels towards a PSM the peer answers).

  B with a history (generator `h_case`, script operations 'c' and 'L'): a channel is brought to rest, closed by
      Bumble or by the peer and opened again by Bumble or by the peer (LE or enhanced request; the peer re-uses its
      CID, takes a fresh one, or one Bumble uses for its own end) while the other channels keep their queued output;
      or the link is dropped and peer and channels come back. Directed family `wrap_cases`: more than 256 credit
      packets from Bumble on one link (signalling identifier wrap; the peer discards identifier 0), one credit
      return of more than 255 credits.

Observation points: every sink delivery; an exact per-host record of L2CAP PDUs (`Monitor`:
PDUs received = reassembled from the controller->host side of the HCI tap *before* the host
processes them, PDUs sent = recorded when the stack hands them to Host.send_acl_sdu), from which
the harness-side signalling parser rebuilds the channel table and the credit ledger; in B also
what arrives at the raw peer.
"""

from __future__ import annotations

import asyncio
import hashlib
import struct

from hypothesis import strategies as st

from bumble import hci, l2cap
from vlib import vloop, world
from vlib.runner import HarnessError

PROPERTY = 'C07'
LEVEL = 'exploration'
RULE = (
    'A: Bumble<->Bumble over LE; server and client LeCreditBasedChannelSpec drawn independently (MTU 23..65535, '
    'MPS 23..65533, max_credits 1..65535; boundary- and small-biased), LE CoC (1..3 channels opened in turn) or '
    'enhanced credit based (1..5 channels in one request), client on the central or the peripheral, per-node HCI '
    'delays and ACL buffer geometry, per direction a generated sequence of write(size)/drain/sleep with sizes '
    'biased to 1..5, k*MPS-2+{-1,0,1}, MTU+{-1,0,1}, 2..3*MTU of the RECEIVER, capped by a drawn byte budget. '
    'B: Bumble<->RawPeer; variant (LE CoC / enhanced) x role (peer initiates / Bumble initiates) x 1..5 channels x '
    'peer CID plan (same as Bumble would pick, reversed, shifted by one (crossing), 0x71.., scattered in '
    '0x40..0x7F, 0xFFFF..) x peer MTU/MPS/initial credits x credit return policy (low-water mark, refill amount, '
    'laziness) x credits granted immediately after the connection response x script of Bumble writes, peer SDUs '
    '(own segment size), extra credit grants, sleeps, drains. '
    'H (harness B with a history, in-range CID plans, specs biased to 1..5 credits): 1..3 history steps between '
    'stretches of such a script; a step is either "channel k is brought to rest, closed by Bumble '
    '(LeCreditBasedChannel.disconnect) or by the peer (L2CAP_Disconnection_Request) and opened again by Bumble or '
    'by the peer - whichever, so both ends end up as initiators on one link - with an LE or an enhanced request, the '
    'peer re-using its CID, taking a fresh one, or one that Bumble uses for its own end of a channel" while the '
    'other channels keep what they have queued (credit starvation included), or "all channels are brought to rest, '
    'the link is dropped by Bumble or by the peer, the peer connects again and all channels are opened again with '
    'the same, rotated or fresh peer CIDs"; after every step the channel(s) opened again are written to (and mostly '
    'receive) beyond their initial credits; the streams of slot k continue across the step. '
    'W (directed, every shard): Bumble receives with 1 or 2 credits 305+ frames, i.e. returns more than 256 credit '
    'packets on one link so that its signalling identifier wraps, then closes/reopens a channel and goes on; and '
    'with 520 credits 305 frames, i.e. one credit return of 260 (> 255) credits. '
    'non-trivial = some SDU needed >=2 K-frames, or a '
    'sender ran out of credits, or the CIDs of the two ends differ; distinct by the whole case (specs, sizes, script).'
)
ASSUMPTIONS = [
    'LE CoC is judged as a byte stream: concatenation of sink deliveries == concatenation of writes per channel '
    'and direction (SDU boundaries are free). write(b"") and frames arriving while no sink is installed are '
    'outside the domain: sinks are installed before any data is written, nothing is written from the '
    'connection handler',
    '"eventually" = no stall of the virtual loop and completion within a virtual-time horizon of 3600 s',
    'B, at quiescence after a completed run: LeCreditBasedChannel.credits of every Bumble endpoint equals the peer\'s record '
    '(initial credits + credits granted in credit packets - K-frames received)',
    'quiescence for the ledger clauses = all streams delivered, 2 virtual seconds later, and every credit packet one host '
    'produced has been seen by the other host (or nothing moved for 10 virtual seconds)',
    'credit ledger per sending host: credits = initial (from the signalling PDUs seen at that host) + credits of '
    'received L2CAP_LE_Flow_Control_Credit frames - K-frames handed to Host.send_acl_sdu, in the exact order the '
    'host saw/produced them; must be > 0 when a K-frame is produced',
    'the raw peer is a conforming peer: it segments to Bumble\'s announced MPS/MTU, never sends without a credit, '
    'keeps Bumble\'s credit total <= 65535 and always returns credits when its low-water mark is reached '
    '(so drain() blocking until credits arrive is not judged)',
    'peer CIDs outside the LE dynamic range (0xFFFF..): a refusal by Bumble is accepted, otherwise routing must work',
    'A and B, at quiescence after a completed run, receiver side: the credits the receiving Bumble endpoint accounts to its '
    'peer (LeCreditBasedChannel.peer_credits) must not exceed what that peer holds by the wire (initial credits + '
    'credits of the credit packets it received - K-frames it sent): such a credit was never handed over and the peer '
    'starves before the receiver\'s low-water mark. Accounting FEWER than the peer holds (granting too much) is left '
    'open by the statement: label only. In A the sender\'s credits are also compared with the wire ledger of its host',
    'histories: a channel is closed only at rest (everything written on it in either direction has been delivered; '
    'what happens to data in flight at a close is not stated), the other channels are not; a connection request of '
    'the conforming peer after a close / on a new link must be accepted whatever legal CID the peer takes (re-used, '
    'fresh, equal to one of Bumble\'s own) and Bumble\'s own disconnect()/create calls must complete; a data frame '
    'sent on a channel after its Disconnection Response / after the link went away holds no credit '
    '(kframe_on_unestablished_cid)',
    'the conforming peer discards signalling packets with the illegal identifier 0x00 (Vol 3 Part A 4; BlueZ does); '
    'the consequences (credits that never arrive, a request never answered) are judged by the progress and ledger clauses',
    'K-frames whose L2CAP PDU exceeds 65535 bytes are only generated when the virtual controller can carry '
    'them (probed at start-up, C05 finding); otherwise the MPS of such cases is clamped to 65531 and counted as excluded',
]
SHRINK_KEYS = ('c2s', 's2c', 'script')

HORIZON = 3600.0
SIG_CID = 5
PEER_PSM = 0x00A7

Spec = l2cap.LeCreditBasedChannelSpec


# ---------------------------------------------------------------------------
# deterministic payload pattern
# ---------------------------------------------------------------------------
def _make_base(n: int = 1 << 18) -> bytes:
    out = bytearray()
    i = 0
    while len(out) < n:
        out += hashlib.blake2b(i.to_bytes(4, 'little'), digest_size=64).digest()
        i += 1
    return bytes(out[:n])


_BASE = _make_base()
_BASE2 = _BASE + _BASE


def pattern(salt: int, start: int, n: int) -> bytes:
    """n bytes of the reference stream `salt`, from stream offset `start`."""
    out = bytearray()
    while n > 0:
        off = (salt * 7919 + start) % len(_BASE)
        take = min(n, len(_BASE))
        out += _BASE2[off : off + take]
        start += take
        n -= take
    return bytes(out)


# ---------------------------------------------------------------------------
# exact per-host PDU record
# ---------------------------------------------------------------------------
class Monitor:
    """Records ('rx'|'tx', cid, payload) for one host in the order the host saw / produced them."""

    def __init__(self, node):
        self.events: list[tuple[str, int, bytes]] = []
        self.credit_tx = self.credit_rx = 0  # L2CAP_LE_Flow_Control_Credit packets produced / seen by this host
        self._asm: dict[int, bytearray | None] = {}
        node.tap.listeners.append(self._on_tap)
        host = node.host
        if not hasattr(host, 'send_acl_sdu'):
            raise HarnessError('Host.send_acl_sdu not found: the Monitor cannot observe outgoing PDUs')
        orig = host.send_acl_sdu

        def send_acl_sdu(connection_handle, sdu, _orig=orig):
            raw = bytes(sdu)
            if len(raw) >= 4:
                _ln, cid = struct.unpack_from('<HH', raw)
                self.events.append(('tx', cid, raw[4:]))
                if cid == SIG_CID and len(raw) > 4 and raw[4] == 0x16:
                    self.credit_tx += 1
            return _orig(connection_handle, sdu)

        host.send_acl_sdu = send_acl_sdu

    def _on_tap(self, direction, packet):
        if direction == world.C2H and len(packet) >= 7 and packet[0] == 0x04 and packet[1] == 0x05 and packet[3] == 0:
            # HCI Disconnection Complete: every channel of the link is gone, identifiers start over
            self.events.append(('reset', 0, b''))
            self._asm.clear()
            return
        if direction != world.C2H or not packet or packet[0] != 0x02 or len(packet) < 5:
            return
        hf, ln = struct.unpack_from('<HH', packet, 1)
        handle, pb = hf & 0x0FFF, (hf >> 12) & 3
        data = packet[5 : 5 + ln]
        if pb in (0, 2):
            self._asm[handle] = bytearray(data)
        elif self._asm.get(handle) is not None:
            self._asm[handle] += data
        buf = self._asm.get(handle)
        if buf is not None and len(buf) >= 4:
            need = struct.unpack_from('<H', buf)[0] + 4
            if len(buf) >= need:
                cid = struct.unpack_from('<H', buf, 2)[0]
                self.events.append(('rx', cid, bytes(buf[4:need])))
                if cid == SIG_CID and need > 4 and buf[4] == 0x16:
                    self.credit_rx += 1
                self._asm[handle] = None


class Out:
    """Outbound half of one channel as seen at the sending host."""

    def __init__(self, remote_cid, mtu, mps, credits):
        self.remote_cid = remote_cid
        self.mtu, self.mps = mtu, mps
        self.initial = credits
        self.credits = credits
        self.frames = 0
        self.credit_frames = 0
        self.need = None
        self.cur = 0
        self.sdu_frames = 0
        self.stream = bytearray()
        self.exhausted = False
        self.multi = False
        self.sdus = 0


def parse_signal(p: bytes):
    """Harness-side decoder of the five credit based signalling PDUs and of the disconnection request /
    response. -> (code, ident, fields) | None"""
    if len(p) < 4:
        return None
    code, ident, ln = struct.unpack_from('<BBH', p)
    body = p[4 : 4 + ln]
    if code in (0x06, 0x07) and len(body) >= 4:
        dcid, scid = struct.unpack_from('<2H', body)
        return code, ident, {'dcid': dcid, 'scid': scid}
    if code == 0x14 and len(body) >= 10:
        psm, scid, mtu, mps, cr = struct.unpack_from('<5H', body)
        return code, ident, {'psm': psm, 'scids': [scid], 'mtu': mtu, 'mps': mps, 'credits': cr}
    if code == 0x15 and len(body) >= 10:
        dcid, mtu, mps, cr, res = struct.unpack_from('<5H', body)
        return code, ident, {'dcids': [dcid], 'mtu': mtu, 'mps': mps, 'credits': cr, 'result': res}
    if code == 0x16 and len(body) >= 4:
        cid, cr = struct.unpack_from('<2H', body)
        return code, ident, {'cid': cid, 'credits': cr}
    if code == 0x17 and len(body) >= 8:
        psm, mtu, mps, cr = struct.unpack_from('<4H', body)
        n = (len(body) - 8) // 2
        return code, ident, {'psm': psm, 'mtu': mtu, 'mps': mps, 'credits': cr,
                             'scids': list(struct.unpack_from(f'<{n}H', body, 8))}
    if code == 0x18 and len(body) >= 8:
        mtu, mps, cr, res = struct.unpack_from('<4H', body)
        n = (len(body) - 8) // 2
        return code, ident, {'mtu': mtu, 'mps': mps, 'credits': cr, 'result': res,
                             'dcids': list(struct.unpack_from(f'<{n}H', body, 8))}
    return code, ident, None


def analyse_host(events):
    """Rebuilds the channel table and the outbound credit ledger of one host from its PDU record.

    Returns (out: {remote_cid: Out}, local: {local_cid: remote_cid}, violations: [(sig, what)]).
    """
    out: dict[int, Out] = {}
    local: dict[int, int] = {}
    rx_req: dict = {}
    tx_req: dict = {}
    viol: list[tuple[str, str]] = []

    def retire(remote):
        # a closed channel keeps its record (labels) under a key no CID can take
        info = out.pop(remote, None)
        if info is not None:
            out[('closed', sum(1 for r in out if not isinstance(r, int)))] = info

    for d, cid, p in events:
        if d == 'reset':
            for remote in [r for r in out if isinstance(r, int)]:
                retire(remote)
            local.clear()
            rx_req.clear()
            tx_req.clear()
            continue
        if cid == SIG_CID:
            parsed = parse_signal(p)
            if parsed is None or parsed[2] is None:
                continue
            code, ident, f = parsed
            if code in (0x14, 0x17):
                (rx_req if d == 'rx' else tx_req)[(code + 1, ident)] = f
            elif code in (0x15, 0x18):
                req = (rx_req if d == 'tx' else tx_req).pop((code, ident), None)
                if req is None or f['result'] != 0:
                    continue
                for scid, dcid in zip(req['scids'], f['dcids']):
                    if dcid == 0:
                        continue
                    if d == 'tx':  # this host accepted: the remote end is the requester
                        retire(scid)
                        out[scid] = Out(scid, req['mtu'], req['mps'], req['credits'])
                        local[dcid] = scid
                    else:  # this host asked: the remote end is described by the response
                        retire(dcid)
                        out[dcid] = Out(dcid, f['mtu'], f['mps'], f['credits'])
                        local[scid] = dcid
            elif code == 0x07:
                # Disconnection Response. tx: this host accepted the peer's request (dcid = own end, scid = remote end);
                # rx: the peer accepted this host's request (dcid = remote end, scid = own end). From here on the
                # channel holds no credit: a later data frame on it is 'kframe_on_unestablished_cid'.
                own, remote = (f['dcid'], f['scid']) if d == 'tx' else (f['scid'], f['dcid'])
                if local.get(own) == remote:
                    del local[own]
                    retire(remote)
            elif code == 0x16:
                if d == 'rx':
                    info = out.get(f['cid'])
                    if info is not None:
                        info.credits += f['credits']
                        info.credit_frames += 1
                elif f['cid'] not in local:
                    viol.append(('wire/credit_frame_names_foreign_cid',
                                 f'L2CAP_LE_Flow_Control_Credit sent with cid=0x{f["cid"]:04X}, which is not a source '
                                 f'CID of this device (own CIDs: {sorted(local)})'))
            continue
        if d != 'tx' or cid < 0x40:
            continue
        info = out.get(cid)
        if info is None:
            viol.append(('wire/kframe_on_unestablished_cid', f'data frame sent on CID 0x{cid:04X} which no accepted '
                         'credit based connection gave to the peer'))
            continue
        if info.credits <= 0:
            viol.append(('wire/kframe_without_credit',
                         f'K-frame #{info.frames + 1} on CID 0x{cid:04X} produced while holding {info.credits} credits '
                         f'(initial {info.initial}, {info.credit_frames} credit frames received so far)'))
        info.credits -= 1
        info.frames += 1
        if info.credits <= 0:
            info.exhausted = True
        if len(p) > info.mps:
            viol.append(('wire/kframe_exceeds_peer_mps', f'K-frame payload of {len(p)} bytes, receiver MPS {info.mps}'))
        if info.need is None:
            if len(p) < 2:
                viol.append(('wire/first_kframe_without_sdu_length', f'first K-frame of an SDU has {len(p)} byte(s)'))
                continue
            n = struct.unpack_from('<H', p)[0]
            if n > info.mtu:
                viol.append(('wire/sdu_exceeds_peer_mtu', f'SDU length header {n}, receiver MTU {info.mtu}'))
            info.need, info.cur, info.sdu_frames = n, len(p) - 2, 1
            info.stream += p[2:]
        else:
            info.cur += len(p)
            info.sdu_frames += 1
            info.stream += p
        if info.cur > info.need:
            viol.append(('wire/sdu_length_header_mismatch',
                         f'SDU length header {info.need} but {info.cur} bytes follow before the next SDU starts'))
            info.need = None
        elif info.cur == info.need:
            if info.sdu_frames >= 2:
                info.multi = True
            info.sdus += 1
            info.need = None
    return out, local, viol


# ---------------------------------------------------------------------------
# medium probe (C05 finding: PDUs whose payload + 4 > 65535 are lost by the virtual controller)
# ---------------------------------------------------------------------------
_MEDIUM = {}


def medium_kframe_limit() -> int:
    if 'limit' in _MEDIUM:
        return _MEDIUM['limit']
    loop = vloop.new_loop()
    got: list[int] = []
    try:
        async def main():
            w = world.World(2)
            await w.power_on()
            cc, _cp = await w.connect_le(0, 1)
            w[1].host.on('l2cap_pdu', lambda _h, cid, p: got.append(len(p)) if cid == 0x55 else None)
            w[0].host.send_l2cap_pdu(cc.handle, 0x55, bytes(65533))
            await asyncio.sleep(30.0)

        try:
            loop.complete(main(), 600.0)
        except (vloop.Stalled, vloop.HorizonExceeded, vloop.BudgetExceeded):
            pass
        except Exception as e:  # noqa: BLE001
            raise HarnessError(f'medium probe failed: {e!r}') from e
    finally:
        loop.shutdown()
    _MEDIUM['limit'] = 65533 if got == [65533] else 65531
    return _MEDIUM['limit']


# ---------------------------------------------------------------------------
# generators
# ---------------------------------------------------------------------------
MTUS = [23, 23, 24, 25, 48, 64, 100, 255, 256, 512, 1000, 2046, 2048, 65534, 65535]
MPSS = [23, 23, 24, 25, 27, 50, 64, 100, 251, 255, 256, 1000, 2048, 65531, 65532, 65533]
CREDITS = [1, 1, 1, 2, 2, 3, 4, 5, 10, 255, 256, 65534, 65535]
GEOMETRIES = [[27, 64], [27, 64], [27, 3], [251, 8], [1021, 2]]


def spec_st():
    return st.tuples(
        st.one_of(st.sampled_from(MTUS), st.integers(23, 300), st.integers(23, 65535)),
        st.one_of(st.sampled_from(MPSS), st.integers(23, 64), st.integers(23, 300), st.integers(23, 65533)),
        st.one_of(st.sampled_from(CREDITS), st.integers(1, 20), st.integers(1, 65535)),
    ).map(list)


def delays_st():
    return st.lists(st.sampled_from([0, 0, 0, 1, 7, 50]), min_size=0, max_size=6)


def size_st(mtu: int, mps: int, cap: int):
    cands = set()
    for k in (1, 2, 3):
        for d in (-1, 0, 1):
            cands.add(k * mps - 2 + d)
            cands.add(k * mtu + d)
    cands.update((mps, mps + 1, mtu + 2, 2 * mtu + 2))
    cands = sorted(c for c in cands if 1 <= c <= cap) or [1]
    return st.one_of(
        st.integers(1, 5),
        st.sampled_from(cands),
        st.sampled_from(cands),
        st.integers(1, max(1, min(cap, 3 * mtu))),
    )


def budgeted(ops, cap, size_index=2):
    """Keeps write-like ops while the byte budget lasts (sizes clipped to what is left)."""
    out, left = [], cap
    for op in ops:
        op = list(op)
        if op[0] in ('w', 's'):
            if left <= 0:
                continue
            op[size_index] = min(op[size_index], left)
            left -= op[size_index]
        out.append(op)
    return out


@st.composite
def a_case(draw, caps):
    variant = draw(st.sampled_from(['le', 'le', 'enh']))
    count = draw(st.sampled_from([1, 1, 2, 3])) if variant == 'le' else draw(st.integers(1, 5))
    server, client = draw(spec_st()), draw(spec_st())
    cap = draw(st.sampled_from(caps))
    ch = st.integers(0, count - 1)

    def ops(rx):
        size = size_st(rx[0], rx[1], cap)
        w = st.tuples(st.just('w'), ch, size)
        op = st.one_of(w, w, w, w, st.tuples(st.just('d'), ch), st.tuples(st.just('z'), st.sampled_from([0, 1, 10, 200])))
        return st.lists(op, min_size=0, max_size=12).map(lambda o: budgeted(o, cap))

    c2s = draw(ops(server))
    s2c = draw(st.one_of(st.just([]), ops(client), ops(client)))
    if not any(o[0] == 'w' for o in c2s + s2c):
        c2s = [['w', 0, draw(size_st(server[0], server[1], cap))]]
    return {
        'kind': 'A', 'variant': variant, 'count': count, 'server': server, 'client': client,
        'client_node': draw(st.sampled_from([0, 0, 1])),
        'delays': [draw(delays_st()), draw(delays_st())],
        'geometry': [draw(st.sampled_from(GEOMETRIES)), draw(st.sampled_from(GEOMETRIES))],
        'c2s': c2s, 's2c': s2c,
    }


def cid_plan(draw, n):
    plan = draw(st.sampled_from(['same', 'same', 'reversed', 'shift', 'shift', 'far', 'scatter', 'top']))
    if plan == 'same':
        cids = [0x40 + i for i in range(n)]
    elif plan == 'reversed':
        cids = [0x40 + n - 1 - i for i in range(n)]
    elif plan == 'shift':
        cids = [0x41 + i for i in range(n)]
    elif plan == 'far':
        cids = [0x71 + i for i in range(n)]
    elif plan == 'top':
        cids = [0xFFFF - i for i in range(n)]
    else:
        cids = draw(st.lists(st.integers(0x40, 0x7F), min_size=n, max_size=n, unique=True))
    return plan, cids


@st.composite
def b_case(draw, caps):
    variant = draw(st.sampled_from(['le', 'enh']))
    role = draw(st.sampled_from(['peer_initiates', 'bumble_initiates']))
    n = draw(st.sampled_from([1, 1, 2, 2, 3, 5] if variant == 'enh' else [1, 1, 2, 3]))
    bumble, peer = draw(spec_st()), draw(spec_st())
    plan, cids = cid_plan(draw, n)
    cap = draw(st.sampled_from(caps))
    ch = st.integers(0, n - 1)
    wsize = size_st(peer[0], peer[1], cap)  # Bumble writes towards the peer
    ssize = size_st(bumble[0], bumble[1], min(cap, bumble[0]))  # one peer SDU <= Bumble's MTU
    seg = st.one_of(st.just(bumble[1]), st.just(bumble[1]), st.integers(2, bumble[1]), st.sampled_from([2, 3, 23]))
    w = st.tuples(st.just('w'), ch, wsize)
    s = st.tuples(st.just('s'), ch, ssize, seg)
    op = st.one_of(
        w, w, w, s, s,
        st.tuples(st.just('g'), ch, st.sampled_from([1, 1, 2, 7, 300, 65535])),
        st.tuples(st.just('z'), st.sampled_from([0, 1, 10, 200])),
        st.tuples(st.just('d'), ch),
    )
    script = budgeted(draw(st.lists(op, min_size=1, max_size=14)), cap)
    for o in script:
        if o[0] == 's':
            o[2] = min(o[2], bumble[0])
            o[3] = max(2, min(o[3], bumble[1]))
    if not any(o[0] in ('w', 's') for o in script):
        script.append(['w', 0, draw(wsize)])
    early = [draw(st.sampled_from([0, 0, 1, 3, 40, 5000])) for _ in range(n)] if role == 'bumble_initiates' else [0] * n
    early = [min(e, 65535 - peer[2]) for e in early]
    # low-water mark; peer[2] - 1 = every credit is returned at once, the balance comes back to exactly the initial value
    low = draw(st.one_of(st.just(0), st.just(0), st.integers(0, max(0, min(peer[2] - 1, 12))), st.just(max(0, peer[2] // 2)),
                         st.just(max(0, peer[2] - 1))))
    return {
        'kind': 'B', 'variant': variant, 'role': role, 'n': n, 'bumble': bumble, 'peer': peer,
        'plan': plan, 'cids': cids,
        'delays': [draw(delays_st()), draw(delays_st())],
        'early': early,
        'policy': [low, draw(st.sampled_from(['full', 'full', 'one', 'some'])), draw(st.sampled_from([0, 0, 3, 120]))],
        'script': script,
    }


def small_spec_st():
    """Histories want channels that run out of credits while another one is closed and opened again."""
    return st.tuples(
        st.one_of(st.sampled_from([23, 48, 64, 100, 256]), st.integers(23, 300)),
        st.one_of(st.sampled_from([23, 24, 50, 64, 100]), st.integers(23, 300)),
        st.one_of(st.sampled_from([1, 1, 2, 3, 5]), st.integers(1, 20), st.sampled_from([255, 65535])),
    ).map(list)


@st.composite
def h_case(draw, caps):
    """Harness B with a history: channels are closed and opened again (by either end, LE or enhanced request, the peer
    re-using its identifier, taking a fresh one or one that Bumble uses for its own end), or the link is dropped and
    everything is set up again, while the other channels keep whatever they have queued. After each history step the
    channel(s) opened again carry data in both directions."""
    variant = draw(st.sampled_from(['le', 'enh']))
    role = draw(st.sampled_from(['peer_initiates', 'bumble_initiates']))
    n = draw(st.sampled_from([1, 2, 2, 3, 3]))
    bumble = draw(st.one_of(small_spec_st(), small_spec_st(), spec_st()))
    peer = draw(st.one_of(small_spec_st(), small_spec_st(), spec_st()))
    plan = draw(st.sampled_from(['same', 'same', 'reversed', 'shift', 'shift', 'far', 'scatter']))
    if plan == 'scatter':
        cids = draw(st.lists(st.integers(0x40, 0x7F), min_size=n, max_size=n, unique=True))
    else:
        cids = {'same': [0x40 + i for i in range(n)], 'reversed': [0x40 + n - 1 - i for i in range(n)],
                'shift': [0x41 + i for i in range(n)], 'far': [0x71 + i for i in range(n)]}[plan]
    cap = draw(st.sampled_from(caps))
    ch = st.integers(0, n - 1)
    wsize = size_st(peer[0], peer[1], cap)
    ssize = size_st(bumble[0], bumble[1], min(cap, bumble[0]))
    seg = st.one_of(st.just(bumble[1]), st.just(bumble[1]), st.integers(2, bumble[1]), st.sampled_from([2, 3, 23]))
    w = st.tuples(st.just('w'), ch, wsize)
    sd = st.tuples(st.just('s'), ch, ssize, seg)
    op = st.one_of(
        w, w, w, sd, sd,
        st.tuples(st.just('g'), ch, st.sampled_from([1, 1, 2, 7, 300, 65535])),
        st.tuples(st.just('z'), st.sampled_from([0, 1, 10, 200])),
        st.tuples(st.just('d'), ch),
    )
    reopen = st.tuples(st.just('c'), ch, st.sampled_from('bp'), st.sampled_from('bp'), st.sampled_from(['le', 'enh']),
                       st.sampled_from(['reuse', 'reuse', 'fresh', 'cross']))
    relink = st.tuples(st.just('L'), st.sampled_from('bp'), st.sampled_from(['reuse', 'reuse', 'rotate', 'fresh']))
    steps = draw(st.sampled_from([1, 1, 2, 3]))
    share = max(30, cap // (steps + 1))
    # a write that needs more K-frames than the initial credits allow (when that is affordable)
    beyond = (peer[2] + 1) * peer[1] if (peer[2] + 1) * peer[1] <= 3000 else None
    script = budgeted(draw(st.lists(op, min_size=0, max_size=5)), share)
    for _ in range(steps):
        h = list(draw(st.one_of(reopen, reopen, reopen, relink)))
        if h[0] == 'c' and n > 1 and draw(st.sampled_from([True, True, True, False])):
            # another channel still has output queued / waits for credits while this one is closed and opened again
            j = draw(ch.filter(lambda x: x != h[1]))
            script.append(['w', j, beyond * draw(st.sampled_from([2, 3, 5])) if beyond else draw(wsize)])
            if draw(st.booleans()):
                script.append(['s', j, draw(ssize), draw(st.sampled_from([2, 3, 23]))])
        script.append(h)
        ks = [h[1]] if h[0] == 'c' else list(range(n))
        after = []
        for k in ks:  # the channel(s) opened again are used, in both directions more often than not
            after.append(['w', k, beyond * draw(st.sampled_from([1, 1, 2])) + draw(st.integers(0, 2))
                          if beyond and draw(st.booleans()) else draw(wsize)])
            for _i in range(draw(st.sampled_from([0, 1, 1, 2, 3]))):
                after.append(['s', k, draw(ssize), draw(seg)])
        more = [list(o) for o in draw(st.lists(op, min_size=0, max_size=4))]
        script += after + budgeted(more, share)
    for o in script:
        if o[0] == 's':
            o[2] = min(o[2], bumble[0])
            o[3] = max(2, min(o[3], bumble[1]))
    early = [min(draw(st.sampled_from([0, 0, 1, 3, 40, 5000])), 65535 - peer[2]) for _ in range(n)]
    low = draw(st.one_of(st.just(0), st.just(0), st.integers(0, max(0, min(peer[2] - 1, 12))), st.just(max(0, peer[2] // 2)),
                         st.just(max(0, peer[2] - 1))))
    return {
        'kind': 'B', 'variant': variant, 'role': role, 'n': n, 'bumble': bumble, 'peer': peer,
        'plan': plan, 'cids': cids,
        'delays': [draw(delays_st()), draw(delays_st())],
        'early': early,
        'policy': [low, draw(st.sampled_from(['full', 'full', 'one', 'some'])), draw(st.sampled_from([0, 0, 3, 120]))],
        'script': script,
    }


def wrap_cases(quick):
    """Directed: Bumble, receiving with 1 or 2 credits, returns more than 256 credit packets on one link (its signalling
    identifier wraps; 0 is illegal and is discarded by the peer), then a channel is closed and opened again by Bumble
    (its request carries an identifier from after the wrap) and used in both directions."""
    i = 0
    for variant in ('le', 'enh'):
        for role in ('peer_initiates', 'bumble_initiates'):
            # one credit return of more than 255 credits: 520 credits, low-water mark 260, 305 frames
            if not quick or (variant == 'le') == (role == 'peer_initiates'):
                yield {'kind': 'B', 'variant': variant, 'role': role, 'n': 1, 'bumble': [600, 23, 520],
                       'peer': [100, 40, 3], 'plan': 'shift', 'cids': [0x41], 'delays': [[], []], 'early': [0],
                       'policy': [0, 'full', 0], 'script': [['s', 0, 120, 2]] * 5 + [['w', 0, 250], ['s', 0, 100, 7]]}
            for credits in (1, 2):
                i += 1
                if quick and i % 2 != (0 if variant == 'le' else 1):
                    continue
                yield {'kind': 'B', 'variant': variant, 'role': role, 'n': 2, 'bumble': [120, 23, credits],
                       'peer': [100, 40, 3], 'plan': 'shift', 'cids': [0x41, 0x42],
                       'delays': [[], []] if credits == 1 else [[1], [7]], 'early': [0, 0], 'policy': [0, 'full', 0],
                       'script': [['s', 0, 120, 2], ['s', 0, 120, 2], ['w', 1, 300], ['s', 0, 120, 2], ['s', 0, 120, 2],
                                  ['s', 0, 120, 2], ['c', 0, 'p', 'b', variant, 'reuse'], ['s', 0, 100, 7], ['w', 0, 250],
                                  ['s', 1, 120, 2], ['d', 0]]}


# ---------------------------------------------------------------------------
# shared helpers
# ---------------------------------------------------------------------------
def clamp_medium(ctx, spec, total_towards_it):
    """Excludes K-frames the virtual controller cannot carry (C05) by clamping the receiver's MPS."""
    limit = medium_kframe_limit()
    if spec[1] > limit and spec[0] + 2 > limit and total_towards_it + 2 > limit:
        ctx.exclude('kframe_pdu_over_65535_not_carried_by_virtual_controller(C05)')
        return [spec[0], limit, spec[2]]
    return list(spec)


async def settle_credit_packets(pairs) -> None:
    """Quiescence for the ledger clauses: waits (virtual time) until every credit packet that one host produced has been
    seen by the other host. `pairs`: callables -> (produced, seen). Gives up when nothing has moved for 10 virtual
    seconds (packets that went down with a dropped link, or that a mutant never delivers): the ledgers are compared
    then as they are. Thousands of credit packets behind 50 ms HCI delays need more than the fixed 2 s."""
    last, idle = None, 0
    while idle < 20:
        cur = [p() for p in pairs]
        if all(produced <= seen for produced, seen in cur):
            return
        idle = idle + 1 if cur == last else 0
        last = cur
        await asyncio.sleep(0.5)


def run_loop(loop, coro):
    try:
        loop.complete(coro, HORIZON)
        return 'done', None
    except vloop.Stalled:
        return 'stalled', None
    except vloop.HorizonExceeded:
        return 'horizon', None
    except vloop.BudgetExceeded:
        return 'budget', None
    except HarnessError:
        raise
    except Exception as e:  # noqa: BLE001 - classified by the caller (API exception vs harness)
        return 'exception', e


def first_error(loop) -> str:
    for e in loop.errors:
        if e.get('exception') is not None:
            return f'; escaped exception: {e["exception"]!r}'
    return ''


def stream_verdict(exp: bytes, got: bytes):
    """-> None (equal) | ('incomplete', n_missing) | ('mismatch', text)"""
    if got == exp:
        return None
    if len(got) < len(exp) and exp.startswith(got):
        return 'incomplete', len(exp) - len(got)
    n = 0
    m = min(len(exp), len(got))
    while n < m and exp[n] == got[n]:
        n += 1
    if len(got) > len(exp) and got.startswith(exp):
        return 'mismatch', f'{len(got) - len(exp)} byte(s) delivered beyond the {len(exp)} written'
    tail = exp[n:]
    kind = 'bytes missing or reordered'
    if got[n : n + 16] and tail.find(got[n : n + 16]) > 0:
        kind = f'{tail.find(got[n : n + 16])} byte(s) missing'
    return 'mismatch', f'first difference at stream offset {n} of {len(exp)} ({kind}; {len(got)} delivered)'


def spec_labels(prefix, spec):
    out = set()
    if spec[0] == 23:
        out.add(f'{prefix}mtu_min')
    if spec[0] >= 65534:
        out.add(f'{prefix}mtu_top')
    if spec[1] == 23:
        out.add(f'{prefix}mps_min')
    if spec[1] >= 65531:
        out.add(f'{prefix}mps_top')
    if spec[2] == 1:
        out.add(f'{prefix}credits_1')
    if spec[2] >= 65534:
        out.add(f'{prefix}credits_top')
    if spec[1] > spec[0] + 2:
        out.add(f'{prefix}mps_gt_mtu')
    return out


# ---------------------------------------------------------------------------
# harness A
# ---------------------------------------------------------------------------
def run_a(ctx, case) -> None:
    variant, count = case['variant'], int(case['count'])
    ops = {'c2s': [list(o) for o in case['c2s']], 's2c': [list(o) for o in case['s2c']]}
    total = {d: sum(o[2] for o in ops[d] if o[0] == 'w') for d in ops}
    server = clamp_medium(ctx, case['server'], total['c2s'])
    client = clamp_medium(ctx, case['client'], total['s2c'])
    cnode = int(case['client_node'])
    snode = 1 - cnode
    loop = vloop.new_loop()
    s: dict = {'phase': 'setup', 'recv': {}, 'written': {}, 'draining': {}}
    # expected stream per (direction, channel)
    expected: dict = {}
    for d in ops:
        pos = {}
        for o in ops[d]:
            if o[0] == 'w':
                pos[o[1]] = pos.get(o[1], 0) + o[2]
        for k in range(count):
            expected[(d, k)] = pattern((0 if d == 'c2s' else 100) + k, 0, pos.get(k, 0))

    def fail(sig, what):
        ctx.fail(sig, what + first_error(loop), dict(case))

    async def main():
        w = world.World(
            2, delays=[list(case['delays'][0]) or [0], list(case['delays'][1]) or [0]],
            geometry=[{'le_acl_data_packet_length': g[0], 'total_num_le_acl_data_packets': g[1]} for g in case['geometry']],
        )
        s['mons'] = [Monitor(w[0]), Monitor(w[1])]
        await w.power_on()
        conns = await w.connect_le(0, 1)
        delivered = asyncio.Event()
        s['delivered'] = delivered

        def check_done():
            if all(sum(map(len, s['recv'].get(k, []))) >= len(expected[k]) for k in expected):
                delivered.set()

        def make_sink(key):
            s['recv'][key] = []

            def sink(data):
                s['recv'][key].append(bytes(data))
                check_done()

            return sink

        schans: list = []

        def on_channel(ch):
            ch.sink = make_sink(('c2s', len(schans)))
            schans.append(ch)

        srv = w[snode].device.create_l2cap_server(
            spec=Spec(mtu=server[0], mps=server[1], max_credits=server[2]), handler=on_channel
        )
        cspec = Spec(psm=srv.psm, mtu=client[0], mps=client[1], max_credits=client[2])
        if variant == 'le':
            cchans = []
            for _ in range(count):
                cchans.append(await conns[cnode].create_l2cap_channel(spec=cspec))
        else:
            cchans = list(
                await w[cnode].device.l2cap_channel_manager.create_enhanced_credit_based_channels(
                    conns[cnode], cspec, count
                )
            )
        for k, ch in enumerate(cchans):
            ch.sink = make_sink(('s2c', k))
        await world.settle(20)
        s['chans'] = {'c2s': cchans, 's2c': schans}
        if len(schans) != count or len(cchans) != count:
            s['phase'] = 'setup_count'
            return
        s['phase'] = 'transfer'

        async def writer(d):
            chans = s['chans'][d]
            pos: dict = {}
            for o in ops[d]:
                if o[0] == 'w':
                    k, n = o[1], o[2]
                    chans[k].write(pattern((0 if d == 'c2s' else 100) + k, pos.get(k, 0), n))
                    pos[k] = pos.get(k, 0) + n
                    s['written'][(d, k)] = pos[k]
                elif o[0] == 'd':
                    s['draining'][d] = o[1]
                    await chans[o[1]].drain()
                    s['draining'].pop(d, None)
                elif o[0] == 'z':
                    await asyncio.sleep(o[1] / 1000.0)

        tasks = [loop.create_task(writer('c2s')), loop.create_task(writer('s2c'))]
        await asyncio.gather(*tasks)
        s['phase'] = 'drain'
        for d in ('c2s', 's2c'):
            for k, ch in enumerate(s['chans'][d]):
                s['draining'][d] = k
                await ch.drain()
                s['draining'].pop(d, None)
        s['phase'] = 'deliver'
        check_done()
        await delivered.wait()
        # anything beyond the expected bytes would still be in flight now
        await asyncio.sleep(2.0)
        m0, m1 = s['mons']
        await settle_credit_packets([lambda: (m0.credit_tx, m1.credit_rx), lambda: (m1.credit_tx, m0.credit_rx)])
        s['phase'] = 'done'

    try:
        outcome, exc = run_loop(loop, main())
        labels = {f'A:{variant}', f'A:{variant}:count{count}', 'A'}
        labels |= spec_labels('rx_', server) | spec_labels('rx_', client)
        if any(case['delays'][0]) or any(case['delays'][1]):
            labels.add('delayed')
        if total['c2s'] and total['s2c']:
            labels.add('bidirectional')
        if cnode == 1:
            labels.add('A:client_on_peripheral')
        for d, rx in (('c2s', server), ('s2c', client)):
            if any(o[0] == 'w' and o[2] > rx[0] for o in ops[d]):
                labels.add('write_gt_mtu')
            if any(o[0] == 'w' and o[2] >= 2 * rx[0] for o in ops[d]):
                labels.add('write_ge_2mtu')
        nontrivial = False
        if outcome == 'budget':
            labels.add('iteration_budget_hit')
        elif outcome == 'exception':
            fail(f'A/{variant}/api_exception/{s["phase"]}/{type(exc).__name__}',
                 f'{type(exc).__name__}({str(exc)[:120]}) raised in phase {s["phase"]}')
        elif s['phase'] in ('setup', 'setup_count'):
            fail(f'A/{variant}/setup/{outcome if s["phase"] == "setup" else "channel_count"}',
                 f'channel set-up did not complete ({outcome}, phase {s["phase"]})')
        else:
            analyses = [analyse_host(m.events) for m in s['mons']]
            # -- wire / credit discipline
            seen = set()
            for node, (_out, _local, viol) in enumerate(analyses):
                for sig, what in viol:
                    if sig not in seen:
                        seen.add(sig)
                        fail(f'A/{variant}/{sig}', f'node {node}: {what}')
            for out, _l, _v in analyses:
                for info in out.values():
                    if info.multi:
                        labels.add('multi_frame_sdu')
                        nontrivial = True
                    if info.exhausted:
                        labels.add('credits_exhausted')
                        nontrivial = True
                    if info.credit_frames:
                        labels.add('credits_returned')
            # -- streams
            incomplete = []
            for key in sorted(expected):
                got = b''.join(s['recv'].get(key, []))
                # judged against what was really handed to write() (all of it when the run completed)
                exp_now = expected[key] if outcome == 'done' else expected[key][: s['written'].get(key, 0)]
                v = stream_verdict(exp_now, got)
                if v is None:
                    continue
                if v[0] == 'mismatch':
                    fail(f'A/{variant}/stream/mismatch', f'{key[0]} channel {key[1]}: {v[1]}')
                else:
                    incomplete.append((key, v[1]))
            # -- credit ledgers at quiescence, per channel and direction: the sender's LeCreditBasedChannel.credits and the
            #    receiver's peer_credits against the wire ledger of the sending host (initial + credit packets it
            #    received - K-frames it produced). sender < wire: a grant was lost (starves later); sender > wire: invented
            #    (a frame without a credit later); receiver > wire: the receiver accounts credits it never handed over
            #    (the sender starves before the receiver's low-water mark). receiver < wire is left open: not judged.
            if outcome == 'done' and not incomplete:
                for d, sender, rd in (('c2s', cnode, 's2c'), ('s2c', snode, 'c2s')):
                    wire = analyses[sender][0]
                    rx_by_cid = {r.source_cid: r for r in s['chans'][rd]}
                    for k, ch in enumerate(s['chans'][d]):
                        info = wire.get(ch.destination_cid)
                        if info is None:
                            continue
                        if ch.credits != info.credits:
                            fail(f'A/{variant}/credits/balance_' + ('lost' if ch.credits < info.credits else 'invented'),
                                 f'{d} channel {k} at quiescence: the sender holds {ch.credits} credit(s), its host saw '
                                 f'{info.initial} initial + {info.credit_frames} credit packet(s) - {info.frames} K-frame(s) '
                                 f'= {info.credits}')
                        r = rx_by_cid.get(ch.destination_cid)
                        if r is not None and r.peer_credits > info.credits:
                            fail(f'A/{variant}/credits/receiver_balance_lost',
                                 f'{d} channel {k} at quiescence: the receiver accounts {r.peer_credits} credit(s) to the '
                                 f'sender, whose host was given {info.credits}')
                labels.add('A:credit_ledgers_compared')
            # -- progress
            if outcome != 'done' or incomplete:
                if incomplete:
                    d, k = incomplete[0][0]
                elif s['draining']:
                    d, k = sorted(s['draining'].items())[0]
                else:
                    d, k = 'c2s', 0
                sender = cnode if d == 'c2s' else snode
                ch = s['chans'][d][k] if k < len(s['chans'][d]) else None
                info = analyses[sender][0].get(getattr(ch, 'destination_cid', None)) if ch is not None else None
                exp = expected[(d, k)] if outcome == 'done' else expected[(d, k)][: s['written'].get((d, k), 0)]
                if info is not None and len(info.stream) < len(exp):
                    state = 'sender_idle_holding_credits' if info.credits > 0 else 'sender_never_got_credits_back'
                    detail = (f'{len(info.stream)} of {len(exp)} bytes put into K-frames, ledger shows {info.credits} '
                              f'credit(s) held')
                elif incomplete:
                    state = 'sent_but_not_delivered'
                    detail = f'all {len(exp)} bytes were sent, {incomplete[0][1]} never reached the sink'
                elif s['draining']:
                    state = 'drain_never_completes'
                    detail = 'every byte written so far was delivered but drain() is still waiting'
                else:
                    state = 'no_progress'
                    detail = 'nothing is outstanding, yet the run did not complete'
                fail(f'A/{variant}/progress/{state}',
                     f'{outcome} in phase {s["phase"]}: {d} channel {k}: {detail}')
        ctx.case(case, nontrivial, labels,
                 sample={'A': variant, 'count': count, 'server': server, 'client': client,
                         'c2s': ops['c2s'][:6], 's2c': ops['s2c'][:6]})
    finally:
        loop.shutdown()


# ---------------------------------------------------------------------------
# harness B: the conforming raw peer
# ---------------------------------------------------------------------------
class PChan:
    def __init__(self, index, pcid):
        self.index = index
        self.pcid = pcid  # the peer's own endpoint
        self.bcid = None  # Bumble's endpoint
        self.b_mtu = self.b_mps = 0
        self.tx_credits = 0  # credits Bumble granted to the peer
        self.ledger = 0  # credits the peer granted to Bumble and Bumble has not used
        self.initial = 0
        self.need = None
        self.cur = bytearray()
        self.rx_stream = bytearray()
        self.rx_frames = 0
        self.rx_bytes = 0
        self.refill_pending = False
        self.txq: asyncio.Queue = asyncio.Queue()
        self.credit_event = asyncio.Event()
        self.sent_bytes = 0
        self.blocked = False
        self.closed = False
        self.reopened = False  # this endpoint took the place of a closed one (history operations)
        self.grants = 0  # credit packets sent to Bumble for this endpoint
        self.returns = 0  # credit packets received from Bumble for this endpoint


class Peer:
    def __init__(self, raw, case, peer_spec, loop, state):
        self.raw, self.case, self.loop, self.state = raw, case, loop, state
        self.mtu, self.mps, self.credits = peer_spec
        self.low, self.refill_mode, self.lazy = case['policy']
        self.chans = [PChan(i, cid) for i, cid in enumerate(case['cids'])]
        self.by_pcid: dict = {}
        self.by_bcid: dict = {}
        self.waiters: dict = {}
        self.viol: list = []
        # channels that answer Bumble's next connection request(s), in order
        self.to_accept: list = list(self.chans) if case['role'] == 'bumble_initiates' else []
        self.req_ident = 0
        self.ident0_dropped = 0
        self.on_progress = lambda: None

    # -- signalling ------------------------------------------------------
    def wait_for(self, code, ident):
        fut = self.loop.create_future()
        self.waiters[(code, ident)] = fut
        return fut

    def establish(self, ch, bcid, b_mtu, b_mps, b_credits):
        ch.bcid, ch.b_mtu, ch.b_mps, ch.tx_credits = bcid, b_mtu, b_mps, b_credits
        ch.ledger = ch.initial = self.credits
        self.by_pcid[ch.pcid] = ch
        self.by_bcid[bcid] = ch

    def next_ident(self):
        self.req_ident = self.req_ident % 255 + 1
        return self.req_ident

    def close(self, ch):
        ch.closed = True
        if self.by_pcid.get(ch.pcid) is ch:
            del self.by_pcid[ch.pcid]
        if self.by_bcid.get(ch.bcid) is ch:
            del self.by_bcid[ch.bcid]

    def link_lost(self):
        for ch in self.chans:
            self.close(ch)
        self.waiters.clear()
        self.to_accept = []

    def grant(self, ch, n):
        n = min(n, 65535 - ch.ledger)
        if n <= 0 or ch.closed:
            return
        self.raw.send(SIG_CID, bytes(l2cap.L2CAP_LE_Flow_Control_Credit(
            identifier=1 + (self.state.setdefault('ident', 0) % 255), cid=ch.pcid, credits=n)))
        self.state['ident'] += 1
        ch.ledger += n
        ch.grants += 1
        self.state['grants'] = self.state.get('grants', 0) + 1

    def _refill(self, ch):
        ch.refill_pending = False
        if ch.ledger > self.low:
            return
        if self.refill_mode == 'full':
            n = max(1, ch.initial - ch.ledger)
        elif self.refill_mode == 'one':
            n = max(1, self.low + 1 - ch.ledger)
        else:
            n = max(1, self.low + 1 - ch.ledger) + 2
        self.grant(ch, n)

    def on_pdu(self, _handle, cid, payload):
        payload = bytes(payload)
        if cid == SIG_CID:
            parsed = parse_signal(payload)
            if parsed is None:
                return
            code, ident, f = parsed
            if ident == 0:
                # Vol 3 Part A 4: identifier 0x00 is illegal; a conforming peer discards the packet
                self.ident0_dropped += 1
                return
            if f is None:
                return
            if code in (0x15, 0x18, 0x07):
                fut = self.waiters.pop((code, ident), None)
                if fut is not None and not fut.done():
                    fut.set_result(f)
            elif code == 0x14 and (self.case['role'] == 'bumble_initiates' or self.to_accept):
                self._accept(ident, f, enhanced=False)
            elif code == 0x17 and (self.case['role'] == 'bumble_initiates' or self.to_accept):
                self._accept(ident, f, enhanced=True)
            elif code == 0x16:
                ch = self.by_bcid.get(f['cid'])
                if ch is None:
                    self.viol.append(('credit_frame_names_unknown_cid',
                                      f'Bumble sent L2CAP_LE_Flow_Control_Credit with cid=0x{f["cid"]:04X}; its own '
                                      f'endpoints are {[hex(c) for c in sorted(self.by_bcid)]}'))
                    return
                ch.tx_credits += f['credits']
                ch.credit_event.set()
                ch.returns += 1
                self.state['max_return'] = max(self.state.get('max_return', 0), f['credits'])
                self.state['returns'] = self.state.get('returns', 0) + 1
            elif code == 0x06:
                # Bumble closes a channel: dcid = the peer's end, scid = Bumble's end
                ch = self.by_pcid.get(f['dcid'])
                if ch is not None and ch.bcid == f['scid']:
                    self.raw.send(SIG_CID, bytes(l2cap.L2CAP_Disconnection_Response(
                        identifier=ident, destination_cid=f['dcid'], source_cid=f['scid'])))
                    self.close(ch)
            self.on_progress()
            return
        ch = self.by_pcid.get(cid)
        if ch is None:
            if cid >= 0x40:
                self.viol.append(('kframe_to_unknown_peer_cid', f'data frame for CID 0x{cid:04X}, the peer\'s endpoints '
                                  f'are {[hex(c) for c in sorted(self.by_pcid)]}'))
            return
        ch.rx_frames += 1
        ch.rx_bytes += len(payload)
        ch.ledger -= 1
        if ch.need is None:
            if len(payload) >= 2:
                ch.need = struct.unpack_from('<H', payload)[0]
                ch.cur = bytearray(payload[2:])
        else:
            ch.cur += payload
        if ch.need is not None and len(ch.cur) >= ch.need:
            ch.rx_stream += ch.cur  # over-long SDUs are reported by the wire monitor
            ch.need = None
            ch.cur = bytearray()
        if ch.ledger <= self.low and not ch.refill_pending:
            ch.refill_pending = True
            if self.lazy:
                self.loop.call_later(self.lazy / 1000.0, self._refill, ch)
            else:
                self._refill(ch)
        self.on_progress()

    def _accept(self, ident, f, enhanced):
        """Bumble asked for channel(s): answer with the peer's own CIDs, then the early credits."""
        chans = []
        for scid in f['scids']:
            if not self.to_accept:
                return
            ch = self.to_accept.pop(0)
            self.establish(ch, scid, f['mtu'], f['mps'], f['credits'])
            chans.append(ch)
        if enhanced:
            rsp = l2cap.L2CAP_Credit_Based_Connection_Response(
                identifier=ident, mtu=self.mtu, mps=self.mps, initial_credits=self.credits,
                result=l2cap.L2CAP_Credit_Based_Connection_Response.Result.ALL_CONNECTIONS_SUCCESSFUL,
                destination_cid=[c.pcid for c in chans],
            )
        else:
            rsp = l2cap.L2CAP_LE_Credit_Based_Connection_Response(
                identifier=ident, destination_cid=chans[0].pcid, mtu=self.mtu, mps=self.mps,
                initial_credits=self.credits,
                result=l2cap.L2CAP_LE_Credit_Based_Connection_Response.Result.CONNECTION_SUCCESSFUL,
            )
        self.raw.send(SIG_CID, bytes(rsp))
        for ch in chans:
            if self.case['early'][ch.index]:
                self.grant(ch, self.case['early'][ch.index])

    async def initiate(self, psm, chans=None, variant=None):
        """The peer asks for the channel(s); Bumble runs the server. -> None | refusal result"""
        chans = list(self.chans if chans is None else chans)
        n = len(chans)
        if (variant or self.case['variant']) == 'enh':
            ident = self.next_ident()
            fut = self.wait_for(0x18, ident)
            self.raw.send(SIG_CID, bytes(l2cap.L2CAP_Credit_Based_Connection_Request(
                identifier=ident, spsm=psm, mtu=self.mtu, mps=self.mps, initial_credits=self.credits,
                source_cid=[c.pcid for c in chans])))
            f = await fut
            if f['result'] != 0 or len(f['dcids']) != n or 0 in f['dcids']:
                return f
            for ch, dcid in zip(chans, f['dcids']):
                self.establish(ch, dcid, f['mtu'], f['mps'], f['credits'])
            return None
        for ch in chans:
            ident = self.next_ident()
            fut = self.wait_for(0x15, ident)
            self.raw.send(SIG_CID, bytes(l2cap.L2CAP_LE_Credit_Based_Connection_Request(
                identifier=ident, le_psm=psm, source_cid=ch.pcid, mtu=self.mtu, mps=self.mps,
                initial_credits=self.credits)))
            f = await fut
            if f['result'] != 0:
                return f
            self.establish(ch, f['dcids'][0], f['mtu'], f['mps'], f['credits'])
        return None

    async def disconnect(self, ch):
        """The peer closes a channel: dcid = Bumble's end, scid = the peer's end; waits for the response."""
        ident = self.next_ident()
        fut = self.wait_for(0x07, ident)
        self.raw.send(SIG_CID, bytes(l2cap.L2CAP_Disconnection_Request(
            identifier=ident, destination_cid=ch.bcid, source_cid=ch.pcid)))
        f = await fut
        self.close(ch)
        return f

    # -- data --------------------------------------------------------------
    async def sender(self, ch):
        while True:
            item = await ch.txq.get()
            if item is None:
                return
            sdu, seg = item
            sdu = sdu[: ch.b_mtu]
            seg = max(2, min(seg, ch.b_mps, medium_kframe_limit()))
            data = struct.pack('<H', len(sdu)) + sdu
            for off in range(0, len(data), seg):
                while ch.tx_credits <= 0:
                    ch.blocked = True
                    ch.credit_event.clear()
                    await ch.credit_event.wait()
                ch.blocked = False
                ch.tx_credits -= 1
                self.raw.send(ch.bcid, data[off : off + seg])
            ch.sent_bytes += len(sdu)
            self.on_progress()


def run_b(ctx, case) -> None:
    variant, role, n = case['variant'], case['role'], int(case['n'])
    script = [list(o) for o in case['script']]
    cids = [int(c) for c in case['cids']]
    tot_w = sum(o[2] for o in script if o[0] == 'w')
    tot_s = max([o[2] for o in script if o[0] == 's'] or [0])
    peer_spec = clamp_medium(ctx, case['peer'], tot_w)
    bumble = clamp_medium(ctx, case['bumble'], tot_s)
    loop = vloop.new_loop()
    s: dict = {'phase': 'setup', 'recv': {k: [] for k in range(n)}}
    exp_w = {k: 0 for k in range(n)}
    exp_s = {k: 0 for k in range(n)}
    for o in script:
        if o[0] == 'w' and o[1] < n:
            exp_w[o[1]] += o[2]
        elif o[0] == 's' and o[1] < n:
            exp_s[o[1]] += min(o[2], bumble[0])
    expected_w = {k: pattern(k, 0, exp_w[k]) for k in range(n)}
    expected_s = {k: pattern(100 + k, 0, exp_s[k]) for k in range(n)}
    in_range = all(0x40 <= c <= 0x7F for c in cids)
    tag = f'B/{variant}/{role}'

    def fail(sig, what):
        ctx.fail(sig, what + first_error(loop), dict(case))

    async def main():
        w = world.World(1, delays=[list(case['delays'][0]) or [0]])
        s['mon'] = Monitor(w[0])
        await w.power_on()
        raw = world.RawPeer(w, 1, delays=list(case['delays'][1]) or None)
        await raw.start()
        conn = await raw.connect_to(w[0].device)
        await asyncio.sleep(0.5)
        peer = Peer(raw, case, peer_spec, loop, s)
        s['peer'] = peer
        raw.host.on('l2cap_pdu', peer.on_pdu)
        done = asyncio.Event()
        wake = asyncio.Event()

        def check_done():
            wake.set()
            if all(len(peer.chans[k].rx_stream) >= exp_w[k] for k in range(n)) and all(
                sum(map(len, s['recv'][k])) >= exp_s[k] for k in range(n)
            ):
                done.set()

        peer.on_progress = check_done

        async def wait_until(cond):
            # event driven: when nothing can make the condition true any more the loop stalls (vloop.Stalled)
            while not cond():
                wake.clear()
                await wake.wait()

        def make_sink(k):
            def sink(data):
                s['recv'][k].append(bytes(data))
                check_done()

            return sink

        bchans: list = []
        slots: list = []  # indices the next channels accepted by Bumble's server take (empty: append)
        bspec = dict(mtu=bumble[0], mps=bumble[1], max_credits=bumble[2])
        mgr = w[0].device.l2cap_channel_manager

        def on_channel(ch):
            k = slots.pop(0) if slots else len(bchans)
            ch.sink = make_sink(k)
            if k < len(bchans):
                bchans[k] = ch
            else:
                bchans.append(ch)

        srv = None
        if role == 'peer_initiates' or any(o[0] == 'c' and o[3] == 'p' for o in script):
            srv = w[0].device.create_l2cap_server(spec=Spec(**bspec), handler=on_channel)
        spec = Spec(psm=PEER_PSM, **bspec)

        async def open_all(conn):
            """All n channels the way the case says (first establishment, and again after a lost link)."""
            if role == 'peer_initiates':
                refused = await peer.initiate(srv.psm)
                if refused is not None:
                    s['refused'] = refused
                    return False
            elif variant == 'le':
                for k in range(n):
                    ch = await conn.create_l2cap_channel(spec=spec)
                    ch.sink = make_sink(k)
                    if k < len(bchans):
                        bchans[k] = ch
                    else:
                        bchans.append(ch)
            else:
                chans = await mgr.create_enhanced_credit_based_channels(conn, spec, n)
                for k, ch in enumerate(chans):
                    ch.sink = make_sink(k)
                bchans[:] = list(chans)
            await world.settle(20)
            return True

        if not await open_all(conn):
            return
        s['bchans'] = bchans
        if len(bchans) != n or any(c.bcid is None for c in peer.chans):
            s['phase'] = 'setup_count'
            return
        # the k-th Bumble channel object must be the k-th peer channel
        for k, ch in enumerate(bchans):
            if ch.source_cid != peer.chans[k].bcid:
                raise HarnessError('channel pairing between Bumble and the raw peer is not by index')
        s['phase'] = 'transfer'
        senders = [loop.create_task(peer.sender(ch)) for ch in peer.chans]
        wpos = s['wpos'] = {k: 0 for k in range(n)}
        spos = s['spos'] = {k: 0 for k in range(n)}
        hist = s['hist'] = set()

        async def quiesce(k):
            """Channel k carries nothing any more: everything written on it so far has arrived at the other end."""
            s['draining'] = k
            await bchans[k].drain()
            s.pop('draining', None)
            await wait_until(lambda: len(peer.chans[k].rx_stream) >= wpos[k]
                             and sum(map(len, s['recv'][k])) >= spos[k] and peer.chans[k].sent_bytes >= spos[k])
            peer.chans[k].txq.put_nowait(None)
            await senders[k]

        def successor(old, pcid):
            new = PChan(old.index, pcid)
            new.reopened = True
            new.rx_stream, new.sent_bytes = old.rx_stream, old.sent_bytes  # the streams of slot k go on
            peer.chans[old.index] = new
            return new

        def pick_cid(old, mode):
            live = {c.pcid for c in peer.chans if not c.closed}
            if mode == 'reuse':
                return old.pcid
            if mode == 'cross':  # the identifier Bumble uses for one of the OTHER live channels, or for the closed one
                for c in [c for c in peer.chans if not c.closed] + [old]:
                    if c.bcid not in live and c.bcid != old.pcid and 0x40 <= c.bcid <= 0x7F:
                        return c.bcid
            return next(c for c in range(0x40, 0x80) if c not in live and c != old.pcid)

        for o in script:
            kind = o[0]
            if kind in ('w', 's', 'g', 'd', 'c') and o[1] >= n:
                continue
            if kind == 'w':
                bchans[o[1]].write(pattern(o[1], wpos[o[1]], o[2]))
                wpos[o[1]] += o[2]
            elif kind == 's':
                size = min(o[2], bumble[0])
                peer.chans[o[1]].txq.put_nowait((pattern(100 + o[1], spos[o[1]], size), o[3]))
                spos[o[1]] += size
            elif kind == 'g':
                peer.grant(peer.chans[o[1]], o[2])
            elif kind == 'z':
                await asyncio.sleep(o[1] / 1000.0)
            elif kind == 'd':
                s['draining'] = o[1]
                await bchans[o[1]].drain()
                s.pop('draining', None)
            elif kind == 'c':
                # history: channel k is brought to rest, closed by one end and opened again by one end while the
                # other channels go on with whatever they have queued
                _c, k, who, opener, var2, mode = o
                await quiesce(k)
                old = peer.chans[k]
                s['step'] = f'close_by_{"bumble" if who == "b" else "peer"}'
                if any(c is not old and (c.blocked or getattr(bchans[c.index], 'out_queue', None)
                                         or getattr(bchans[c.index], 'out_sdu', None)) for c in peer.chans):
                    hist.add('H:close_while_other_channel_waits_for_credits')
                if who == 'b':
                    await bchans[k].disconnect()
                else:
                    await peer.disconnect(old)
                await world.settle(20)
                new = successor(old, pick_cid(old, mode))
                s['step'] = f'reopen_by_{"bumble" if opener == "b" else "peer"}/{var2}'
                if opener == 'p':
                    slots.append(k)
                    refused = await peer.initiate(srv.psm, [new], var2)
                    if refused is not None:
                        s['refused'] = refused
                        return
                else:
                    peer.to_accept.append(new)
                    if var2 == 'le':
                        bchans[k] = await conn.create_l2cap_channel(spec=spec)
                    else:
                        bchans[k] = (await mgr.create_enhanced_credit_based_channels(conn, spec, 1))[0]
                    bchans[k].sink = make_sink(k)
                await world.settle(20)
                if new.bcid is None or bchans[k].source_cid != new.bcid or slots:
                    s['phase'] = 'setup_count'
                    return
                s.pop('step', None)
                senders[k] = loop.create_task(peer.sender(new))
                hist.update(('H:reopen', f'H:close_by_{who}/open_by_{opener}'))
                if new.pcid == old.pcid:
                    hist.add('H:peer_cid_reused')
                elif any(c.bcid == new.pcid for c in peer.chans + [old] if c is not new):
                    hist.add('H:peer_cid_is_a_bumble_cid')
                else:
                    hist.add('H:peer_cid_fresh')
                if new.bcid == old.bcid:
                    hist.add('H:bumble_cid_reused')
                if (opener == 'p') != (role == 'peer_initiates') and n > 1:
                    hist.add('H:both_ends_initiated_channels_on_one_link')
                if var2 != variant and n > 1:
                    hist.add('H:le_and_enhanced_on_one_link')
            elif kind == 'L':
                # history: every channel is brought to rest, the link is dropped by one end, the peer connects again and
                # all channels are opened again (same identifiers, rotated, or fresh ones)
                _l, who, mode = o
                for k in range(n):
                    await quiesce(k)
                s['step'] = f'link_drop_by_{"bumble" if who == "b" else "peer"}'
                olds = list(peer.chans)
                gone = asyncio.Event()
                conn.once('disconnection', lambda *_a: gone.set())
                if who == 'b':
                    await conn.disconnect()
                else:
                    await raw.host.send_command(hci.HCI_Disconnect_Command(connection_handle=raw.handle, reason=0x13))
                await gone.wait()
                await asyncio.sleep(1.0)
                peer.link_lost()
                s['step'] = 'reconnect'
                conn = await raw.connect_to(w[0].device)
                await asyncio.sleep(0.5)
                old_cids = [c.pcid for c in olds]
                if mode == 'rotate':
                    new_cids = old_cids[1:] + old_cids[:1]
                elif mode == 'fresh':
                    free = [c for c in range(0x40, 0x80) if c not in old_cids]
                    new_cids = free[:n]
                else:
                    new_cids = old_cids
                news = [successor(old, c) for old, c in zip(olds, new_cids)]
                peer.to_accept = list(news) if role == 'bumble_initiates' else []
                slots[:] = list(range(n)) if role == 'peer_initiates' else []
                s['step'] = 'reopen_after_reconnect'
                if not await open_all(conn):
                    return
                if slots or any(c.bcid is None for c in news) or any(
                        bchans[k].source_cid != news[k].bcid for k in range(n)):
                    s['phase'] = 'setup_count'
                    return
                s.pop('step', None)
                for k in range(n):
                    senders[k] = loop.create_task(peer.sender(news[k]))
                hist.update(('H:relink', f'H:relink_by_{who}', f'H:relink_cids_{mode}'))
        s['phase'] = 'peer_send'
        for ch in peer.chans:
            ch.txq.put_nowait(None)
        await asyncio.gather(*senders)
        s['phase'] = 'drain'
        for k, ch in enumerate(bchans):
            s['draining'] = k
            await ch.drain()
        s.pop('draining', None)
        s['phase'] = 'deliver'
        check_done()
        await done.wait()
        await asyncio.sleep(2.0)
        await settle_credit_packets([lambda: (s.get('grants', 0), s['mon'].credit_rx),
                                     lambda: (s['mon'].credit_tx, s.get('returns', 0))])
        s['phase'] = 'done'

    try:
        outcome, exc = run_loop(loop, main())
        labels = {'B', f'B:{variant}/{role}', f'B:plan:{case["plan"]}', f'B:n{n}'}
        labels |= spec_labels('rx_', peer_spec) | spec_labels('rx_', bumble)
        if any(case['delays'][0]) or any(case['delays'][1]):
            labels.add('delayed')
        if any(case['early']):
            labels.add('B:early_credits')
        if tot_w and tot_s:
            labels.add('bidirectional')
        if any(o[0] == 'w' and o[2] > peer_spec[0] for o in script):
            labels.add('write_gt_mtu')
        nontrivial = False
        peer = s.get('peer')
        step = s.get('step')  # set while a history operation (close / reopen / link drop / reconnect) is under way
        labels |= s.get('hist', set())
        if any(o[0] in ('c', 'L') for o in script):
            labels.add('H')
        if outcome == 'budget':
            labels.add('iteration_budget_hit')
        elif outcome == 'exception':
            fail(f'{tag}/api_exception/{step or s["phase"]}/{type(exc).__name__}',
                 f'{type(exc).__name__}({str(exc)[:120]}) raised in phase {step or s["phase"]}')
        elif 'refused' in s and step:
            now = [hex(c.pcid) for c in peer.chans]
            fail(f'{tag}/history/{step}/refused',
                 f'{step}: connection request of a conforming peer refused with result 0x{s["refused"]["result"]:04X} '
                 f'(the peer\'s CIDs now: {now}; at the start: {[hex(c) for c in cids]})')
        elif 'refused' in s:
            if in_range:
                fail(f'{tag}/setup/refused', f'connection request with source CIDs {[hex(c) for c in cids]} refused: '
                                             f'result 0x{s["refused"]["result"]:04X}')
            else:
                labels.add('B:out_of_range_cid_refused')
        elif step:
            fail(f'{tag}/history/{step}/{outcome if outcome != "done" else "channel_mismatch"}',
                 f'{step} did not complete ({outcome}): Bumble\'s channels {[getattr(c, "source_cid", None) for c in s.get("bchans") or []]}, '
                 f'the peer sees {[(hex(c.pcid), c.bcid) for c in peer.chans]}')
        elif s['phase'] in ('setup', 'setup_count'):
            if in_range or outcome == 'done':
                fail(f'{tag}/setup/{outcome if s["phase"] == "setup" else "channel_count"}',
                     f'channel set-up did not complete ({outcome}, phase {s["phase"]})')
            else:
                labels.add('B:out_of_range_cid_setup_incomplete')
        else:
            differ = any(ch.pcid != ch.bcid for ch in peer.chans)
            crossing = any(ch.pcid in peer.by_bcid and peer.by_bcid[ch.pcid] is not ch for ch in peer.chans)
            if differ:
                labels.add('cids_differ')
                labels.add(f'B:{variant}/{role}/cids_differ')
                nontrivial = True
            if crossing:
                labels.add('cids_crossing')
            if not in_range:
                labels.add('B:out_of_range_cid_accepted')
            out, _local, viol = analyse_host(s['mon'].events)
            seen = set()
            for sig, what in viol:
                if sig not in seen:
                    seen.add(sig)
                    fail(f'{tag}/{sig}', what)
            for sig, what in peer.viol:
                if sig not in seen:
                    seen.add(sig)
                    fail(f'{tag}/peer/{sig}', what)
            for info in out.values():
                if info.multi:
                    labels.add('multi_frame_sdu')
                    nontrivial = True
                if info.exhausted:
                    labels.add('credits_exhausted')
                    nontrivial = True
            if s.get('grants'):
                labels.add('B:peer_granted_credits')
            if any(ch.rx_frames for ch in peer.chans) and any(ch.sent_bytes for ch in peer.chans):
                labels.add('B:data_both_ways')
            # -- streams
            inc_w, inc_s = [], []
            full = outcome == 'done'
            for k in range(n):
                # judged against what the script really issued (all of it when the run completed)
                exp_wk = expected_w[k] if full else expected_w[k][: s.get('wpos', {}).get(k, 0)]
                exp_sk = expected_s[k] if full else expected_s[k][: s.get('spos', {}).get(k, 0)]
                v = stream_verdict(exp_wk, bytes(peer.chans[k].rx_stream))
                if v is not None:
                    if v[0] == 'mismatch':
                        fail(f'{tag}/stream/bumble_to_peer_mismatch', f'channel {k}: {v[1]}')
                    else:
                        inc_w.append((k, v[1]))
                v = stream_verdict(exp_sk, b''.join(s['recv'][k]))
                if v is not None:
                    if v[0] == 'mismatch':
                        fail(f'{tag}/stream/peer_to_bumble_mismatch', f'channel {k}: {v[1]}')
                    else:
                        inc_s.append((k, v[1]))
            # -- credit balance at quiescence: what Bumble believes it may still send == what the peer granted and has not
            #    seen used (a lost grant starves the sender later on, an invented one sends without a credit)
            if full and not inc_w and not inc_s and len(s.get('bchans') or []) == n:
                for k in range(n):
                    believed, granted = s['bchans'][k].credits, peer.chans[k].ledger
                    if believed != granted:
                        fail(f'{tag}/credits/balance_' + ('lost' if believed < granted else 'invented'),
                             f'channel {k} at quiescence: Bumble holds {believed} credit(s), the peer granted {peer.chans[k].initial} '
                             f'initially plus {granted - peer.chans[k].initial + peer.chans[k].rx_frames} in credit packets and '
                             f'received {peer.chans[k].rx_frames} K-frame(s), i.e. {granted} are outstanding')
                        break
                labels.add('B:credit_balance_compared')
                # -- the same for the other direction: what Bumble, as the receiver, believes the peer may still send must
                #    not exceed what the peer really holds (initial + credits in Bumble's credit packets - frames sent): a
                #    credit that Bumble accounts for but never handed over starves the peer before Bumble's low-water mark
                #    is reached. Granting MORE than it accounts for is left open by the statement: label only.
                for k in range(n):
                    believed, holds = s['bchans'][k].peer_credits, peer.chans[k].tx_credits
                    if believed > holds:
                        fail(f'{tag}/credits/receiver_balance_lost',
                             f'channel {k} at quiescence: Bumble accounts {believed} credit(s) to the peer, the peer holds {holds} '
                             f'(initial credits + credits of the L2CAP_LE_Flow_Control_Credit packets it received - K-frames it '
                             f'sent; {peer.ident0_dropped} signalling packet(s) carried the illegal identifier 0 and were discarded)')
                        break
                    if believed < holds:
                        labels.add('B:receiver_granted_more_than_it_accounts')
                labels.add('B:receiver_balance_compared')
            if s.get('returns'):
                labels.add('B:bumble_returned_credits')
            if s.get('returns', 0) >= 256:
                labels.add('W:credit_packet_identifier_wrapped')
            if s.get('max_return', 0) > 255:
                labels.add('W:credit_return_over_255')
            for ch in peer.chans:
                if ch.reopened and ch.rx_frames > ch.initial and ch.grants:
                    labels.add('H:reopened_channel_sent_on_returned_credits')
                if ch.reopened and ch.returns:
                    labels.add('H:reopened_channel_returned_credits')
            if differ and labels & {'H:reopen', 'H:relink'}:
                labels.add('H:cids_differ')
            if peer.ident0_dropped:
                labels.add('B:peer_discarded_identifier_0')
            # -- progress
            if outcome != 'done' or inc_w or inc_s:
                if inc_w:
                    k = inc_w[0][0]
                    ch = peer.chans[k]
                    info = out.get(ch.pcid)
                    held = info.credits if info is not None else None
                    state = 'bumble_idle_holding_credits' if ch.ledger > 0 else 'bumble_out_of_credits'
                    fail(f'{tag}/progress/{state}',
                         f'{outcome} in phase {s["phase"]}: channel {k} (Bumble 0x{ch.bcid:04X} <-> peer 0x{ch.pcid:04X}): '
                         f'only {len(ch.rx_stream)} of {s["wpos"][k]} written bytes reached the peer as complete SDUs '
                         f'({ch.rx_frames} K-frames, {ch.rx_bytes} frame bytes); the peer has granted {ch.ledger} credit(s) '
                         f'that Bumble does not use (ledger of credit frames delivered to Bumble\'s host: {held})')
                elif inc_s:
                    k = inc_s[0][0]
                    ch = peer.chans[k]
                    if ch.blocked:
                        state = 'bumble_returns_no_credits'
                        detail = (f'the peer holds 0 credits after {ch.sent_bytes} complete SDU bytes and Bumble sends '
                                  f'no usable L2CAP_LE_Flow_Control_Credit')
                    else:
                        state = 'received_but_not_delivered'
                        detail = f'all frames were sent, {inc_s[0][1]} bytes never reached the sink'
                    fail(f'{tag}/progress/{state}',
                         f'{outcome} in phase {s["phase"]}: channel {k} (Bumble 0x{ch.bcid:04X} <-> peer 0x{ch.pcid:04X}): {detail}')
                elif 'draining' in s:
                    fail(f'{tag}/progress/drain_never_completes',
                         f'{outcome} in phase {s["phase"]}: every byte written so far was delivered but drain() of '
                         f'channel {s.get("draining")} is still waiting')
                else:
                    fail(f'{tag}/progress/no_progress',
                         f'{outcome} in phase {s["phase"]}: nothing is outstanding, yet the run did not complete')
        ctx.case(case, nontrivial, labels,
                 sample={'B': f'{variant}/{role}', 'cids': cids, 'bumble': bumble, 'peer': peer_spec,
                         'policy': case['policy'], 'script': script[:6]})
    finally:
        loop.shutdown()


# ---------------------------------------------------------------------------
def fixed_cases():
    """A few corner configurations that are always run (the generators reach them too)."""
    yield {'kind': 'A', 'variant': 'le', 'count': 1, 'server': [23, 23, 1], 'client': [23, 23, 1], 'client_node': 0,
           'delays': [[], []], 'geometry': [[27, 64], [27, 64]],
           'c2s': [['w', 0, 70], ['w', 0, 1], ['d', 0]], 's2c': [['w', 0, 47]]}
    yield {'kind': 'A', 'variant': 'enh', 'count': 5, 'server': [65535, 65533, 65535], 'client': [23, 23, 2],
           'client_node': 1, 'delays': [[1], [7]], 'geometry': [[27, 3], [251, 8]],
           'c2s': [['w', k, 3000] for k in range(5)], 's2c': [['w', k, 100] for k in range(5)]}
    for variant in ('le', 'enh'):
        for role in ('peer_initiates', 'bumble_initiates'):
            yield {'kind': 'B', 'variant': variant, 'role': role, 'n': 2, 'bumble': [100, 50, 2], 'peer': [64, 30, 2],
                   'plan': 'shift', 'cids': [0x41, 0x42], 'delays': [[], []], 'early': [0, 0],
                   'policy': [0, 'full', 0],
                   'script': [['w', 0, 300], ['s', 1, 100, 50], ['w', 1, 200], ['s', 0, 90, 7], ['d', 0]]}
            # histories: channel 0 closed and opened again by the other end with the peer's identifier re-used while
            # channel 1 waits for credits; then the link is dropped and both channels come back with rotated identifiers
            yield {'kind': 'B', 'variant': variant, 'role': role, 'n': 2, 'bumble': [100, 50, 2], 'peer': [64, 30, 2],
                   'plan': 'shift', 'cids': [0x41, 0x42], 'delays': [[], []], 'early': [0, 0],
                   'policy': [0, 'full', 3],
                   'script': [['w', 0, 200], ['w', 1, 400], ['c', 0, 'b' if role == 'peer_initiates' else 'p',
                                                             'b' if role == 'peer_initiates' else 'p',
                                                             'enh' if variant == 'le' else 'le', 'reuse'],
                              ['w', 0, 300], ['s', 0, 100, 20], ['L', 'p' if variant == 'le' else 'b', 'rotate'],
                              ['w', 0, 200], ['w', 1, 200], ['s', 1, 90, 7], ['s', 0, 90, 50]]}


def run(ctx) -> None:
    vloop.selftest()
    ctx.extra['medium_max_kframe_payload'] = medium_kframe_limit()
    if ctx.shard == 0:
        for c in fixed_cases():
            replay(ctx, c)
    caps = [300, 2000, 2000, 6000, 20000] if ctx.quick else [300, 2000, 6000, 20000, 20000, 70000, 200000]
    ctx.hyp('A', lambda c: run_a(ctx, c), a_case(caps), max_examples=ctx.n(640, 42000))
    ctx.hyp('B', lambda c: run_b(ctx, c), b_case(caps), max_examples=ctx.n(800, 56000))
    # histories (close / reopen / link drop) and the identifier wrap; the small directed family runs on every shard
    ctx.hyp('H', lambda c: run_b(ctx, c), h_case([300, 1000, 2000, 6000]), max_examples=ctx.n(280, 20000))
    wraps = list(wrap_cases(ctx.quick))
    for c in wraps:
        run_b(ctx, c)
    for label, n in (
        ('A:le', 40), ('A:enh', 40), ('multi_frame_sdu', 80), ('credits_exhausted', 80), ('write_gt_mtu', 60),
        ('bidirectional', 60), ('delayed', 60), ('cids_differ', 60), ('cids_crossing', 10),
        ('B:le/peer_initiates/cids_differ', 8), ('B:enh/peer_initiates/cids_differ', 8),
        ('B:le/bumble_initiates/cids_differ', 8), ('B:enh/bumble_initiates/cids_differ', 8),
        ('B:early_credits', 20), ('B:peer_granted_credits', 60), ('rx_credits_1', 30), ('rx_mtu_min', 20),
        ('rx_mps_min', 20), ('rx_mtu_top', 10), ('rx_mps_top', 10), ('rx_credits_top', 10),
        # extension: ledgers on both sides, histories, identifier wrap
        ('A:credit_ledgers_compared', 300), ('B:receiver_balance_compared', 500), ('B:bumble_returned_credits', 150),
        ('H', 150), ('H:reopen', 80), ('H:relink', 25), ('H:relink_by_b', 8), ('H:relink_by_p', 8),
        ('H:close_by_b/open_by_b', 10), ('H:close_by_b/open_by_p', 10), ('H:close_by_p/open_by_b', 10),
        ('H:close_by_p/open_by_p', 10), ('H:peer_cid_reused', 30), ('H:peer_cid_fresh', 10),
        ('H:peer_cid_is_a_bumble_cid', 10), ('H:bumble_cid_reused', 30), ('H:cids_differ', 60),
        ('H:relink_cids_reuse', 5), ('H:relink_cids_rotate', 3), ('H:relink_cids_fresh', 3),
        ('H:both_ends_initiated_channels_on_one_link', 20), ('H:le_and_enhanced_on_one_link', 20),
        ('H:close_while_other_channel_waits_for_credits', 15), ('H:reopened_channel_sent_on_returned_credits', 40),
        ('H:reopened_channel_returned_credits', 40),
        ('W:credit_packet_identifier_wrapped', sum(1 for c in wraps if c['bumble'][2] <= 2)),
        ('W:credit_return_over_255', sum(1 for c in wraps if c['bumble'][2] > 255)),
    ):
        ctx.floor(label, n)


def replay(ctx, case) -> None:
    kind = case['kind']
    if kind == 'A':
        run_a(ctx, case)
    elif kind == 'B':
        run_b(ctx, case)
    else:
        raise ValueError(kind)
